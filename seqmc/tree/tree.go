// Package tree: the reference model of a spec value — a plain tree — plus the boundary alphabets and
// deterministic enumerators shared by C01/C08/C13/C16/C17.
package tree

import (
	"encoding/hex"
	"fmt"
	"math"
	"strings"
)

type Kind uint8

const (
	Bool Kind = iota
	Byte
	Int16
	Int32
	Int64
	Uint16
	Uint32
	Uint64
	Float32
	Float64
	Bin64
	Bin128
	Bin256
	Bytes
	String
	List
	Message
	Struct // sequence of scalar members, written through the generic WriteField/WriteElement route
	NKinds
)

var kindNames = [...]string{"bool", "byte", "int16", "int32", "int64", "uint16", "uint32", "uint64", "float32", "float64",
	"bin64", "bin128", "bin256", "bytes", "string", "list", "message", "struct"}

func (k Kind) String() string { return kindNames[k] }
func (k Kind) Scalar() bool   { return k < List }

type Field struct {
	Tag uint16
	Val *Node
}

// Node is a value. Scalars keep their value in U (integers: two's complement / raw bits; floats: bits)
// or B (bins, bytes, string). Fill>=0 marks a large payload of N identical bytes (kept lazily).
type Node struct {
	Kind   Kind
	U      uint64
	B      []byte
	Elems  []*Node // list elements / struct members
	Fields []Field // message fields in WRITE order
}

func (n *Node) Size() int {
	s := 1
	for _, e := range n.Elems {
		s += e.Size()
	}
	for _, f := range n.Fields {
		s += f.Val.Size()
	}
	return s
}

func (n *Node) String() string {
	var sb strings.Builder
	n.write(&sb)
	return sb.String()
}

func (n *Node) write(sb *strings.Builder) {
	switch n.Kind {
	case List, Struct:
		if n.Kind == List {
			sb.WriteString("[")
		} else {
			sb.WriteString("struct(")
		}
		for i, e := range n.Elems {
			if i > 0 {
				sb.WriteString(",")
			}
			if i >= 6 && len(n.Elems) > 8 {
				fmt.Fprintf(sb, "…x%d", len(n.Elems))
				break
			}
			e.write(sb)
		}
		if n.Kind == List {
			sb.WriteString("]")
		} else {
			sb.WriteString(")")
		}
	case Message:
		sb.WriteString("{")
		for i, f := range n.Fields {
			if i > 0 {
				sb.WriteString(",")
			}
			if i >= 6 && len(n.Fields) > 8 {
				fmt.Fprintf(sb, "…x%d", len(n.Fields))
				break
			}
			fmt.Fprintf(sb, "%d:", f.Tag)
			f.Val.write(sb)
		}
		sb.WriteString("}")
	case Bin64, Bin128, Bin256, Bytes, String:
		if len(n.B) > 12 {
			fmt.Fprintf(sb, "%s(len=%d,%s…)", n.Kind, len(n.B), hex.EncodeToString(n.B[:4]))
		} else {
			fmt.Fprintf(sb, "%s(%s)", n.Kind, hex.EncodeToString(n.B))
		}
	case Float32:
		fmt.Fprintf(sb, "f32(%08x)", uint32(n.U))
	case Float64:
		fmt.Fprintf(sb, "f64(%016x)", n.U)
	case Int16, Int32, Int64:
		fmt.Fprintf(sb, "%s(%d)", n.Kind, int64(n.U))
	default:
		fmt.Fprintf(sb, "%s(%d)", n.Kind, n.U)
	}
}

// IsZero reports whether the node is the zero value of its kind.
func (n *Node) IsZero() bool {
	switch n.Kind {
	case List, Struct:
		return len(n.Elems) == 0
	case Message:
		return len(n.Fields) == 0
	case Bytes, String:
		return len(n.B) == 0
	case Bin64, Bin128, Bin256:
		for _, b := range n.B {
			if b != 0 {
				return false
			}
		}
		return true
	}
	return n.U == 0
}

// constructors

func I(k Kind, v int64) *Node      { return &Node{Kind: k, U: uint64(v)} }
func U(k Kind, v uint64) *Node     { return &Node{Kind: k, U: v} }
func F32(bits uint32) *Node        { return &Node{Kind: Float32, U: uint64(bits)} }
func F64(bits uint64) *Node        { return &Node{Kind: Float64, U: bits} }
func B(k Kind, b []byte) *Node     { return &Node{Kind: k, B: b} }
func L(e ...*Node) *Node           { return &Node{Kind: List, Elems: e} }
func S(e ...*Node) *Node           { return &Node{Kind: Struct, Elems: e} }
func M(f ...Field) *Node           { return &Node{Kind: Message, Fields: f} }
func Fd(tag uint16, v *Node) Field { return Field{tag, v} }

func Fill(n int, fill int) []byte {
	p := make([]byte, n)
	for i := range p {
		if fill < 0 {
			p[i] = byte(i*7 + 3)
		} else {
			p[i] = byte(fill)
		}
	}
	return p
}

func binPat(n int, a, b byte) []byte {
	p := make([]byte, n)
	for i := range p {
		if i%2 == 0 {
			p[i] = a
		} else {
			p[i] = b
		}
	}
	return p
}

// Leaves returns the boundary alphabet of scalar leaves. level 0 = small (quick), 1 = full.
func Leaves(level int) []*Node {
	var out []*Node
	add := func(n ...*Node) { out = append(out, n...) }
	add(U(Bool, 0), U(Bool, 1))
	add(U(Byte, 0), U(Byte, 0xff))
	add(I(Int16, 0), I(Int16, -1), I(Int16, math.MaxInt16), I(Int16, math.MinInt16))
	add(I(Int32, 0x7e), I(Int32, 0x7f), I(Int32, -0x8000), I(Int32, math.MaxInt32))
	add(I(Int64, 0), I(Int64, math.MinInt64), I(Int64, 1<<32))
	add(U(Uint16, 0), U(Uint16, 0xfc), U(Uint16, 0xfd), U(Uint16, 0xffff))
	add(U(Uint32, 0x10000), U(Uint32, 0xffffffff))
	add(U(Uint64, 0xff), U(Uint64, 1<<32), U(Uint64, math.MaxUint64))
	add(F32(0), F32(0x80000000), F32(0x7f800000), F32(0x3f800000))
	add(F64(0), F64(0x7ff8000000000001), F64(0xfff0000000000000), F64(0x3ff0000000000000))
	add(B(Bin64, binPat(8, 0, 0)), B(Bin64, binPat(8, 0xff, 0xfd)))
	add(B(Bin128, binPat(16, 0x01, 0xfe)))
	add(B(Bin256, binPat(32, 0xaa, 0x55)))
	add(B(Bytes, nil), B(Bytes, []byte{0}), B(Bytes, []byte{0xfd, 0xfe, 0xff}), B(Bytes, Fill(253, -1)))
	add(B(String, nil), B(String, []byte("a")), B(String, []byte("h\x00i")), B(String, Fill(252, 0x61)))
	if level >= 1 {
		add(U(Byte, 0x03), U(Byte, 0xfd))
		add(I(Int16, 1), I(Int16, 0x7e), I(Int16, -0x7f), I(Int32, 0), I(Int32, -1), I(Int32, 0x7fff), I(Int32, 0x8000), I(Int32, math.MinInt32))
		add(I(Int64, -1), I(Int64, math.MaxInt64), I(Int64, math.MaxInt32+1), I(Int64, 0x7fffffff))
		add(U(Uint16, 1), U(Uint16, 0xfe), U(Uint16, 0xff), U(Uint32, 0), U(Uint32, 0xfc), U(Uint32, 0xfd), U(Uint32, 0xffff))
		add(U(Uint64, 0), U(Uint64, 0xfffffffff), U(Uint64, 0xffffffff))
		add(F32(0x7fc00000), F32(0xff800000), F32(0x00000001), F32(0x7f7fffff))
		add(F64(0x8000000000000000), F64(0x7ff0000000000000), F64(0x0000000000000001), F64(0x7fefffffffffffff), F64(0x47efffffe0000000))
		add(B(Bin128, binPat(16, 0, 0)), B(Bin256, binPat(32, 0, 0)), B(Bin64, binPat(8, 0x50, 0x3c)))
		add(B(Bytes, Fill(252, 0xff)), B(Bytes, Fill(254, 0)), B(Bytes, []byte{80}), B(Bytes, []byte{0x46, 0, 0, 0x46}))
		add(B(String, Fill(253, 0)), B(String, []byte("\xfd")), B(String, []byte("\x00")))
	}
	return out
}

// OneLeafPerKind returns one non-zero leaf per scalar kind (used for shapes).
func OneLeafPerKind() []*Node {
	return []*Node{U(Bool, 1), U(Byte, 7), I(Int16, -300), I(Int32, 70000), I(Int64, -1<<40), U(Uint16, 300), U(Uint32, 70000), U(Uint64, 1<<40),
		F32(0x40490fdb), F64(0x400921fb54442d18), B(Bin64, binPat(8, 1, 2)), B(Bin128, binPat(16, 3, 4)), B(Bin256, binPat(32, 5, 6)),
		B(Bytes, []byte{1, 2, 3}), B(String, []byte("str"))}
}

var TagAlphabet = []uint16{1, 2, 254, 255, 256, 65535}

// Perms calls f with every permutation of 0..n-1.
func Perms(n int, f func([]int)) {
	p := make([]int, n)
	for i := range p {
		p[i] = i
	}
	var rec func(k int)
	rec = func(k int) {
		if k == n {
			f(p)
			return
		}
		for i := k; i < n; i++ {
			p[k], p[i] = p[i], p[k]
			rec(k + 1)
			p[k], p[i] = p[i], p[k]
		}
	}
	rec(0)
}

// Trees enumerates every value tree with exactly `nodes` nodes: leaves from the alphabet, containers list
// and message (distinct tags from tags, every write order = every ordered selection of tags), struct (scalar members only).
// The enumeration is deterministic. f returns false to stop.
func Trees(nodes int, leaves []*Node, tags []uint16, f func(*Node) bool) bool {
	if nodes == 1 {
		for _, l := range leaves {
			if !f(l) {
				return false
			}
		}
		// empty containers
		return f(L()) && f(M()) && f(S())
	}
	// container root with children sizes composing nodes-1
	ok := true
	compositions(nodes-1, func(sizes []int) bool {
		// children sequences
		ok = childSeqs(sizes, leaves, tags, func(ch []*Node) bool {
			// list
			if !f(L(append([]*Node{}, ch...)...)) {
				return false
			}
			// struct: scalar members only
			allScalar := true
			for _, c := range ch {
				if !c.Kind.Scalar() {
					allScalar = false
				}
			}
			if allScalar {
				if !f(S(append([]*Node{}, ch...)...)) {
					return false
				}
			}
			// message: every ordered selection of distinct tags
			return tagSeqs(len(ch), tags, func(ts []uint16) bool {
				fs := make([]Field, len(ch))
				for i := range ch {
					fs[i] = Field{ts[i], ch[i]}
				}
				return f(M(fs...))
			})
		})
		return ok
	})
	return ok
}

func compositions(n int, f func([]int) bool) {
	var cur []int
	var rec func(rem int) bool
	rec = func(rem int) bool {
		if rem == 0 {
			return f(cur)
		}
		for k := 1; k <= rem; k++ {
			cur = append(cur, k)
			if !rec(rem - k) {
				return false
			}
			cur = cur[:len(cur)-1]
		}
		return true
	}
	rec(n)
}

func childSeqs(sizes []int, leaves []*Node, tags []uint16, f func([]*Node) bool) bool {
	ch := make([]*Node, len(sizes))
	var rec func(i int) bool
	rec = func(i int) bool {
		if i == len(sizes) {
			return f(ch)
		}
		return Trees(sizes[i], leaves, tags, func(n *Node) bool {
			ch[i] = n
			return rec(i + 1)
		})
	}
	return rec(0)
}

func tagSeqs(n int, tags []uint16, f func([]uint16) bool) bool {
	ts := make([]uint16, n)
	used := make([]bool, len(tags))
	var rec func(i int) bool
	rec = func(i int) bool {
		if i == n {
			return f(ts)
		}
		for j, t := range tags {
			if used[j] {
				continue
			}
			used[j] = true
			ts[i] = t
			if !rec(i + 1) {
				return false
			}
			used[j] = false
		}
		return true
	}
	return rec(0)
}
