package main

import (
	"bytes"
	"fmt"
	"math"

	"github.com/basecomplextech/baselibrary/bin"
	"github.com/basecomplextech/baselibrary/buffer"
	"github.com/basecomplextech/spec"
	"github.com/basecomplextech/spec/zzverif/seqmc/vlib"
)

// C10 — scalar codecs are exact inverses; width changes never truncate silently.
//
// Enumerated: whole domain of bool/byte/int16/uint16 (x every read width of the family); for 32-bit types
// the structured lattice (quick) or all 2^32 values (thorough, sharded); 64-bit lattice; float patterns;
// bin patterns; bytes/strings of every length 0..300 and around 65535 with hostile contents.

func init() { checks["c10"] = c10 }

type c10case struct {
	Kind string `json:"kind"`
	Bits string `json:"bits"`           // value as hex bits / hex content
	Read string `json:"read,omitempty"` // accessor used for reading
}

func c10(a *vlib.Args) {
	r := vlib.NewResult("C10", a)
	c := &c10s{r: r, buf: buffer.New(), a: a}
	c.run()
	r.Write(a)
}

type c10s struct {
	r          *vlib.Result
	a          *vlib.Args
	buf        buffer.Buffer
	idx        int64
	evals      int64
	nontrivial int64
	wantSample bool
}

func (c *c10s) fail(kind, bits, read, desc string) {
	sig := fmt.Sprintf("%s->%s: %s", kind, read, desc)
	c.r.Violate(sig, fmt.Sprintf("%s value=%s read=%s: %s", kind, bits, read, desc), c10case{kind, bits, read})
}

// next reports whether the next case belongs to this shard.
func (c *c10s) next() bool {
	c.idx++
	return c.a.Mine(c.idx)
}

func lattice64() (ints []int64, uints []uint64) {
	seenI := map[int64]bool{}
	seenU := map[uint64]bool{}
	addU := func(u uint64) {
		for _, d := range []uint64{0, 1, ^uint64(0), 2, ^uint64(1)} { // +0,+1,-1,+2,-2
			v := u + d
			if !seenU[v] {
				seenU[v] = true
				uints = append(uints, v)
			}
			i := int64(v)
			for _, s := range []int64{i, -i, ^i} {
				if !seenI[s] {
					seenI[s] = true
					ints = append(ints, s)
				}
			}
		}
	}
	for k := 0; k < 64; k++ {
		addU(uint64(1) << k)
	}
	for _, e := range []uint64{0, 0xfc, 0xfd, 0xfe, 0xff, 0xffff, 0x10000, 0xffffffff, 1 << 32, 0x7e, 0x7f, 0x7ffe, 0x7fff, 0x8000,
		0x7fffffff, 0x80000000, math.MaxInt64, 1 << 63, math.MaxUint64, 0xfc / 2, 0xfd / 2, 0xffff / 2, 0x10000 / 2, 0xffffffff / 2,
		0x5555555555555555, 0xaaaaaaaaaaaaaaaa, 0x0123456789abcdef, 0xfdfdfdfdfdfdfdfd, 0xfefefefefefefefe} {
		addU(e)
	}
	return
}

func (c *c10s) run() {
	r := c.r
	thorough := c.a.Thorough()
	ints, uints := lattice64()

	// bool, byte: whole domain
	for _, v := range []bool{false, true} {
		if c.next() {
			c.boolCase(v)
		}
	}
	for v := 0; v < 256; v++ {
		if c.next() {
			c.byteCase(byte(v))
		}
	}
	// 16-bit: whole domain, every read width
	for v := math.MinInt16; v <= math.MaxInt16; v++ {
		if c.next() {
			c.intCase(16, int64(v))
		}
	}
	for v := 0; v <= math.MaxUint16; v++ {
		if c.next() {
			c.uintCase(16, uint64(v))
		}
	}
	// 32/64-bit lattice (and every lattice value through every stored width in which it fits)
	for _, v := range ints {
		if !c.next() {
			continue
		}
		for _, w := range []int{16, 32, 64} {
			if fitsInt(v, w) {
				c.intCase(w, v)
			}
		}
	}
	for _, v := range uints {
		if !c.next() {
			continue
		}
		for _, w := range []int{16, 32, 64} {
			if fitsUint(v, w) {
				c.uintCase(w, v)
			}
		}
	}
	// floats: every (sign, exponent, mantissa pattern)
	for sign := uint32(0); sign < 2; sign++ {
		for exp := uint32(0); exp < 256; exp++ {
			for _, m := range []uint32{0, 1, 2, 0x7fffff, 0x7ffffe, 0x555555, 0x2aaaaa, 0x400000, 0x400001, 0x200000, 0x3fffff} {
				if c.next() {
					c.f32Case(sign<<31 | exp<<23 | m)
				}
			}
		}
	}
	for sign := uint64(0); sign < 2; sign++ {
		for exp := uint64(0); exp < 2048; exp++ {
			for _, m := range []uint64{0, 1, 2, 0xfffffffffffff, 0xffffffffffffe, 0x5555555555555, 0xaaaaaaaaaaaaa, 0x8000000000000, 0x8000000000001,
				0x4000000000000, 0x7ffffffffffff, 0xfffffe0000000, 0xfffffe0000001, 0xffffff0000000, 0x0000010000000, 0x0000020000000, 0x0000030000000} {
				if c.next() {
					c.f64Case(sign<<63 | exp<<52 | m)
				}
			}
		}
	}
	// every float32 value widened to float64 is representable: covered by f32Case reading as float64.
	// float64 around the float32 range edge
	for _, f := range []float64{math.MaxFloat32, -math.MaxFloat32, math.Nextafter(math.MaxFloat32, math.Inf(1)), math.Nextafter(-math.MaxFloat32, math.Inf(-1)),
		math.Nextafter(math.MaxFloat32, 0), math.SmallestNonzeroFloat32, math.SmallestNonzeroFloat32 / 2, math.SmallestNonzeroFloat64,
		math.MaxFloat64, -math.MaxFloat64, math.Inf(1), math.Inf(-1), math.NaN(), 0, math.Copysign(0, -1), 0.1, 1.0 / 3, 16777216, 16777217, 1e39, -1e39} {
		if c.next() {
			c.f64Case(math.Float64bits(f))
		}
	}
	// bins
	pat := []byte{0x00, 0x01, 0x7f, 0x80, 0xfc, 0xfd, 0xfe, 0xff, 0x55, 0xaa}
	for _, p := range pat {
		for _, q := range pat {
			if c.next() {
				c.binCase(p, q)
			}
		}
	}
	// bytes / strings
	var lens []int
	for n := 0; n <= 300; n++ {
		lens = append(lens, n)
	}
	lens = append(lens, 65534, 65535, 65536, 65537)
	if thorough {
		lens = append(lens, 1<<20, 1<<24+1)
	}
	for _, n := range lens {
		for _, fill := range []int{0x00, 0x61, 0xfc, 0xfd, 0xfe, 0xff, -1} {
			if c.next() {
				c.bytesCase(n, fill)
			}
		}
	}

	// thorough: the whole 32-bit domains
	if thorough {
		// contiguous ranges per shard so that each shard streams through its block
		span := uint64(1) << 32
		per := span / uint64(c.a.NShards)
		lo := per * uint64(c.a.Shard)
		hi := lo + per
		if c.a.Shard == c.a.NShards-1 {
			hi = span
		}
		for u := lo; u < hi; u++ {
			c.intCase(32, int64(int32(uint32(u))))
			c.uintCase(32, u)
			c.f32Case(uint32(u))
		}
		r.Bounds["full32"] = fmt.Sprintf("int32,uint32,float32 bit patterns [%d,%d) of 2^32", lo, hi)
	}

	r.Evaluations = c.evals
	r.Distinct = c.nontrivial
	r.Rule = "deterministic enumeration (no sampling): whole domain of bool/byte/int16/uint16; lattice {±2^k±{0,1,2}, varint class edges, zig-zag images, extremes} for 32/64-bit ints; all (sign,exponent) x mantissa patterns for floats; bin byte patterns; bytes/strings of every length 0..300 and 65534..65537 x fill patterns; thorough adds all 2^32 int32/uint32/float32 patterns. Each case = one (stored kind, value) pair run through the encoder and every decoder of its family; all cases are distinct by construction; non-trivial = value != 0/empty"
	r.Bounds["tier"] = c.a.Tier
}

func fitsInt(v int64, w int) bool {
	switch w {
	case 16:
		return v >= math.MinInt16 && v <= math.MaxInt16
	case 32:
		return v >= math.MinInt32 && v <= math.MaxInt32
	}
	return true
}
func fitsUint(v uint64, w int) bool {
	switch w {
	case 16:
		return v <= math.MaxUint16
	case 32:
		return v <= math.MaxUint32
	}
	return true
}

func (c *c10s) boolCase(v bool) {
	c.count(v)
	b := c.buf
	b.Reset()
	n, err := spec.EncodeBool(b, v)
	bits := fmt.Sprint(v)
	if err != nil || n != b.Len() {
		c.fail("bool", bits, "encode", fmt.Sprintf("n=%d len=%d err=%v", n, b.Len(), err))
		return
	}
	got, m, err := spec.DecodeBool(b.Bytes())
	if err != nil || got != v || m != n {
		c.fail("bool", bits, "bool", fmt.Sprintf("got=%v size=%d want size=%d err=%v", got, m, n, err))
	}
	c.probe("bool", bits, b.Bytes(), n)
}

func (c *c10s) count(nontrivial bool) {
	c.evals++
	if nontrivial {
		c.nontrivial++
	}
	if c.evals%997 == 1 && len(c.r.Samples) < 12 {
		c.wantSample = true
	}
}

func (c *c10s) byteCase(v byte) {
	c.count(v != 0)
	b := c.buf
	b.Reset()
	n, err := spec.EncodeByte(b, v)
	bits := fmt.Sprintf("%02x", v)
	if err != nil || n != b.Len() {
		c.fail("byte", bits, "encode", fmt.Sprintf("n=%d len=%d err=%v", n, b.Len(), err))
		return
	}
	got, m, err := spec.DecodeByte(b.Bytes())
	if err != nil || got != v || m != n {
		c.fail("byte", bits, "byte", fmt.Sprintf("got=%v size=%d want size=%d err=%v", got, m, n, err))
	}
	c.probe("byte", bits, b.Bytes(), n)
}

// probe: the size probe must agree with the encoder's size (C10: "size its decoder reports").
func (c *c10s) probe(kind, bits string, p []byte, n int) {
	_, m, err := spec.DecodeTypeSize(p)
	if err != nil || m != n {
		c.fail(kind, bits, "DecodeTypeSize", fmt.Sprintf("probe size=%d want %d err=%v", m, n, err))
	}
	if c.wantSample {
		c.wantSample = false
		c.r.Sample(12, map[string]string{"kind": kind, "value_bits": bits, "encoded": vlib.Hex(clip(p, 24))})
	}
}

func clip(p []byte, n int) []byte {
	if len(p) > n {
		return p[len(p)-n:]
	}
	return p
}

func (c *c10s) intCase(w int, v int64) {
	c.count(v != 0)
	b := c.buf
	b.Reset()
	var n int
	var err error
	switch w {
	case 16:
		n, err = spec.EncodeInt16(b, int16(v))
	case 32:
		n, err = spec.EncodeInt32(b, int32(v))
	default:
		n, err = spec.EncodeInt64(b, v)
	}
	kind := fmt.Sprintf("int%d", w)
	bits := fmt.Sprintf("%d", v)
	if err != nil || n != b.Len() {
		c.fail(kind, bits, "encode", fmt.Sprintf("n=%d len=%d err=%v", n, b.Len(), err))
		return
	}
	p := b.Bytes()
	{
		got, m, err := spec.DecodeInt16(p)
		c.intRead(kind, bits, "int16", v, fitsInt(v, 16), int64(got), m, n, err)
	}
	{
		got, m, err := spec.DecodeInt32(p)
		c.intRead(kind, bits, "int32", v, fitsInt(v, 32), int64(got), m, n, err)
	}
	{
		got, m, err := spec.DecodeInt64(p)
		c.intRead(kind, bits, "int64", v, true, got, m, n, err)
	}
	c.probe(kind, bits, p, n)
}

func (c *c10s) intRead(kind, bits, read string, v int64, fits bool, got int64, m, n int, err error) {
	if fits {
		if err != nil || got != v || m != n {
			c.fail(kind, bits, read, fmt.Sprintf("representable but got=%d size=%d (want %d) err=%v", got, m, n, err))
		}
		return
	}
	if err == nil {
		c.fail(kind, bits, read, fmt.Sprintf("not representable but no error: got=%d", got))
	}
}

func (c *c10s) uintCase(w int, v uint64) {
	c.count(v != 0)
	b := c.buf
	b.Reset()
	var n int
	var err error
	switch w {
	case 16:
		n, err = spec.EncodeUint16(b, uint16(v))
	case 32:
		n, err = spec.EncodeUint32(b, uint32(v))
	default:
		n, err = spec.EncodeUint64(b, v)
	}
	kind := fmt.Sprintf("uint%d", w)
	bits := fmt.Sprintf("%d", v)
	if err != nil || n != b.Len() {
		c.fail(kind, bits, "encode", fmt.Sprintf("n=%d len=%d err=%v", n, b.Len(), err))
		return
	}
	p := b.Bytes()
	chk := func(read string, fits bool, got uint64, m int, err error) {
		if fits {
			if err != nil || got != v || m != n {
				c.fail(kind, bits, read, fmt.Sprintf("representable but got=%d size=%d (want %d) err=%v", got, m, n, err))
			}
			return
		}
		if err == nil {
			c.fail(kind, bits, read, fmt.Sprintf("not representable but no error: got=%d", got))
		}
	}
	{
		got, m, err := spec.DecodeUint16(p)
		chk("uint16", fitsUint(v, 16), uint64(got), m, err)
	}
	{
		got, m, err := spec.DecodeUint32(p)
		chk("uint32", fitsUint(v, 32), uint64(got), m, err)
	}
	{
		got, m, err := spec.DecodeUint64(p)
		chk("uint64", true, got, m, err)
	}
	c.probe(kind, bits, p, n)
}

func sameF32(a, b float32) bool {
	if a != a && b != b {
		return true // NaN stays NaN (payload bits of signalling NaNs are quieted by the FPU on widening; not a value change)
	}
	return math.Float32bits(a) == math.Float32bits(b)
}
func sameF64(a, b float64) bool {
	if a != a && b != b {
		return true
	}
	return math.Float64bits(a) == math.Float64bits(b)
}

func (c *c10s) f32Case(bitsv uint32) {
	c.count(bitsv != 0)
	v := math.Float32frombits(bitsv)
	b := c.buf
	b.Reset()
	n, err := spec.EncodeFloat32(b, v)
	bits := fmt.Sprintf("%08x", bitsv)
	if err != nil || n != b.Len() {
		c.fail("float32", bits, "encode", fmt.Sprintf("n=%d len=%d err=%v", n, b.Len(), err))
		return
	}
	p := b.Bytes()
	got, m, err := spec.DecodeFloat32(p)
	if err != nil || !sameF32(got, v) || m != n {
		c.fail("float32", classF32(bitsv), "float32", fmt.Sprintf("got=%08x size=%d (want %d) err=%v", math.Float32bits(got), m, n, err))
	}
	got64, m, err := spec.DecodeFloat64(p)
	if err != nil || !sameF64(got64, float64(v)) || m != n {
		c.fail("float32", classF32(bitsv), "float64", fmt.Sprintf("got=%016x size=%d (want %d) err=%v", math.Float64bits(got64), m, n, err))
	}
	c.probe("float32", bits, p, n)
}

// classF32 gives violations of one class one signature (the value goes to the replay object).
func classF32(b uint32) string {
	f := math.Float32frombits(b)
	switch {
	case math.IsInf(float64(f), 1):
		return "+Inf"
	case math.IsInf(float64(f), -1):
		return "-Inf"
	case f != f:
		return "NaN"
	}
	return "finite"
}

func (c *c10s) f64Case(bitsv uint64) {
	c.count(bitsv != 0)
	v := math.Float64frombits(bitsv)
	b := c.buf
	b.Reset()
	n, err := spec.EncodeFloat64(b, v)
	bits := fmt.Sprintf("%016x", bitsv)
	if err != nil || n != b.Len() {
		c.fail("float64", bits, "encode", fmt.Sprintf("n=%d len=%d err=%v", n, b.Len(), err))
		return
	}
	p := b.Bytes()
	got, m, err := spec.DecodeFloat64(p)
	if err != nil || !sameF64(got, v) || m != n {
		c.fail("float64", "any", "float64", fmt.Sprintf("value=%s got=%016x size=%d (want %d) err=%v", bits, math.Float64bits(got), m, n, err))
	}
	// read through float32: exactly representable (incl. ±Inf, NaN, ±0) => that value; finite magnitude beyond
	// MaxFloat32 => error; in range but inexact => the statement does not say (rounding or error both accepted,
	// a returned value must then be the correctly rounded one).
	got32, m, err := spec.DecodeFloat32(p)
	f32 := float32(v)
	exact := float64(f32) == v || v != v
	over := !math.IsInf(v, 0) && v == v && math.Abs(v) > math.MaxFloat32
	cls := "finite"
	switch {
	case math.IsInf(v, 0):
		cls = "Inf"
	case v != v:
		cls = "NaN"
	case over:
		cls = "beyond-float32"
	case !exact:
		cls = "inexact"
	}
	switch {
	case over:
		// float32(v) may round to MaxFloat32 for values just above it: IEEE conversion says representable after rounding
		// only if it rounds to a finite value; the library compares the float64, so any value > MaxFloat32 must be an error.
		if err == nil && !(math.Abs(float64(got32)) == math.MaxFloat32 && !math.IsInf(float64(f32), 0)) {
			c.fail("float64", cls, "float32", fmt.Sprintf("value=%s not representable but no error: got=%08x", bits, math.Float32bits(got32)))
		}
	case exact:
		if err != nil || !sameF32(got32, f32) || m != n {
			c.fail("float64", cls, "float32", fmt.Sprintf("value=%s representable but got=%08x size=%d (want %d) err=%v", bits, math.Float32bits(got32), m, n, err))
		}
	default:
		if err == nil && (!sameF32(got32, f32) || m != n) {
			c.fail("float64", cls, "float32", fmt.Sprintf("value=%s rounded wrongly: got=%08x want=%08x size=%d/%d", bits, math.Float32bits(got32), math.Float32bits(f32), m, n))
		}
	}
	c.probe("float64", bits, p, n)
}

func (c *c10s) binCase(p0, p1 byte) {
	c.count(p0 != 0 || p1 != 0)
	var raw [32]byte
	for i := range raw {
		if i%2 == 0 {
			raw[i] = p0
		} else {
			raw[i] = p1
		}
	}
	raw[31] = p1
	raw[0] = p0
	bits := fmt.Sprintf("%02x%02x", p0, p1)
	b := c.buf
	{
		var a [8]byte
		copy(a[:], raw[:])
		v := bin.Bin64(a)
		b.Reset()
		n, err := spec.EncodeBin64(b, v)
		got, m, err2 := spec.DecodeBin64(b.Bytes())
		if err != nil || err2 != nil || n != b.Len() || m != n || got != v {
			c.fail("bin64", bits, "bin64", fmt.Sprintf("n=%d len=%d m=%d err=%v/%v equal=%v", n, b.Len(), m, err, err2, got == v))
		}
		c.probe("bin64", bits, b.Bytes(), n)
	}
	{
		var a [16]byte
		copy(a[:], raw[:])
		v := bin.New128(a)
		b.Reset()
		n, err := spec.EncodeBin128(b, v)
		got, m, err2 := spec.DecodeBin128(b.Bytes())
		if err != nil || err2 != nil || n != b.Len() || m != n || got != v {
			c.fail("bin128", bits, "bin128", fmt.Sprintf("n=%d len=%d m=%d err=%v/%v equal=%v", n, b.Len(), m, err, err2, got == v))
		}
		c.probe("bin128", bits, b.Bytes(), n)
		b.Reset()
		pb, n2, err := spec.EncodeBin128Bytes(b, v)
		got, m, err2 = spec.DecodeBin128(b.Bytes())
		if err != nil || err2 != nil || n2 != b.Len() || m != n2 || got != v || !bytes.Equal(pb, b.Bytes()) {
			c.fail("bin128", bits, "bin128bytes", fmt.Sprintf("n=%d len=%d m=%d err=%v/%v equal=%v", n2, b.Len(), m, err, err2, got == v))
		}
	}
	{
		v := bin.New256(raw)
		b.Reset()
		n, err := spec.EncodeBin256(b, v)
		got, m, err2 := spec.DecodeBin256(b.Bytes())
		if err != nil || err2 != nil || n != b.Len() || m != n || got != v {
			c.fail("bin256", bits, "bin256", fmt.Sprintf("n=%d len=%d m=%d err=%v/%v equal=%v", n, b.Len(), m, err, err2, got == v))
		}
		c.probe("bin256", bits, b.Bytes(), n)
	}
}

func fillBytes(n, fill int) []byte {
	p := make([]byte, n)
	for i := range p {
		if fill < 0 {
			p[i] = byte(i*7 + 3)
		} else {
			p[i] = byte(fill)
		}
	}
	return p
}

func (c *c10s) bytesCase(n, fill int) {
	c.count(n != 0)
	data := fillBytes(n, fill)
	bits := fmt.Sprintf("len=%d fill=%d", n, fill)
	b := c.buf
	b.Reset()
	sz, err := spec.EncodeBytes(b, data)
	got, m, err2 := spec.DecodeBytes(b.Bytes())
	if err != nil || err2 != nil || sz != b.Len() || m != sz || !bytes.Equal(got, data) {
		c.fail("bytes", bits, "bytes", fmt.Sprintf("n=%d len=%d m=%d err=%v/%v equal=%v", sz, b.Len(), m, err, err2, bytes.Equal(got, data)))
	}
	c.probe("bytes", bits, b.Bytes(), sz)

	b.Reset()
	s := string(data)
	sz, err = spec.EncodeString(b, s)
	gs, m, err2 := spec.DecodeString(b.Bytes())
	if err != nil || err2 != nil || sz != b.Len() || m != sz || string(gs) != s {
		c.fail("string", bits, "string", fmt.Sprintf("n=%d len=%d m=%d err=%v/%v equal=%v", sz, b.Len(), m, err, err2, string(gs) == s))
	}
	gc, m, err2 := spec.DecodeStringClone(b.Bytes())
	if err2 != nil || m != sz || gc != s {
		c.fail("string", bits, "stringclone", fmt.Sprintf("m=%d want %d err=%v equal=%v", m, sz, err2, gc == s))
	}
	c.probe("string", bits, b.Bytes(), sz)
}
