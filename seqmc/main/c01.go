package main

import (
	"fmt"

	"github.com/basecomplextech/baselibrary/buffer"
	"github.com/basecomplextech/spec/zzverif/seqmc/specio"
	"github.com/basecomplextech/spec/zzverif/seqmc/tree"
	"github.com/basecomplextech/spec/zzverif/seqmc/vlib"
)

// C01 — writer -> reader round trip preserves every value tree.
func init() { checks["c01"] = c01 }

type c01replay struct {
	Name  string `json:"name"`
	Index int64  `json:"index"`
	Route string `json:"route"`
	Tree  string `json:"tree"`
	Tier  string `json:"tier"`
}

func c01Bounds(a *vlib.Args) (maxNodes, level int) {
	if a.Thorough() {
		return 4, 1
	}
	return 3, 0
}

func c01(a *vlib.Args) {
	r := vlib.NewResult("C01", a)
	bigOffsetFamily = true
	maxNodes, level := c01Bounds(a)
	var want c01replay
	if a.Replay != "" {
		vlib.LoadReplay(a.Replay, &want)
		a.Tier = want.Tier
		maxNodes, level = c01Bounds(a)
		a.NShards = 1
	}
	buf := buffer.New()
	nontrivial := int64(0)
	total := forEachTree(a, maxNodes, level, true, func(idx int64, c treeCase) {
		if a.Replay != "" && idx != want.Index {
			return
		}
		if c.Node.Size() > 1 {
			nontrivial++
		}
		for rt := specio.Route(0); rt < specio.NRoutes; rt++ {
			if a.Replay != "" && rt.String() != want.Route {
				continue
			}
			r.Evaluations++
			var b []byte
			var err error
			p, stack := vlib.Catch(func() {
				buf.Reset()
				b, err = specio.Build(c.Node, rt, buf)
			})
			rep := c01replay{c.Name, idx, rt.String(), c.Node.String(), a.Tier}
			if p != nil {
				r.Violate(fmt.Sprintf("panic in writer route=%s: %v", rt, p), fmt.Sprintf("%s tree=%s\n%s", c.Name, c.Node, stack), rep)
				continue
			}
			if err != nil {
				r.Violate(fmt.Sprintf("build error route=%s: %s", rt, sigOf(err)), fmt.Sprintf("%s tree=%s: valid program failed: %v", c.Name, c.Node, err), rep)
				continue
			}
			var cerr error
			p, stack = vlib.Catch(func() { cerr = specio.CheckRoot(b, c.Node) })
			if p != nil {
				r.Violate(fmt.Sprintf("panic in reader route=%s: %v", rt, p), fmt.Sprintf("%s tree=%s bytes=%s\n%s", c.Name, c.Node, vlib.Hex(clip(b, 64)), stack), rep)
				continue
			}
			if cerr != nil {
				r.Violate(fmt.Sprintf("round trip route=%s: %s", rt, sigOf(cerr)), fmt.Sprintf("%s tree=%s bytes(tail)=%s: %v", c.Name, c.Node, vlib.Hex(clip(b, 64)), cerr), rep)
				continue
			}
			if a.Replay != "" {
				fmt.Printf("replay: %s route=%s tree=%s -> OK (%d bytes)\n", c.Name, rt, c.Node, len(b))
			}
		}
		if idx%5003 == 1 || (len(c.Name) > 1 && c.Name[0] == 'F' && idx%97 == 0) {
			r.Sample(16, map[string]any{"case": c.Name, "tree": c.Node.String()})
		}
	})
	r.Distinct = nontrivial
	r.Bounds["max_nodes"] = maxNodes
	r.Bounds["leaf_alphabet"] = len(tree.Leaves(level))
	r.Bounds["tags"] = tree.TagAlphabet
	r.Bounds["routes"] = int(specio.NRoutes)
	r.Bounds["space_total_trees"] = total
	r.Rule = fmt.Sprintf("every value tree with <=%d nodes (leaves from a %d-value boundary alphabet over all 15 scalar kinds; list/message/struct containers; messages with every ordered selection of distinct tags from %v = every write order) plus parametric families F1-F8 (F8: a 16 MiB filler pushing later offsets across 2^24; element/field counts 0..60 and 250..260, tag bases, filler sizes 65500..65560 across the 64K offset boundary, nesting depth 1..20, big/small switch per reason, varint size edges), each built through %d construction routes (pooled, explicit+Free, buffer, raw Any, Copy/Merge, generic typed) and read back through every accessor incl. absent-tag probes; distinct by construction, non-trivial = more than one node", maxNodes, len(tree.Leaves(level)), tree.TagAlphabet, int(specio.NRoutes))
	r.Write(a)
}

// sigOf strips case-specific numbers from an error so that one defect has one signature.
func sigOf(err error) string {
	s := err.Error()
	out := make([]byte, 0, len(s))
	lastDigit := false
	for i := 0; i < len(s); i++ {
		c := s[i]
		if c >= '0' && c <= '9' {
			if !lastDigit {
				out = append(out, '#')
			}
			lastDigit = true
			continue
		}
		lastDigit = false
		out = append(out, c)
	}
	if len(out) > 160 {
		out = out[:160]
	}
	return string(out)
}
