package main

import (
	"fmt"
	"strings"
	"testing"

	"github.com/basecomplextech/baselibrary/buffer"
	"github.com/basecomplextech/spec"
	"github.com/basecomplextech/spec/zzverif/seqmc/c17gen"
	"github.com/basecomplextech/spec/zzverif/seqmc/vlib"
)

// C17 through GENERATED code: package c17gen is produced at build time by the repository's own `spec generate` from
// seqmc/gen/c17gen/c17gen.spec (lib/vcheck.py build_seqmc) and injected by the overlay, so the measured readers and
// writers are what the current tree's generator emits: accessors, typed list readers and writers, struct decoders,
// nested writers, CopyX / list Copy / Merge.  Each group of calls is measured by itself so that a violation names the
// call; every (group, list length n, string length) combination of the small grid below is measured.

var (
	sinkI   int64
	sinkF   float64
	sinkStr spec.String
	sinkP   c17gen.P
	sinkQ   c17gen.Q
	sinkE   c17gen.E
	sinkGo  string
)

type c17genShape struct {
	n    int // list lengths
	slen int // string lengths
	big  bool
}

func (s c17genShape) String() string { return fmt.Sprintf("n=%d,slen=%d,big=%v", s.n, s.slen, s.big) }

type c17genInput struct {
	str  string
	strs []string
	bs   []byte
}

func c17genMake(s c17genShape) *c17genInput {
	in := &c17genInput{str: strings.Repeat("s", s.slen), bs: []byte(strings.Repeat("b", s.slen))}
	for i := 0; i < s.n; i++ {
		in.strs = append(in.strs, strings.Repeat("e", s.slen))
	}
	return in
}

var c17genErr error

// c17genWrite writes one complete message into buf with the generated writers.
func c17genWrite(buf buffer.Buffer, s c17genShape, in *c17genInput) []byte {
	buf.Reset()
	w := c17gen.NewMWriterBuffer(buf)
	w.B(true)
	w.I(-77)
	w.F(1.5)
	w.S(in.str)
	w.Bs(in.bs)
	w.E(c17gen.E_One)
	w.P(c17gen.P{X: 3, Y: -4})
	w.Q(c17gen.Q{N: 5, S: in.str})
	sub := w.Sub()
	sub.Id(9)
	sub.Name(in.str)
	if err := sub.End(); err != nil {
		c17genErr = err
	}
	ints := w.Ints()
	for i := 0; i < s.n; i++ {
		ints.Add(int64(i) << 20)
	}
	ints.End()
	strs := w.Strs()
	for i := 0; i < s.n; i++ {
		strs.Add(in.strs[i])
	}
	strs.End()
	subs := w.Subs()
	for i := 0; i < s.n; i++ {
		e := subs.Add()
		e.Id(int32(i))
		e.Name(in.strs[i])
		e.End()
	}
	subs.End()
	ps := w.Ps()
	for i := 0; i < s.n; i++ {
		ps.Add(c17gen.P{X: int32(i), Y: int64(i) << 33})
	}
	ps.End()
	qs := w.Qs()
	for i := 0; i < s.n; i++ {
		qs.Add(c17gen.Q{N: int32(i), S: in.strs[i]})
	}
	qs.End()
	if s.big {
		w.Big(in.str)
	}
	m, err := w.Build()
	if err != nil {
		c17genErr = err
		return nil
	}
	return m.Unwrap().Raw()
}

// read groups: each returns nothing and stores into sinks.
var c17genReads = []struct {
	name string
	fn   func(b []byte)
}{
	{"ParseM + scalar, enum and P struct accessors", func(b []byte) {
		m, _, err := c17gen.ParseM(b)
		if err != nil {
			c17genErr = err
		}
		if m.B() && m.HasI() {
			sinkI += m.I()
		}
		sinkF += m.F()
		sinkE = m.E()
		sinkP = m.P()
	}},
	{"OpenM + string and bytes accessors", func(b []byte) {
		m := c17gen.OpenM(b)
		sinkStr = m.S()
		sinkB = m.Bs()
		sinkStr = m.Big()
	}},
	{"struct Q{int32,string} field", func(b []byte) {
		m := c17gen.OpenM(b)
		sinkQ = m.Q()
	}},
	{"nested message accessors", func(b []byte) {
		m := c17gen.OpenM(b)
		s := m.Sub()
		sinkI += int64(s.Id())
		sinkStr = s.Name()
	}},
	{"ValueList[int64]", func(b []byte) {
		l := c17gen.OpenM(b).Ints()
		for i, n := 0, l.Len(); i < n; i++ {
			sinkI += l.Get(i)
		}
	}},
	{"ValueList[String]", func(b []byte) {
		l := c17gen.OpenM(b).Strs()
		for i, n := 0, l.Len(); i < n; i++ {
			sinkStr = l.Get(i)
		}
	}},
	{"MessageList[Sub]", func(b []byte) {
		l := c17gen.OpenM(b).Subs()
		for i, n := 0, l.Len(); i < n; i++ {
			e := l.Get(i)
			sinkI += int64(e.Id())
			sinkStr = e.Name()
		}
	}},
	{"ValueList[P]", func(b []byte) {
		l := c17gen.OpenM(b).Ps()
		for i, n := 0, l.Len(); i < n; i++ {
			sinkP = l.Get(i)
		}
	}},
	{"ValueList[Q] (struct with a string field)", func(b []byte) {
		l := c17gen.OpenM(b).Qs()
		for i, n := 0, l.Len(); i < n; i++ {
			sinkQ = l.Get(i)
		}
	}},
}

// write groups that start from an existing message src (copy routes).
var c17genCopies = []struct {
	name string
	fn   func(buf buffer.Buffer, src c17gen.M)
}{
	{"CopySub", func(buf buffer.Buffer, src c17gen.M) {
		buf.Reset()
		w := c17gen.NewMWriterBuffer(buf)
		w.I(1)
		if err := w.CopySub(src.Sub()); err != nil {
			c17genErr = err
		}
		if _, err := w.Build(); err != nil {
			c17genErr = err
		}
	}},
	{"MessageListWriter.Copy", func(buf buffer.Buffer, src c17gen.M) {
		buf.Reset()
		w := c17gen.NewMWriterBuffer(buf)
		subs := w.Subs()
		l := src.Subs()
		for i, n := 0, l.Len(); i < n; i++ {
			if err := subs.Copy(l.Get(i)); err != nil {
				c17genErr = err
			}
		}
		subs.End()
		if _, err := w.Build(); err != nil {
			c17genErr = err
		}
	}},
	{"Merge", func(buf buffer.Buffer, src c17gen.M) {
		buf.Reset()
		w := c17gen.NewMWriterBuffer(buf)
		if err := w.Merge(src); err != nil {
			c17genErr = err
		}
		if _, err := w.Build(); err != nil {
			c17genErr = err
		}
	}},
}

func c17genShapes(thorough bool) []c17genShape {
	var out []c17genShape
	ns := []int{0, 1, 3, 49}
	sl := []int{0, 1, 40}
	if thorough {
		ns = []int{0, 1, 2, 3, 47, 48, 49, 255, 256, 300}
		sl = []int{0, 1, 40, 300, 70000}
	}
	for _, n := range ns {
		for _, s := range sl {
			for _, big := range []bool{false, true} {
				if n*s > 2_000_000 {
					continue
				}
				out = append(out, c17genShape{n, s, big})
			}
		}
	}
	return out
}

// c17genFamily measures every group for every shape; only (group) goes into the signature.
func c17genFamily(a *vlib.Args, r *vlib.Result, runs int, only string) {
	buf := buffer.New()
	buf2 := buffer.New()
	for _, s := range c17genShapes(a.Thorough()) {
		in := c17genMake(s)
		rep := func(group string) c17replay {
			return c17replay{Name: "gen", Tier: a.Tier, Mode: "gen:" + group + ":" + s.String()}
		}
		skip := func(group string) bool { return only != "" && only != "gen:"+group+":"+s.String() }

		// steady-state writing with the generated writers
		if !skip("write") {
			r.Evaluations++
			c17genErr = nil
			wfn := func() { c17genWrite(buf, s, in) }
			for i := 0; i < 3; i++ {
				wfn()
			}
			if c17genErr != nil {
				r.Violate("write harness: generated writer failed", fmt.Sprintf("%s: %v", s, c17genErr), rep("write"))
			} else if n := testing.AllocsPerRun(runs, wfn); n != 0 {
				r.Violate("steady-state writing allocates (generated code): complete message through the generated writers",
					fmt.Sprintf("%s: %.1f allocs per message", s, n), rep("write"))
			}
			if only != "" {
				fmt.Printf("replay: gen write %s allocs=%v\n", s, testing.AllocsPerRun(runs, wfn))
			}
		}
		enc := append([]byte(nil), c17genWrite(buf, s, in)...)
		src := c17gen.OpenM(enc)

		for _, g := range c17genReads {
			if skip("read " + g.name) {
				continue
			}
			r.Evaluations++
			c17genErr = nil
			fn := func() { g.fn(enc) }
			fn()
			if c17genErr != nil {
				r.Violate("read harness: generated reader failed", fmt.Sprintf("%s %s: %v", g.name, s, c17genErr), rep("read "+g.name))
			} else if n := testing.AllocsPerRun(runs, fn); n != 0 {
				r.Violate("reading allocates (generated code): "+g.name, fmt.Sprintf("%s: %.1f allocs per read", s, n), rep("read "+g.name))
			}
			if only != "" {
				fmt.Printf("replay: gen read %q %s allocs=%v\n", g.name, s, testing.AllocsPerRun(runs, fn))
			}
		}
		for _, g := range c17genCopies {
			if skip("copy " + g.name) {
				continue
			}
			r.Evaluations++
			c17genErr = nil
			fn := func() { g.fn(buf2, src) }
			for i := 0; i < 3; i++ {
				fn()
			}
			if c17genErr != nil {
				r.Violate("write harness: generated copy route failed", fmt.Sprintf("%s %s: %v", g.name, s, c17genErr), rep("copy "+g.name))
			} else if n := testing.AllocsPerRun(runs, fn); n != 0 {
				r.Violate("steady-state writing allocates (generated code): "+g.name, fmt.Sprintf("%s: %.1f allocs per message", s, n), rep("copy "+g.name))
			}
			if only != "" {
				fmt.Printf("replay: gen copy %q %s allocs=%v\n", g.name, s, testing.AllocsPerRun(runs, fn))
			}
		}
	}
}
