package main

import (
	"fmt"

	"github.com/basecomplextech/spec"
)

// surface: the complete public read surface applied to one input. Every call must return normally; every
// reported size must satisfy 0<=n<=len(input); every returned slice/string must lie inside the input.

type surf struct {
	in    []byte
	fails []surfFail
	depth int
	calls int64
}

type surfFail struct {
	Entry string
	What  string
}

func (s *surf) bad(entry, what string) {
	if len(s.fails) < 8 {
		s.fails = append(s.fails, surfFail{entry, what})
	}
}

func (s *surf) call(entry string, f func()) {
	s.calls++
	defer func() {
		if e := recover(); e != nil {
			s.bad(entry, "panic: "+panicClass(e))
		}
	}()
	f()
}

func panicClass(e any) string {
	msg := fmt.Sprint(e)
	return sigOf(fmt.Errorf("%s", msg))
}

func (s *surf) size(entry string, n int, b []byte) {
	if n < 0 || n > len(b) {
		s.bad(entry, fmt.Sprintf("size out of range: n=%d len(input)=%d", n, len(b)))
	}
}

func (s *surf) within(entry string, out []byte) {
	if !insideB(s.in, out) {
		s.bad(entry, "returned bytes outside the input")
	}
}

var probeTags = []uint16{0, 1, 2, 255, 256, 65535}

// genStruct mirrors the Decode method the generator emits for `struct { a int32; b string }`
// (internal/lang/generator/struct.go decode_method); hand copy of the template's slicing logic.
func genStructDecode(b []byte) (a int32, str string, size int, err error) {
	dataSize, size, err := spec.DecodeStruct(b)
	if err != nil || size == 0 {
		return
	}
	b = b[len(b)-size:]
	n := size - dataSize
	off := len(b) - n
	str, n, err = spec.DecodeStringClone(b[:off])
	if err != nil {
		return
	}
	off -= n
	a, n, err = spec.DecodeInt32(b[:off])
	if err != nil {
		return
	}
	off -= n
	return a, str, size, err
}

func (s *surf) all(b []byte) {
	s.in = b
	s.call("DecodeType", func() { _, n, _ := spec.DecodeType(b); s.size("DecodeType", n, b) })
	s.call("DecodeTypeSize", func() {
		_, n, err := spec.DecodeTypeSize(b)
		s.size("DecodeTypeSize", n, b) // also when an error is returned
		if err == nil {
		}
	})
	s.call("DecodeBool", func() { _, n, _ := spec.DecodeBool(b); s.size("DecodeBool", n, b) })
	s.call("DecodeByte", func() { _, n, _ := spec.DecodeByte(b); s.size("DecodeByte", n, b) })
	s.call("DecodeInt16", func() { _, n, _ := spec.DecodeInt16(b); s.size("DecodeInt16", n, b) })
	s.call("DecodeInt32", func() { _, n, _ := spec.DecodeInt32(b); s.size("DecodeInt32", n, b) })
	s.call("DecodeInt64", func() { _, n, _ := spec.DecodeInt64(b); s.size("DecodeInt64", n, b) })
	s.call("DecodeUint16", func() { _, n, _ := spec.DecodeUint16(b); s.size("DecodeUint16", n, b) })
	s.call("DecodeUint32", func() { _, n, _ := spec.DecodeUint32(b); s.size("DecodeUint32", n, b) })
	s.call("DecodeUint64", func() { _, n, _ := spec.DecodeUint64(b); s.size("DecodeUint64", n, b) })
	s.call("DecodeFloat32", func() { _, n, _ := spec.DecodeFloat32(b); s.size("DecodeFloat32", n, b) })
	s.call("DecodeFloat64", func() {
		_, n, err := spec.DecodeFloat64(b)
		s.size("DecodeFloat64", n, b) // also when an error is returned
		if err == nil {
		}
	})
	s.call("DecodeBin64", func() { _, n, _ := spec.DecodeBin64(b); s.size("DecodeBin64", n, b) })
	s.call("DecodeBin128", func() { _, n, _ := spec.DecodeBin128(b); s.size("DecodeBin128", n, b) })
	s.call("DecodeBin256", func() { _, n, _ := spec.DecodeBin256(b); s.size("DecodeBin256", n, b) })
	s.call("DecodeBytes", func() {
		v, n, err := spec.DecodeBytes(b)
		s.size("DecodeBytes", n, b) // also when an error is returned
		if err == nil {
			s.within("DecodeBytes", v)
		}
	})
	s.call("DecodeString", func() {
		v, n, err := spec.DecodeString(b)
		s.size("DecodeString", n, b) // also when an error is returned
		if err == nil {
			if !insideS(b, string(v)) {
				s.bad("DecodeString", "returned string outside the input")
			}
		}
	})
	s.call("DecodeStringClone", func() {
		_, n, err := spec.DecodeStringClone(b)
		s.size("DecodeStringClone", n, b) // also when an error is returned
		if err == nil {
		}
	})
	s.call("DecodeStruct", func() {
		ds, n, err := spec.DecodeStruct(b)
		s.size("DecodeStruct", n, b) // also when an error is returned
		if err == nil {
			if ds < 0 || ds > n {
				s.bad("DecodeStruct", fmt.Sprintf("dataSize=%d size=%d", ds, n))
			}
		}
	})
	s.call("generated struct Decode", func() {
		_, _, n, err := genStructDecode(b)
		s.size("generated struct Decode", n, b) // also when an error is returned
		if err == nil {
		}
	})
	s.call("DecodeListTable", func() {
		t, n, err := spec.DecodeListTable(b)
		s.size("DecodeListTable", n, b) // also when an error is returned
		if err == nil {
			for i := -1; i <= t.Len(); i++ {
				t.Offset(i)
			}
			t.Elements()
			t.DataSize()
		}
	})
	s.call("DecodeMessageTable", func() {
		t, n, err := spec.DecodeMessageTable(b)
		s.size("DecodeMessageTable", n, b) // also when an error is returned
		if err == nil {
			for i := -1; i <= t.Len(); i++ {
				t.OffsetByIndex(i)
				t.Field(i)
			}
			for _, tag := range probeTags {
				t.Offset(tag)
			}
			t.Fields()
		}
	})
	s.call("ParseValue", func() {
		v, n, err := spec.ParseValue(b)
		s.size("ParseValue", n, b) // also when an error is returned
		if err == nil {
			s.within("ParseValue", v)
			if len(v) != n {
				s.bad("ParseValue", fmt.Sprintf("value has %d bytes but n=%d", len(v), n))
			}
		}
	})
	s.call("ParseList", func() {
		l, n, err := spec.ParseList(b)
		s.size("ParseList", n, b) // also when an error is returned
		if err == nil {
			s.list("ParseList", l, 0)
		}
	})
	s.call("ParseMessage", func() {
		m, n, err := spec.ParseMessage(b)
		s.size("ParseMessage", n, b) // also when an error is returned
		if err == nil {
			s.message("ParseMessage", m, 0)
		}
	})
	s.call("OpenValue", func() { v := spec.OpenValue(b); s.within("OpenValue", v); s.value("OpenValue", v, 0) })
	s.call("OpenValueErr", func() {
		v, err := spec.OpenValueErr(b)
		if err == nil {
			s.within("OpenValueErr", v)
		}
	})
	s.call("OpenList", func() { s.list("OpenList", spec.OpenList(b), 0) })
	s.call("OpenListErr", func() {
		l, err := spec.OpenListErr(b)
		if err == nil {
			s.list("OpenListErr", l, 0)
		}
	})
	s.call("OpenMessage", func() { s.message("OpenMessage", spec.OpenMessage(b), 0) })
	s.call("OpenMessageErr", func() {
		m, err := spec.OpenMessageErr(b)
		if err == nil {
			s.message("OpenMessageErr", m, 0)
		}
	})
	// raw value accessors applied to the unvalidated input itself (Value is just []byte)
	s.call("Value(raw)", func() { s.value("Value(raw)", spec.Value(b), 0) })
	// typed list wrappers
	s.call("ParseValueList[int32]", func() {
		l, n, err := spec.ParseValueList(b, spec.DecodeInt32)
		s.size("ParseValueList", n, b) // also when an error is returned
		if err == nil {
			for i := 0; i < l.Len(); i++ {
				l.Get(i)
				l.GetErr(i)
				s.within("ValueList.GetBytes", l.GetBytes(i))
			}
			l.Values()
		}
	})
	s.call("OpenValueList[string]", func() {
		l := spec.OpenValueList(b, spec.DecodeString)
		for i := 0; i < l.Len(); i++ {
			v, err := l.GetErr(i)
			if err == nil && !insideS(b, string(v)) {
				s.bad("ValueList[string].Get", "returned string outside the input")
			}
		}
		l.Values()
	})
	s.call("ParseMessageList", func() {
		l, n, err := spec.ParseMessageList(b, spec.OpenMessageErr)
		s.size("ParseMessageList", n, b) // also when an error is returned
		if err == nil {
			for i := 0; i < l.Len(); i++ {
				m, err := l.GetErr(i)
				if err == nil {
					s.message("MessageList.Get", m, 1)
				}
				l.Get(i)
				s.within("MessageList.GetBytes", l.GetBytes(i))
			}
			l.Values()
		}
	})
	s.call("OpenMessageList", func() {
		l := spec.OpenMessageList(b, spec.OpenMessageErr)
		for i := 0; i < l.Len(); i++ {
			l.Get(i)
		}
	})
}

const maxWalkDepth = 2

func (s *surf) value(entry string, v spec.Value, depth int) {
	e := entry + ">Value"
	s.call(e+".scalars", func() {
		v.Type()
		v.Bool()
		v.BoolErr()
		v.Byte()
		v.ByteErr()
		v.Int16()
		v.Int16Err()
		v.Int32()
		v.Int32Err()
		v.Int64()
		v.Int64Err()
		v.Uint16()
		v.Uint16Err()
		v.Uint32()
		v.Uint32Err()
		v.Uint64()
		v.Uint64Err()
		v.Float32()
		v.Float32Err()
		v.Float64()
		v.Float64Err()
		v.Bin64()
		v.Bin64Err()
		v.Bin128()
		v.Bin128Err()
		v.Bin256()
		v.Bin256Err()
	})
	s.call(e+".Bytes", func() {
		s.within(e+".Bytes", v.Bytes())
		if p, err := v.BytesErr(); err == nil {
			s.within(e+".BytesErr", p)
		}
	})
	s.call(e+".String", func() {
		if !insideS(s.in, string(v.String())) {
			s.bad(e+".String", "returned string outside the input")
		}
		v.StringErr()
	})
	if depth >= maxWalkDepth {
		return
	}
	s.call(e+".List", func() {
		s.list(e+".List", v.List(), depth+1)
		v.ListErr()
	})
	s.call(e+".Message", func() {
		s.message(e+".Message", v.Message(), depth+1)
		v.MessageErr()
	})
}

func (s *surf) list(entry string, l spec.List, depth int) {
	e := entry + ">List"
	s.call(e, func() {
		n := l.Len()
		l.Empty()
		s.within(e+".Raw", l.Raw())
		if n > 64 {
			n = 64
		}
		for i := 0; i < n; i++ {
			var ev spec.Value
			s.call(e+".Get", func() { ev = l.Get(i); s.within(e+".Get", ev) })
			s.call(e+".GetBytes", func() { s.within(e+".GetBytes", l.GetBytes(i)) })
			if depth < maxWalkDepth && len(ev) > 0 {
				s.value(e+".Get", ev, depth+1)
			}
		}
		s.call(e+".Clone", func() { l.Clone(); l.CloneTo(nil) })
	})
}

func (s *surf) message(entry string, m spec.Message, depth int) {
	e := entry + ">Message"
	s.call(e, func() {
		n := m.Fields()
		m.Empty()
		m.Len()
		s.within(e+".Raw", m.Raw())
		tags := append([]uint16{}, probeTags...)
		if n > 64 {
			n = 64
		}
		for i := -1; i <= n; i++ {
			s.call(e+".TagAt/FieldAt", func() {
				if t, ok := m.TagAt(i); ok {
					tags = append(tags, t)
				}
				s.within(e+".FieldAt", m.FieldAt(i))
			})
		}
		for _, t := range tags {
			var fv spec.Value
			s.call(e+".Field", func() {
				m.HasField(t)
				fv = m.Field(t)
				s.within(e+".Field", fv)
				s.within(e+".FieldRaw", m.FieldRaw(t))
			})
			s.call(e+".typed", func() {
				m.Bool(t)
				m.BoolErr(t)
				m.Byte(t)
				m.ByteErr(t)
				m.Int16(t)
				m.Int16Err(t)
				m.Int32(t)
				m.Int32Err(t)
				m.Int64(t)
				m.Int64Err(t)
				m.Uint16(t)
				m.Uint16Err(t)
				m.Uint32(t)
				m.Uint32Err(t)
				m.Uint64(t)
				m.Uint64Err(t)
				m.Float32(t)
				m.Float32Err(t)
				m.Float64(t)
				m.Float64Err(t)
				m.Bin64(t)
				m.Bin64Err(t)
				m.Bin128(t)
				m.Bin128Err(t)
				m.Bin256(t)
				m.Bin256Err(t)
				s.within(e+".Bytes(tag)", m.Bytes(t))
				m.BytesErr(t)
				if !insideS(s.in, string(m.String(t))) {
					s.bad(e+".String(tag)", "returned string outside the input")
				}
				m.StringErr(t)
				m.ListErr(t)
				m.MessageErr(t)
			})
			if depth < maxWalkDepth && len(fv) > 0 {
				s.value(e+".Field", fv, depth+1)
			}
		}
		s.call(e+".Clone", func() { m.Clone(); m.CloneTo(nil) })
	})
}
