package main

import (
	"fmt"

	"github.com/basecomplextech/spec/zzverif/seqmc/tree"
	"github.com/basecomplextech/spec/zzverif/seqmc/vlib"
)

// treeCase is one member of the bounded value-tree space shared by C01/C08/C17.
type treeCase struct {
	Name string
	Node *tree.Node
}

// forEachTree enumerates (deterministically) the bounded-exhaustive tree space and the parametric families.
// maxNodes: trees with 1..maxNodes nodes. level: leaf alphabet level. f gets a global case index.
func forEachTree(a *vlib.Args, maxNodes, level int, families bool, f func(idx int64, c treeCase)) (total int64) {
	var idx int64
	leaves := tree.Leaves(level)
	for n := 1; n <= maxNodes; n++ {
		lv := leaves
		if n >= 4 {
			lv = tree.Leaves(0) // 4-node trees always use the small alphabet
		}
		tree.Trees(n, lv, tree.TagAlphabet, func(t *tree.Node) bool {
			idx++
			if a.Mine(idx) {
				f(idx, treeCase{fmt.Sprintf("tree%d#%d", n, idx), t})
			}
			return true
		})
	}
	if families {
		familyCases(func(c treeCase) {
			idx++
			if a.Mine(idx) {
				f(idx, c)
			}
		})
	}
	if families && bigOffsetFamily {
		bigOffsetCases(func(c treeCase) {
			idx++
			if a.Mine(idx) {
				f(idx, c)
			}
		})
	}
	return idx
}

// bigOffsetFamily adds family F8 (C01 only: each case is a 16 MiB build).
var bigOffsetFamily bool

// F8: a filler payload that pushes the following offsets across 2^24, the third byte boundary of the 32-bit offsets of
// the big table form (a message larger than the default mpx window travels as one such value).
func bigOffsetCases(f func(treeCase)) {
	for _, s := range []int{1<<24 - 3, 1<<24 + 2} {
		fill := tree.B(tree.Bytes, tree.Fill(s, -1))
		tail := tree.I(tree.Int32, -77)
		f(treeCase{fmt.Sprintf("F8 list filler=%d", s), tree.L(fill, tail, tree.B(tree.String, []byte("end")))})
		f(treeCase{fmt.Sprintf("F8 message filler=%d asc", s), tree.M(tree.Fd(1, fill), tree.Fd(2, tail), tree.Fd(300, tree.B(tree.String, []byte("end"))))})
		f(treeCase{fmt.Sprintf("F8 message filler=%d desc", s), tree.M(tree.Fd(2, fill), tree.Fd(1, tail))})
	}
}

func altLeaf(i int) *tree.Node {
	ls := tree.OneLeafPerKind()
	return ls[i%len(ls)]
}

func familyCases(f func(treeCase)) {
	var counts []int
	for n := 0; n <= 60; n++ {
		counts = append(counts, n)
	}
	for n := 250; n <= 260; n++ {
		counts = append(counts, n)
	}
	// F1: lists of n elements: identical small / alternating kinds / nested empties
	for _, n := range counts {
		el := make([]*tree.Node, n)
		for i := range el {
			el[i] = tree.U(tree.Bool, 1)
		}
		f(treeCase{fmt.Sprintf("F1 list n=%d identical bool", n), tree.L(el...)})
		el2 := make([]*tree.Node, n)
		for i := range el2 {
			el2[i] = altLeaf(i)
		}
		f(treeCase{fmt.Sprintf("F1 list n=%d alternating kinds", n), tree.L(el2...)})
		el3 := make([]*tree.Node, n)
		for i := range el3 {
			if i%2 == 0 {
				el3[i] = tree.L()
			} else {
				el3[i] = tree.M(tree.Fd(uint16(i), tree.I(tree.Int32, int64(i))))
			}
		}
		f(treeCase{fmt.Sprintf("F1 list n=%d containers", n), tree.L(el3...)})
	}
	// F2: messages with n fields, tag bases, three write orders
	for _, base := range []int{1, 200, 250, 65500} {
		for _, n := range counts {
			if base+n-1 > 65535 {
				continue
			}
			if n > 60 && base != 1 {
				continue
			}
			for order := 0; order < 3; order++ {
				fs := make([]tree.Field, n)
				for i := 0; i < n; i++ {
					j := i
					switch order {
					case 1:
						j = n - 1 - i
					case 2: // interleave from both ends
						if i%2 == 0 {
							j = i / 2
						} else {
							j = n - 1 - i/2
						}
					}
					fs[i] = tree.Fd(uint16(base+j), tree.I(tree.Int32, int64(base+j)))
				}
				f(treeCase{fmt.Sprintf("F2 message n=%d base=%d order=%d", n, base, order), tree.M(fs...)})
			}
		}
	}
	// F3: filler payload straddling the 65535/65536 offset boundary, for lists and messages (both tag orders)
	for s := 65500; s <= 65560; s++ {
		fill := tree.B(tree.Bytes, tree.Fill(s, -1))
		tail := tree.I(tree.Int32, -77)
		f(treeCase{fmt.Sprintf("F3 list filler=%d", s), tree.L(fill, tail)})
		f(treeCase{fmt.Sprintf("F3 message filler=%d asc", s), tree.M(tree.Fd(1, fill), tree.Fd(2, tail))})
		f(treeCase{fmt.Sprintf("F3 message filler=%d desc", s), tree.M(tree.Fd(2, fill), tree.Fd(1, tail))})
		if s%10 == 0 {
			f(treeCase{fmt.Sprintf("F3 string filler=%d in nested", s), tree.M(tree.Fd(7, tree.L(tree.B(tree.String, tree.Fill(s, 0x61)), tree.U(tree.Bool, 0))), tree.Fd(3, tree.U(tree.Byte, 9)))})
		}
	}
	// F4: nesting depth 1..20
	for d := 1; d <= 20; d++ {
		var ll, mm, alt *tree.Node = tree.I(tree.Int16, int64(d)), tree.I(tree.Int16, int64(d)), tree.I(tree.Int16, int64(d))
		for i := 0; i < d; i++ {
			ll = tree.L(ll)
			mm = tree.M(tree.Fd(uint16(i+1), mm))
			if i%2 == 0 {
				alt = tree.L(tree.U(tree.Bool, 1), alt)
			} else {
				alt = tree.M(tree.Fd(300, tree.B(tree.String, []byte("x"))), tree.Fd(1, alt))
			}
		}
		f(treeCase{fmt.Sprintf("F4 list depth=%d", d), ll})
		f(treeCase{fmt.Sprintf("F4 message depth=%d", d), mm})
		f(treeCase{fmt.Sprintf("F4 alternating depth=%d", d), alt})
	}
	// F5: big/small switch for each reason independently, with both neighbours
	for _, tag := range []uint16{254, 255, 256, 257} {
		f(treeCase{fmt.Sprintf("F5 message single tag=%d", tag), tree.M(tree.Fd(tag, tree.U(tree.Uint16, 0xfd)))})
		f(treeCase{fmt.Sprintf("F5 message tags 1,%d", tag), tree.M(tree.Fd(tag, tree.U(tree.Uint16, 0xfd)), tree.Fd(1, tree.B(tree.String, []byte("a"))))})
	}
	for _, n := range []int{254, 255, 256, 257, 300} {
		el := make([]*tree.Node, n)
		for i := range el {
			el[i] = tree.U(tree.Byte, uint64(i))
		}
		f(treeCase{fmt.Sprintf("F5 list count=%d", n), tree.L(el...)})
		fs := make([]tree.Field, n)
		for i := range fs {
			fs[i] = tree.Fd(uint16(n-i), tree.U(tree.Byte, uint64(i)))
		}
		f(treeCase{fmt.Sprintf("F5 message fields=%d desc", n), tree.M(fs...)})
	}
	// F6: varint width boundaries of payload sizes inside containers
	for _, s := range []int{0xfb, 0xfc, 0xfd, 0xfe, 0xff, 0x100, 0xfffe, 0xffff, 0x10000, 0x10001} {
		f(treeCase{fmt.Sprintf("F6 bytes size=%d in message", s), tree.M(tree.Fd(5, tree.B(tree.Bytes, tree.Fill(s, 0xfd))), tree.Fd(4, tree.B(tree.String, tree.Fill(s, 0xfe))))})
		f(treeCase{fmt.Sprintf("F6 string size=%d in list", s), tree.L(tree.B(tree.String, tree.Fill(s, 0)), tree.B(tree.Bytes, tree.Fill(s, 0xff)))})
		f(treeCase{fmt.Sprintf("F6 struct with bytes size=%d", s), tree.L(tree.S(tree.B(tree.Bytes, tree.Fill(s, 1)), tree.I(tree.Int64, -5)))})
	}
	// F7: a nested message (as a field, as a list element, two levels deep) opened AFTER its ancestors wrote
	// fields: all open messages share one field stack, so every lookup in the nested table (HasField, Copy,
	// Merge) depends on the table offset. Tag sets of parent and child are aligned, shifted and overlapping.
	val := func(level int, tag uint16) *tree.Node { return tree.I(tree.Int32, int64(level*1000+int(tag))) }
	mk := func(level int, tags []uint16) []tree.Field {
		var fs []tree.Field
		for _, t := range tags {
			fs = append(fs, tree.Fd(t, val(level, t)))
		}
		return fs
	}
	parents := [][]uint16{{}, {1}, {7}, {1, 2}, {2, 9}, {1, 2, 3}, {5, 6, 7, 300}}
	childs := [][]uint16{{1}, {2}, {7}, {1, 2}, {2, 7, 9}, {1, 2, 3, 4}, {9, 2}}
	for pi, pt := range parents {
		for ci, ct := range childs {
			for trailing := 0; trailing <= 3; trailing += 1 + pi%2 {
				child := tree.M(mk(2, ct)...)
				var tr []tree.Field
				for k := 0; k < trailing; k++ {
					tr = append(tr, tree.Fd(uint16(60+k), val(1, uint16(60+k))))
				}
				name := fmt.Sprintf("F7 parent tags %v child tags %v trailing %d", pt, ct, trailing)
				// nested as a field
				fs := append(append(mk(1, pt), tree.Fd(50, child)), tr...)
				f(treeCase{name + " (field)", tree.M(fs...)})
				// nested as an element of a list field, after a first element
				fs = append(append(mk(1, pt), tree.Fd(50, tree.L(tree.M(mk(3, ct[:1])...), child))), tr...)
				f(treeCase{name + " (list element)", tree.M(fs...)})
				// two levels: the middle message also has fields before the innermost one
				if (pi+ci)%2 == 0 {
					mid := tree.M(append(mk(3, ct), tree.Fd(40, child), tree.Fd(41, val(3, 41)))...)
					fs = append(append(mk(1, pt), tree.Fd(50, mid)), tr...)
					f(treeCase{name + " (two levels)", tree.M(fs...)})
				}
			}
		}
	}
}
