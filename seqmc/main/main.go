// seqmc: Engine A — bounded-exhaustive sequential explorers (injected into the spec module by overlay).
package main

import (
	"fmt"
	"os"

	"github.com/basecomplextech/spec/zzverif/seqmc/vlib"
)

var checks = map[string]func(a *vlib.Args){}

func main() {
	if len(os.Args) < 2 {
		fmt.Fprintln(os.Stderr, "usage: seqmc <check> [flags]")
		os.Exit(2)
	}
	if os.Args[1] == "deepchild" {
		deepChild(os.Args[2:])
		return
	}
	if os.Args[1] == "fanchild" {
		fanChild(os.Args[2:])
		return
	}
	f, ok := checks[os.Args[1]]
	if !ok {
		fmt.Fprintln(os.Stderr, "seqmc: unknown check", os.Args[1])
		os.Exit(2)
	}
	f(vlib.ParseArgs(os.Args[2:]))
}
