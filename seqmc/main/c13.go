package main

import (
	"bytes"
	"fmt"
	"github.com/basecomplextech/spec/internal/types"
	"hash/fnv"

	"github.com/basecomplextech/spec"
	"github.com/basecomplextech/spec/zzverif/seqmc/refcodec"
	"github.com/basecomplextech/spec/zzverif/seqmc/vlib"
)

// C13 — parse, open and size probe agree; decoding is local to the value.
func init() { checks["c13"] = c13 }

type c13replay struct {
	Input  string `json:"input_hex"`
	Prefix string `json:"prefix_hex,omitempty"`
}

type c13s struct {
	r        *vlib.Result
	seen     *vlib.Distinct
	prefixes [][]byte
	accepted int64
}

func c13prefixes() [][]byte {
	ps := [][]byte{}
	for v := 0; v < 256; v++ {
		ps = append(ps, []byte{byte(v)})
	}
	for _, last := range []byte{0xfd, 0xfe, 0xff} {
		ps = append(ps, []byte{0x01, last}, []byte{0xff, last}, []byte{0, 0, 1, last}, []byte{0xff, 0xff, 0xff, last},
			[]byte{0, 0, 0, 0, 0, 0, 2, last}, []byte{0xff, 0xff, 0xff, 0xff, 0xff, 0xff, 0xff, last})
	}
	ps = append(ps, []byte{0x61, 0x00, 0x01, 60}, []byte{7, 3}, []byte{1, 0, 0, 1, 2, 70}, []byte{0x02, 0x01, 0x00, 0x01, 0x01, 0x03, 80})
	return ps
}

// fingerprint of everything decodable from the END of b (all decoders read from the end).
func fingerprint(b []byte) (fp uint64, desc string) {
	h := fnv.New64a()
	w := func(f string, a ...any) { fmt.Fprintf(h, f, a...) }
	defer func() {
		if e := recover(); e != nil {
			w("PANIC %v", e)
			fp, desc = h.Sum64(), fmt.Sprintf("panic: %v", e)
		}
	}()
	v, n, err := spec.ParseValue(b)
	w("P%d,%v,%x|", n, err != nil, []byte(v))
	t, n2, err2 := spec.DecodeTypeSize(b)
	w("S%d,%d,%v|", t, n2, err2 != nil)
	ov, err3 := spec.OpenValueErr(b)
	w("O%x,%v|", []byte(ov), err3 != nil)
	val := spec.Value(b)
	{
		x, e := val.BoolErr()
		w("b%v%v", x, e != nil)
	}
	{
		x, e := val.ByteErr()
		w("y%v%v", x, e != nil)
	}
	{
		x, e := val.Int16Err()
		w("i%v%v", x, e != nil)
		y, e := val.Int32Err()
		w("i%v%v", y, e != nil)
		z, e := val.Int64Err()
		w("i%v%v", z, e != nil)
	}
	{
		x, e := val.Uint16Err()
		w("u%v%v", x, e != nil)
		y, e := val.Uint32Err()
		w("u%v%v", y, e != nil)
		z, e := val.Uint64Err()
		w("u%v%v", z, e != nil)
	}
	{
		x, e := val.Float32Err()
		w("f%x%v", x, e != nil)
		y, e := val.Float64Err()
		w("f%x%v", y, e != nil)
	}
	{
		x, e := val.Bin64Err()
		w("B%v%v", x, e != nil)
		y, e := val.Bin128Err()
		w("B%v%v", y, e != nil)
		z, e := val.Bin256Err()
		w("B%v%v", z, e != nil)
	}
	{
		x, e := val.BytesErr()
		w("Y%x%v", []byte(x), e != nil)
		y, e := val.StringErr()
		w("S%x%v", string(y), e != nil)
	}
	{
		ds, sz, e := spec.DecodeStruct(b)
		w("T%d,%d,%v", ds, sz, e != nil)
	}
	{
		l, e := val.ListErr()
		w("L%v,%d", e != nil, l.Len())
		if e == nil {
			for i := 0; i < l.Len() && i < 32; i++ {
				w(",%x", l.GetBytes(i))
			}
		}
	}
	{
		m, e := val.MessageErr()
		w("M%v,%d", e != nil, m.Fields())
		if e == nil {
			for i := 0; i < m.Fields() && i < 32; i++ {
				tg, _ := m.TagAt(i)
				w(",%d:%x", tg, []byte(m.FieldAt(i)))
			}
		}
	}
	return h.Sum64(), ""
}

// readable re-reads every nested field/element the parser visited.
func readable(v spec.Value, depth int) error {
	t, n, err := spec.DecodeTypeSize(v)
	if err != nil || n != len(v) {
		return fmt.Errorf("nested value: probe n=%d len=%d err=%v", n, len(v), err)
	}
	if ov, err := spec.OpenValueErr(v); err != nil || len(ov) != len(v) {
		return fmt.Errorf("nested value: open len=%d want %d err=%v", len(ov), len(v), err)
	}
	var e error
	switch byte(t) {
	case 1, 2:
		_, e = v.BoolErr()
	case 3:
		_, e = v.ByteErr()
	case 10:
		_, e = v.Int16Err()
	case 11:
		_, e = v.Int32Err()
	case 12:
		_, e = v.Int64Err()
	case 20:
		_, e = v.Uint16Err()
	case 21:
		_, e = v.Uint32Err()
	case 22:
		_, e = v.Uint64Err()
	case 30:
		_, e = v.Bin64Err()
	case 31:
		_, e = v.Bin128Err()
	case 32:
		_, e = v.Bin256Err()
	case 40:
		_, e = v.Float32Err()
	case 41:
		_, e = v.Float64Err()
	case 50:
		_, e = v.BytesErr()
	case 60:
		_, e = v.StringErr()
	case 70, 71:
		l, err := v.ListErr()
		if err != nil {
			return fmt.Errorf("nested list: %v", err)
		}
		for i := 0; i < l.Len(); i++ {
			eb := l.GetBytes(i)
			if len(eb) == 0 {
				continue // the parser skips empty elements
			}
			pv, k, err := spec.ParseValue(eb)
			if err != nil {
				return fmt.Errorf("element %d not re-parsable: %v", i, err)
			}
			_ = k
			if depth < 6 {
				if err := readable(pv, depth+1); err != nil {
					return err
				}
			}
		}
	case 80, 81:
		m, err := v.MessageErr()
		if err != nil {
			return fmt.Errorf("nested message: %v", err)
		}
		for i := 0; i < m.Fields(); i++ {
			tg, _ := m.TagAt(i)
			raw := m.FieldRaw(tg)
			_ = raw
			fb := m.FieldAt(i)
			end := 0
			_ = end
			if len(fb) == 0 {
				// FieldAt opens the value. The parser validated the raw slot of EVERY table entry by index, so a
				// non-empty slot of an accepted message must open (an entry hidden behind a duplicate or unsorted
				// tag is still an entry)
				if slot := types.VFieldAtRaw(m, i); len(slot) > 0 {
					return fmt.Errorf("table entry %d (tag %d): slot of %d bytes in a parser-accepted message cannot be opened", i, tg, len(slot))
				}
				continue
			}
			if depth < 6 {
				if err := readable(fb, depth+1); err != nil {
					return fmt.Errorf("field %d: %w", tg, err)
				}
			}
		}
	}
	if e != nil {
		return fmt.Errorf("typed accessor for type %d fails on a parsed value: %v", t, e)
	}
	return nil
}

func (c *c13s) try(in []byte, origin string) {
	c.r.Evaluations++
	var v spec.Value
	var n int
	var err error
	if p, _ := vlib.Catch(func() { v, n, err = spec.ParseValue(in) }); p != nil {
		return // C02's business
	}
	if err != nil || len(in) == 0 {
		return
	}
	if !c.seen.AddBytes(in) {
		return
	}
	c.accepted++
	rep := c13replay{Input: vlib.Hex(in)}
	typ := in[len(in)-1]
	viol := func(sig, desc string) {
		c.r.Violate(fmt.Sprintf("type %d: %s", typ, sig), fmt.Sprintf("input=%s (%s) parsed n=%d: %s", vlib.Hex(clip(in, 40)), origin, n, desc), rep)
	}
	// agreement of the three delimiters
	t2, n2, err2 := spec.DecodeTypeSize(in)
	if err2 != nil || n2 != n || byte(t2) != typ {
		viol("parser accepts but the size probe disagrees", fmt.Sprintf("DecodeTypeSize -> type=%d n=%d err=%v", t2, n2, err2))
	}
	ov, err3 := spec.OpenValueErr(in)
	if err3 != nil || len(ov) != n {
		viol("parser accepts but open disagrees", fmt.Sprintf("OpenValueErr -> len=%d err=%v", len(ov), err3))
	}
	if ov2 := spec.OpenValue(in); len(ov2) != len(ov) {
		viol("OpenValue and OpenValueErr disagree", fmt.Sprintf("%d vs %d", len(ov2), len(ov)))
	}
	// re-parse of the returned value
	v2, k, err4 := spec.ParseValue(v)
	if err4 != nil || k != n || !bytes.Equal(v2, v) {
		viol("re-parsing the returned value differs", fmt.Sprintf("n=%d err=%v", k, err4))
	}
	// nested readability
	if p, _ := vlib.Catch(func() { err = readable(v, 0) }); p != nil {
		viol("panic while re-reading nested values", fmt.Sprint(p))
	} else if err != nil {
		viol("nested value not readable: "+sigOf(err), err.Error())
	}
	// locality: decode(prefix || value) == decode(value)
	base, _ := fingerprint(v)
	buf := make([]byte, 0, len(v)+16)
	for _, p := range c.prefixes {
		buf = append(append(buf[:0], p...), v...)
		// the prefixed buffer must decode to the same value: compare on the value-sized view and the whole view
		fp, _ := fingerprintLocal(buf, len(v))
		c.r.Transitions++
		if fp != base {
			rep2 := rep
			rep2.Input = vlib.Hex(v)
			rep2.Prefix = vlib.Hex(p)
			c.r.Violate(fmt.Sprintf("type %d: decoding depends on the bytes preceding the value", typ),
				fmt.Sprintf("value=%s decodes differently behind prefix %s (origin %s)", vlib.Hex(clip(v, 40)), vlib.Hex(p), origin), rep2)
			break
		}
	}
	if c.accepted%1201 == 1 {
		c.r.Sample(16, map[string]string{"accepted_input": vlib.Hex(clip(in, 32)), "origin": origin})
	}
}

// fingerprintLocal decodes prefix||value and normalises what legitimately depends on the view (nothing should).
// shadowedEntries: small and big message tables over three slots (valid, INVALID, valid) with every assignment of
// duplicate / unsorted / sorted tag triples to the slots: a lookup by tag hides one of the entries.
func shadowedEntries() [][]byte {
	var out [][]byte
	bads := [][]byte{{0xee}, {0x05, 0x3c}, {0x46}} // unknown type; string whose size exceeds its data; list type without sizes
	for _, bad := range bads {
		data := append(append([]byte{1}, bad...), 7, 3)
		ends := []int{1, 1 + len(bad), 3 + len(bad)}
		for _, tags := range [][]int{{1, 1, 2}, {1, 2, 1}, {2, 1, 1}, {1, 1, 1}, {9, 1, 2}, {3, 2, 1}, {1, 2, 3}, {2, 2, 1}} {
			for _, perm := range [][]int{{0, 1, 2}, {0, 2, 1}, {1, 0, 2}, {1, 2, 0}, {2, 0, 1}, {2, 1, 0}} {
				for _, big := range []bool{false, true} {
					var table []byte
					for k := 0; k < 3; k++ {
						tg, e := tags[k], ends[perm[k]]
						if big {
							table = append(table, byte(tg>>8), byte(tg), 0, 0, byte(e>>8), byte(e))
						} else {
							table = append(table, byte(tg), byte(e>>8), byte(e))
						}
					}
					b := append(append([]byte{}, data...), table...)
					b = append(b, byte(len(data)), byte(len(table)))
					if big {
						b = append(b, 81)
					} else {
						b = append(b, 80)
					}
					out = append(out, b)
					// nested: the same message as the only field of an outer message
					ob := append(append([]byte{}, b...), 1, byte(len(b)>>8), byte(len(b)), byte(len(b)), 3, 80)
					if len(b) <= 0xfc {
						out = append(out, ob)
					}
				}
			}
		}
	}
	return out
}

func fingerprintLocal(b []byte, vlen int) (uint64, string) {
	return fingerprint(b)
}

func c13(a *vlib.Args) {
	r := vlib.NewResult("C13", a)
	c := &c13s{r: r, seen: vlib.NewDistinct(), prefixes: c13prefixes()}
	if a.Replay != "" {
		var rp c13replay
		vlib.LoadReplay(a.Replay, &rp)
		in := vlib.UnHex(rp.Input)
		if rp.Prefix != "" {
			c.prefixes = [][]byte{vlib.UnHex(rp.Prefix)}
		}
		c.try(in, "replay")
		for _, v := range r.Violations {
			fmt.Println("replay:", v.Sig, "|", v.Desc)
		}
		if len(r.Violations) == 0 {
			fmt.Println("replay: no violation")
		}
		r.Write(a)
		return
	}
	var idx int64
	next := func() bool { idx++; return a.Mine(idx) }
	maxLen := 2
	if a.Thorough() {
		maxLen = 3
	}
	buf := make([]byte, 0, 4)
	var rec func(n int)
	rec = func(n int) {
		if next() {
			c.try(buf, "exhaustive short input")
		}
		if n == maxLen {
			return
		}
		for v := 0; v < 256; v++ {
			buf = append(buf, byte(v))
			rec(n + 1)
			buf = buf[:len(buf)-1]
		}
	}
	rec(0)
	encSeen := vlib.NewDistinct()
	mutNodes := 2
	if a.Thorough() {
		mutNodes = 3
	}
	forEachTree(&vlib.Args{NShards: 1}, 3, 0, false, func(_ int64, tc treeCase) {
		enc := refcodec.Encode(nil, tc.Node)
		if len(enc) == 0 || !encSeen.AddBytes(enc) {
			return
		}
		if len(enc) > 24 {
			// large boundary payloads (varint width edges 252/253 ...): the valid encoding itself, no mutations
			if tc.Node.Size() <= 2 && next() {
				c.try(enc, "valid encoding of "+tc.Node.String())
			}
			return
		}
		if next() {
			c.try(enc, "valid encoding of "+tc.Node.String())
			for k := 1; k < len(enc); k++ {
				c.try(enc[k:], "front-truncated "+tc.Node.String())
			}
		}
		if tc.Node.Size() > mutNodes {
			return
		}
		m := append([]byte{}, enc...)
		for pos := 0; pos < len(enc); pos++ {
			if !next() {
				continue
			}
			for v := 0; v < 256; v++ {
				if byte(v) == enc[pos] {
					continue
				}
				m[pos] = byte(v)
				c.try(m, "1-byte mutation of "+tc.Node.String())
			}
			m[pos] = enc[pos]
		}
	})
	familyCases(func(tc treeCase) {
		if tc.Name[:2] != "F6" && tc.Name[:2] != "F5" {
			return
		}
		if next() {
			c.try(refcodec.Encode(nil, tc.Node), "valid encoding of family "+tc.Name)
		}
	})
	for _, in := range tableCorruptions() {
		if next() {
			c.try(in, "table corruption")
		}
	}
	for _, in := range shadowedEntries() {
		if next() {
			c.try(in, "duplicate / unsorted tag table with an invalid entry")
		}
	}
	r.Distinct = c.accepted
	r.Bounds["short_input_max_len"] = maxLen
	r.Bounds["prefix_alphabet"] = len(c.prefixes)
	r.Outcomes["inputs accepted by the parser (distinct)"] = c.accepted
	r.Outcomes["prefix re-decodes"] = r.Transitions
	r.Transitions = 0
	r.Rule = fmt.Sprintf("inputs: ALL byte strings of length 0..%d, every distinct valid encoding of the <=3-node tree space (<=24 bytes: with every front truncation; larger boundary payloads of <=2-node trees and the F5/F6 size-edge families: as is), every single-byte mutation (x256) of encodings of <=%d-node trees, explicit table corruptions; for each input the recursive parser ACCEPTS (distinct_nontrivial counts these): probe/open/parse agreement, re-parse identity, nested re-read, and re-decoding behind each of %d prefixes (every single byte, varint-continuation look-alikes of width 2/4/8, valid encodings) compared through a fingerprint of every decoder reading from the end", maxLen, mutNodes, len(c.prefixes))
	r.Write(a)
}
