package main

import (
	"fmt"
	"os"
	"os/exec"
	"runtime/debug"
	"strconv"
	"strings"
	"time"

	"github.com/basecomplextech/spec"
)

// Deep nesting: the recursive parser has no depth limit. The input is built iteratively (a message whose only
// field is the previous message: the inner bytes followed by a trailer), the parse runs in a CHILD process because
// a stack overflow is a fatal error that no recover() can catch.

func deepInput(depth int) []byte {
	b := []byte{1} // true
	for i := 0; i < depth; i++ {
		n := len(b)
		var table []byte
		typ := byte(80)
		if n <= 0xffff {
			table = []byte{1, byte(n >> 8), byte(n)}
		} else {
			table = []byte{0, 1, byte(n >> 24), byte(n >> 16), byte(n >> 8), byte(n)}
			typ = 81
		}
		b = append(b, table...)
		b = appendRvarint(b, uint64(n))
		b = appendRvarint(b, uint64(len(table)))
		b = append(b, typ)
	}
	return b
}

func appendRvarint(b []byte, v uint64) []byte {
	switch {
	case v <= 0xfc:
		return append(b, byte(v))
	case v <= 0xffff:
		return append(b, byte(v>>8), byte(v), 0xfd)
	default:
		return append(b, byte(v>>24), byte(v>>16), byte(v>>8), byte(v), 0xfe)
	}
}

// deepChild: seqmc deepchild <depth> <maxstackMiB or 0>
func deepChild(args []string) {
	depth, _ := strconv.Atoi(args[0])
	ms, _ := strconv.Atoi(args[1])
	if ms > 0 {
		debug.SetMaxStack(ms << 20)
	}
	in := deepInput(depth)
	_, n, err := spec.ParseValue(in)
	fmt.Printf("deepchild: depth=%d bytes=%d parsed n=%d err=%v\n", depth, len(in), n, err != nil)
	m, err2 := spec.OpenMessageErr(in)
	if err2 == nil {
		// walk down through the typed accessors (no recursion in the library here)
		d := 0
		for m.Fields() == 1 && d < depth+1 {
			f := m.Field(1)
			mm, e := f.MessageErr()
			if e != nil {
				break
			}
			m = mm
			d++
		}
		fmt.Printf("deepchild: walked %d levels\n", d)
	}
}

// deepNesting runs the child and reports a crash as a violation.
func (c *c02s) deepNesting(depth, maxStackMiB int, timeout time.Duration) {
	c.r.Evaluations++
	cmd := exec.Command(os.Args[0], "deepchild", strconv.Itoa(depth), strconv.Itoa(maxStackMiB))
	done := make(chan struct{})
	var out []byte
	var err error
	go func() { out, err = cmd.CombinedOutput(); close(done) }()
	select {
	case <-done:
	case <-time.After(timeout):
		if cmd.Process != nil {
			cmd.Process.Kill()
		}
		<-done
		c.r.Bounds[fmt.Sprintf("deep_nesting_%d_timed_out", depth)] = true
		return // not decided within the time limit (reported, not a violation)
	}
	c.r.Bounds[fmt.Sprintf("deep_nesting_depth_%d", depth)] = strings.TrimSpace(firstLineOf(string(out)))
	if err == nil {
		return
	}
	stack := "the default stack limit"
	if maxStackMiB > 0 {
		stack = fmt.Sprintf("a stack limit lowered to %d MiB (debug.SetMaxStack; the default limit of 1 GiB is reached at about 1.7 million levels = 22 MB of input)", maxStackMiB)
	}
	what := "crash"
	if strings.Contains(string(out), "stack overflow") || strings.Contains(string(out), "stack exceeds") {
		what = "fatal stack overflow (cannot be recovered, kills the process)"
	}
	c.r.Violate("ParseValue: "+what+" on deeply nested input",
		fmt.Sprintf("input: a message nested %d levels deep (each level: one field holding the previous message), parsed with spec.ParseValue in a child process under %s\nchild: %v\n%s", depth, stack, err, clipS(string(out), 600)),
		c02replay{fmt.Sprintf("deep:%d:%d", depth, maxStackMiB), "end"})
}

func firstLineOf(s string) string {
	if i := strings.IndexByte(s, '\n'); i >= 0 {
		return s[:i]
	}
	return s
}
