package main

import (
	"runtime/debug"
	"syscall"
	"unsafe"
)

// guarded memory: [PROT_NONE page][data pages][PROT_NONE page]; inputs are copied flush against the end or the
// start of the data pages, so a read one byte outside the input faults; SetPanicOnFault turns the fault into a
// recoverable panic.
type guardMem struct {
	m    []byte
	data []byte
}

const pageSize = 4096

func newGuardMem(pages int) *guardMem {
	debug.SetPanicOnFault(true)
	m, err := syscall.Mmap(-1, 0, (pages+2)*pageSize, syscall.PROT_READ|syscall.PROT_WRITE, syscall.MAP_ANON|syscall.MAP_PRIVATE)
	if err != nil {
		panic(err)
	}
	if err := syscall.Mprotect(m[:pageSize], syscall.PROT_NONE); err != nil {
		panic(err)
	}
	if err := syscall.Mprotect(m[(pages+1)*pageSize:], syscall.PROT_NONE); err != nil {
		panic(err)
	}
	return &guardMem{m: m, data: m[pageSize : (pages+1)*pageSize]}
}

func (g *guardMem) fits(n int) bool { return n <= len(g.data) }

// atEnd copies b so that its last byte is the last accessible byte.
func (g *guardMem) atEnd(b []byte) []byte {
	n := len(b)
	d := g.data[len(g.data)-n : len(g.data) : len(g.data)]
	copy(d, b)
	return d
}

// atStart copies b so that its first byte is the first accessible byte.
func (g *guardMem) atStart(b []byte) []byte {
	n := len(b)
	d := g.data[0:n:n]
	copy(d, b)
	return d
}

// inside reports whether p (len n) lies inside in.
func inside(in []byte, p unsafe.Pointer, n int) bool {
	if n == 0 {
		return true
	}
	base := uintptr(unsafe.Pointer(unsafe.SliceData(in)))
	q := uintptr(p)
	return q >= base && q+uintptr(n) <= base+uintptr(len(in))
}

func insideB(in, out []byte) bool { return inside(in, unsafe.Pointer(unsafe.SliceData(out)), len(out)) }
func insideS(in []byte, s string) bool {
	return inside(in, unsafe.Pointer(unsafe.StringData(s)), len(s))
}
