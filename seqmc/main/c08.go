package main

import (
	"bytes"
	"crypto/sha256"
	"encoding/hex"
	"encoding/json"
	"fmt"
	"os"
	"sort"

	"github.com/basecomplextech/baselibrary/buffer"
	"github.com/basecomplextech/spec"
	"github.com/basecomplextech/spec/zzverif/seqmc/refcodec"
	"github.com/basecomplextech/spec/zzverif/seqmc/specio"
	"github.com/basecomplextech/spec/zzverif/seqmc/tree"
	"github.com/basecomplextech/spec/zzverif/seqmc/vlib"
)

// C08 — encoded bytes are deterministic and follow the pinned wire format.
//
// Every tree of the C01 space is encoded (i) by a fresh writer, (ii) by an explicit writer reused through
// Reset over a buffer pre-filled with 0xAA, (iii) by a pooled writer over the same dirty buffer after an
// unrelated larger message, (iv) after a failed program; all four must equal the bytes of the independent
// reference encoder; the reference decoder must read the library's bytes back to the tree, and the library
// must read the reference bytes. A golden corpus (sha256 per case name, captured at the pinned commit) makes a
// symmetric change of reference and library impossible to miss... the reference does not follow the library.
func init() { checks["c08"] = c08 }

type c08replay struct {
	Name  string `json:"name"`
	Index int64  `json:"index"`
	Tree  string `json:"tree"`
	Tier  string `json:"tier"`
	Mode  string `json:"mode"`
}

func dirty(buf buffer.Buffer, n int) {
	buf.Reset()
	p := buf.Grow(n)
	for i := range p {
		p[i] = 0xAA
	}
	buf.Reset()
}

func c08(a *vlib.Args) {
	r := vlib.NewResult("C08", a)
	var want c08replay
	if a.Replay != "" {
		vlib.LoadReplay(a.Replay, &want)
		a.Tier = want.Tier
		a.NShards = 1
	}
	maxNodes, level := c01Bounds(a)
	golden := map[string]string{}
	goldenPath := os.Getenv("VERIF_GOLDEN")
	writeGolden := os.Getenv("VERIF_GOLDEN_WRITE") != ""
	if goldenPath != "" && !writeGolden {
		if b, err := os.ReadFile(goldenPath); err == nil {
			json.Unmarshal(b, &golden)
		} else {
			r.Note("golden corpus not readable: %v", err)
		}
	}
	newGolden := map[string]string{}
	goldenHits := int64(0)

	buf := buffer.New()
	explicit := spec.NewWriter()
	defer func() { vlib.Catch(explicit.Free) }()
	big := tree.M(tree.Fd(9, tree.B(tree.Bytes, tree.Fill(70000, 0x5a))), tree.Fd(300, tree.L(tree.B(tree.String, tree.Fill(400, 0x61)), tree.I(tree.Int64, -1))))
	nontrivial := int64(0)
	modes := []string{"fresh", "reset-dirty", "pooled-after-big", "after-failure"}

	total := forEachTree(a, maxNodes, level, true, func(idx int64, c treeCase) {
		if a.Replay != "" && idx != want.Index {
			return
		}
		if c.Node.Size() > 1 {
			nontrivial++
		}
		ref := refcodec.Encode(nil, c.Node)
		rep := func(mode string) c08replay { return c08replay{c.Name, idx, c.Node.String(), a.Tier, mode} }

		for _, mode := range modes {
			if a.Replay != "" && want.Mode != "" && want.Mode != mode && want.Mode != "ref-decode" && want.Mode != "lib-reads-ref" {
				continue
			}
			r.Evaluations++
			var got []byte
			var err error
			p, stack := vlib.Catch(func() {
				switch mode {
				case "fresh":
					got, err = specio.Build(c.Node, specio.RPooled, nil)
				case "reset-dirty":
					dirty(buf, len(ref)+128)
					explicit.Reset(buf)
					got, err = buildOn(explicit, c.Node)
				case "pooled-after-big":
					dirty(buf, len(ref)+128)
					if _, e := specio.Build(big, specio.RBuffer, buf); e != nil {
						err = fmt.Errorf("big message: %w", e)
						return
					}
					dirty(buf, 0) // keep the dirt left by the big message, just reset the length
					got, err = specio.Build(c.Node, specio.RBuffer, buf)
				case "after-failure":
					dirty(buf, len(ref)+128)
					explicit.Reset(buf)
					v := explicit.Value()
					v.Int64(-1)
					v.String("garbage that must not leak") // second value without consuming the first: error
					explicit.Reset(buf)
					buf.Reset()
					got, err = buildOn(explicit, c.Node)
				}
			})
			if p != nil {
				r.Violate(fmt.Sprintf("panic mode=%s: %v", mode, p), fmt.Sprintf("%s tree=%s\n%s", c.Name, c.Node, stack), rep(mode))
				continue
			}
			if err != nil {
				r.Violate(fmt.Sprintf("build error mode=%s: %s", mode, sigOf(err)), fmt.Sprintf("%s tree=%s: %v", c.Name, c.Node, err), rep(mode))
				continue
			}
			if !bytes.Equal(got, ref) {
				r.Violate(fmt.Sprintf("bytes differ from the reference encoding, mode=%s kind=%s", mode, diffKind(got, ref, c.Node)),
					fmt.Sprintf("%s tree=%s\n library  =%s\n reference=%s", c.Name, c.Node, vlib.Hex(clip(got, 48)), vlib.Hex(clip(ref, 48))), rep(mode))
				continue
			}
		}
		// capacity sweep: the value is built on a 0xAA-dirty buffer of EVERY initial capacity 0..len+1, so that each
		// of the writer's Grow calls is, for some capacity, the one that reallocates (a slice kept across a Grow
		// then points into the abandoned array)
		if len(ref) <= 40 && (a.Replay == "" || want.Mode == "capacity-sweep") {
			for cp := 0; cp <= len(ref)+1; cp++ {
				r.Evaluations++
				var got []byte
				var err error
				p, stack := vlib.Catch(func() {
					raw := make([]byte, cp)
					for i := range raw {
						raw[i] = 0xAA
					}
					sweep := buffer.NewBytes(raw[:0])
					explicit.Reset(sweep)
					got, err = buildOn(explicit, c.Node)
				})
				switch {
				case p != nil:
					r.Violate(fmt.Sprintf("panic mode=capacity-sweep: %v", p), fmt.Sprintf("%s tree=%s capacity=%d\n%s", c.Name, c.Node, cp, stack), rep("capacity-sweep"))
				case err != nil:
					r.Violate(fmt.Sprintf("build error mode=capacity-sweep: %s", sigOf(err)), fmt.Sprintf("%s tree=%s capacity=%d: %v", c.Name, c.Node, cp, err), rep("capacity-sweep"))
				case !bytes.Equal(got, ref):
					r.Violate(fmt.Sprintf("bytes differ from the reference encoding, mode=capacity-sweep kind=%s", diffKind(got, ref, c.Node)),
						fmt.Sprintf("%s tree=%s dirty buffer of capacity %d\n library  =%s\n reference=%s", c.Name, c.Node, cp, vlib.Hex(clip(got, 48)), vlib.Hex(clip(ref, 48))), rep("capacity-sweep"))
				default:
					continue
				}
				break
			}
		}
		// reference decoder reads the library's bytes
		var lib []byte
		var err error
		if p, _ := vlib.Catch(func() { lib, err = specio.Build(c.Node, specio.RPooled, nil) }); p != nil {
			return // already reported by mode=fresh
		}
		if err == nil {
			r.Evaluations++
			dn, k, derr := refcodec.Decode(lib)
			if derr != nil || k != len(lib) || !refcodec.Equal(dn, c.Node) {
				r.Violate(fmt.Sprintf("reference decoder rejects or misreads library bytes: %v", sigOfE(derr)),
					fmt.Sprintf("%s tree=%s decoded=%v n=%d len=%d err=%v bytes=%s", c.Name, c.Node, dn, k, len(lib), derr, vlib.Hex(clip(lib, 48))), rep("ref-decode"))
			}
		}
		// library reads the reference bytes
		r.Evaluations++
		var cerr error
		p, stack := vlib.Catch(func() { cerr = specio.CheckRoot(ref, c.Node) })
		if p != nil {
			r.Violate(fmt.Sprintf("panic reading reference bytes: %v", p), stack, rep("lib-reads-ref"))
		} else if cerr != nil {
			r.Violate("library misreads reference bytes: "+sigOf(cerr), fmt.Sprintf("%s tree=%s ref=%s: %v", c.Name, c.Node, vlib.Hex(clip(ref, 48)), cerr), rep("lib-reads-ref"))
		}
		// golden corpus
		sum := sha256.Sum256(lib)
		hx := hex.EncodeToString(sum[:8])
		key := goldenKey(a, c)
		if writeGolden {
			newGolden[key] = hx
		} else if g, ok := golden[key]; ok {
			goldenHits++
			if g != hx {
				r.Violate("bytes differ from the golden corpus captured at the pinned commit", fmt.Sprintf("%s tree=%s sha=%s golden=%s bytes=%s", c.Name, c.Node, hx, g, vlib.Hex(clip(lib, 48))), rep("golden"))
			}
		}
		if idx%4001 == 1 {
			r.Sample(16, map[string]any{"case": c.Name, "tree": c.Node.String(), "bytes_tail": vlib.Hex(clip(ref, 32))})
		}
		if a.Replay != "" {
			fmt.Printf("replay: %s tree=%s ref=%s lib=%s\n", c.Name, c.Node, vlib.Hex(clip(ref, 64)), vlib.Hex(clip(lib, 64)))
		}
	})
	if writeGolden {
		keys := make([]string, 0, len(newGolden))
		for k := range newGolden {
			keys = append(keys, k)
		}
		sort.Strings(keys)
		b, _ := json.Marshal(newGolden)
		os.WriteFile(fmt.Sprintf("%s.%d", goldenPath, a.Shard), b, 0o644)
	}
	r.Distinct = nontrivial
	r.Bounds["max_nodes"] = maxNodes
	r.Bounds["space_total_trees"] = total
	r.Bounds["golden_cases_compared"] = goldenHits
	r.Traces = goldenHits
	r.Rule = fmt.Sprintf("the C01 tree space (<=%d nodes over the boundary alphabet, every tag order, families F1-F6), each encoded in 4 writer histories (fresh, Reset over a 0xAA-dirty buffer, pooled writer after a larger unrelated message, after a failed program) and, for encodings <=40 bytes, on a 0xAA-dirty buffer of every initial capacity 0..len+1 (every Grow call is the reallocating one for some capacity) and compared byte-for-byte with an independent reference encoder; reference decoder on library bytes; library reader on reference bytes; sha256 of every quick-tier case compared with the golden corpus frozen at the pinned commit", maxNodes)
	r.Write(a)
}

func goldenKey(a *vlib.Args, c treeCase) string {
	if len(c.Name) > 0 && c.Name[0] == 'F' {
		return c.Name
	}
	return c.Node.String() // small trees print completely
}

func sigOfE(err error) string {
	if err == nil {
		return "value mismatch"
	}
	return sigOf(err)
}

func buildOn(w spec.Writer, n *tree.Node) ([]byte, error) {
	// mirrors specio.buildRoot through the explicit writer without freeing it
	return specio.BuildRootOn(w, n)
}

// diffKind classifies a byte difference so that one defect has one signature.
func diffKind(got, ref []byte, n *tree.Node) string {
	if len(got) != len(ref) {
		return fmt.Sprintf("length(root=%s)", n.Kind)
	}
	for i := range got {
		if got[i] != ref[i] {
			return fmt.Sprintf("content(root=%s)", n.Kind)
		}
	}
	return "none"
}
