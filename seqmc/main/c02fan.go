package main

import (
	"fmt"
	"os"
	"os/exec"
	"strconv"
	"strings"
	"time"

	"github.com/basecomplextech/spec"
)

// Fan-out: the recursive parser parses "the last value in data[:end]" once per table entry. A table whose entries share
// one value (the same end offset, a non-monotonic list table, or ends that fall inside the previous field) makes the
// parser visit the same nested value several times per level, i.e. an exponential number of times over the nesting
// depth: an input of a few hundred bytes never returns. The parse runs in a child process with a generous time limit
// (a parser that visits every byte a bounded number of times needs microseconds for these inputs, so the limit cannot
// be hit by load).

func fanTrailer(b []byte, n int, table []byte, typ byte) []byte {
	b = append(b, table...)
	b = appendRvarint(b, uint64(n))
	b = appendRvarint(b, uint64(len(table)))
	return append(b, typ)
}

// fanInput builds the nested input; n stays below 64 KiB for every depth used (small tables).
func fanInput(kind string, depth int) []byte {
	b := []byte{1} // true
	prevData := 0   // size of the data region of the current top value (for "overlap")
	for i := 0; i < depth; i++ {
		n := len(b)
		hi, lo := byte(n>>8), byte(n)
		switch kind {
		case "msg-shared-end":
			// message {1: M, 2: M}: both entries end at n
			b = fanTrailer(b, n, []byte{1, hi, lo, 2, hi, lo}, 80)
		case "msg-overlap":
			// strictly increasing ends: entry 1 ends where the DATA of the inner message ends (its last value is the
			// inner message's own child), entry 2 is the inner message itself
			e1 := prevData
			if i == 0 {
				e1 = 0
			}
			if e1 == 0 {
				b = fanTrailer(b, n, []byte{2, hi, lo}, 80)
			} else {
				b = fanTrailer(b, n, []byte{1, byte(e1 >> 8), byte(e1), 2, hi, lo}, 80)
			}
		case "list-non-monotonic":
			// list offsets [n, 0, n]: elements 0 and 2 are the same bytes
			b = fanTrailer(b, n, []byte{hi, lo, 0, 0, hi, lo}, 70)
		}
		prevData = n
	}
	return b
}

var fanKinds = []string{"msg-shared-end", "msg-overlap", "list-non-monotonic"}

// fanChild: seqmc fanchild <kind> <depth>
func fanChild(args []string) {
	depth, _ := strconv.Atoi(args[1])
	in := fanInput(args[0], depth)
	t0 := time.Now()
	_, n, err := spec.ParseValue(in)
	fmt.Printf("fanchild: kind=%s depth=%d bytes=%d parsed n=%d rejected=%v in %v\n", args[0], depth, len(in), n, err != nil, time.Since(t0).Round(time.Microsecond))
}

// fanOut runs the child; a parse that does not come back within the limit is a violation ("returns normally").
func (c *c02s) fanOut(kind string, depth int, limit time.Duration) {
	c.r.Evaluations++
	cmd := exec.Command(os.Args[0], "fanchild", kind, strconv.Itoa(depth))
	done := make(chan struct{})
	var out []byte
	var err error
	go func() { out, err = cmd.CombinedOutput(); close(done) }()
	key := fmt.Sprintf("fan_out_%s_depth_%d", kind, depth)
	select {
	case <-done:
		c.r.Bounds[key] = strings.TrimSpace(firstLineOf(string(out)))
		if err != nil {
			c.r.Violate("ParseValue: crash on a fan-out input", fmt.Sprintf("kind=%s depth=%d: %v\n%s", kind, depth, err, clipS(string(out), 600)), c02replay{fmt.Sprintf("fan:%s:%d", kind, depth), "end"})
		}
	case <-time.After(limit):
		if cmd.Process != nil {
			cmd.Process.Kill()
		}
		<-done
		in := fanInput(kind, depth)
		c.r.Bounds[key] = fmt.Sprintf("no return within %v (input %d bytes)", limit, len(in))
		c.r.Violate("ParseValue does not return: exponential number of nested parses on a small input ("+kind+")",
			fmt.Sprintf("input: %d bytes, %d levels, kind %s (hex %x): spec.ParseValue in a child process did not return within %v; the same shape with 8 / 12 levels returns, each level multiplies the work",
				len(in), depth, kind, in, limit), c02replay{fmt.Sprintf("fan:%s:%d", kind, depth), "end"})
	}
}
