package main

import (
	"fmt"
	"strings"

	"github.com/basecomplextech/baselibrary/bin"
	"github.com/basecomplextech/baselibrary/buffer"
	"github.com/basecomplextech/spec"
	"github.com/basecomplextech/spec/internal/writer"
	"github.com/basecomplextech/spec/zzverif/seqmc/refcodec"
	"github.com/basecomplextech/spec/zzverif/seqmc/tree"
	"github.com/basecomplextech/spec/zzverif/seqmc/vlib"
)

// C12 — writer rejects misuse with sticky errors, never panics or emits garbage.
//
// Explicit-state BFS over call sequences on an explicitly owned writer and the handles derived from it. The
// state is the real writer (dumped through an in-package accessor) plus the harness' handle slots; successor =
// replay of the op list on a fresh writer + one op; equal dumps are merged.
func init() { checks["c12"] = c12 }

type c12replay struct {
	Ops  []string `json:"ops"`
	Tier string   `json:"tier"`
}

// --- op alphabet -------------------------------------------------------------------------------------

type c12op struct {
	name string
	// kind drives the one-way reference model (legal-construction tracking)
	run func(x *c12exec) (err error, hasErr bool, built []byte, isBuild bool)
	// probe: applied as a LAST operation to every reached state, never extended (keeps the search space, covers
	// the whole scalar surface of every handle kind in every state)
	probe bool
}

type c12exec struct {
	w     spec.Writer
	buf   buffer.Buffer
	ms    []spec.MessageWriter // message handles in creation order (End/Build nil the slot's writer)
	ls    []spec.ListWriter
	freed bool
}

func (x *c12exec) m(i int) *spec.MessageWriter {
	// i = 0: most recent, 1: the one before
	if len(x.ms) <= i {
		return nil
	}
	return &x.ms[len(x.ms)-1-i]
}
func (x *c12exec) l(i int) *spec.ListWriter {
	if len(x.ls) <= i {
		return nil
	}
	return &x.ls[len(x.ls)-1-i]
}

var validAny = []byte{7, 3}                                   // byte(7)
var validMsg = []byte{1, 5, 0x0b, 0, 0, 1, 9, 0, 3, 2, 6, 80} // {5: int32... } built below in init
var c12ops []c12op
var c12opIndex = map[string]int{}
var emptyMsg []byte

func e1(err error) (error, bool, []byte, bool)           { return err, true, nil, false }
func e0() (error, bool, []byte, bool)                    { return nil, false, nil, false }
func eb(b []byte, err error) (error, bool, []byte, bool) { return err, true, b, true }
func skip() (error, bool, []byte, bool)                  { return errSkip, false, nil, false }

var errSkip = fmt.Errorf("skip")

func init() {
	// a valid message {9: true, 2: "x"} for Copy/Merge
	mw := spec.NewMessageWriter()
	mw.Field(9).Bool(true)
	mw.Field(2).String("x")
	b, err := mw.Build()
	if err != nil {
		panic(err)
	}
	validMsg = append([]byte{}, b...)
	ew := spec.NewMessageWriter()
	ebytes, err := ew.Build()
	if err != nil {
		panic(err)
	}
	emptyMsg = append([]byte{}, ebytes...)

	add := func(name string, f func(x *c12exec) (error, bool, []byte, bool)) {
		c12opIndex[name] = len(c12ops)
		c12ops = append(c12ops, c12op{name: name, run: f})
	}
	add("W.Message", func(x *c12exec) (error, bool, []byte, bool) { x.ms = append(x.ms, x.w.Message()); return e0() })
	add("W.List", func(x *c12exec) (error, bool, []byte, bool) { x.ls = append(x.ls, x.w.List()); return e0() })
	add("W.Value.Bool", func(x *c12exec) (error, bool, []byte, bool) { return e1(x.w.Value().Bool(true)) })
	add("W.Value.String", func(x *c12exec) (error, bool, []byte, bool) { return e1(x.w.Value().String("s")) })
	add("W.Value.Any", func(x *c12exec) (error, bool, []byte, bool) { return e1(x.w.Value().Any(validAny)) })
	add("W.Value.Build", func(x *c12exec) (error, bool, []byte, bool) { return eb(x.w.Value().Build()) })
	add("W.Value.Message", func(x *c12exec) (error, bool, []byte, bool) { x.ms = append(x.ms, x.w.Value().Message()); return e0() })
	add("W.Err", func(x *c12exec) (error, bool, []byte, bool) { x.w.Err(); return e0() })
	add("W.Reset", func(x *c12exec) (error, bool, []byte, bool) {
		x.buf.Reset()
		x.w.Reset(x.buf)
		x.freed = false
		return e0()
	})
	add("W.Free", func(x *c12exec) (error, bool, []byte, bool) { x.w.Free(); x.freed = true; return e0() })
	add("Other.PooledWriterUse", func(x *c12exec) (error, bool, []byte, bool) {
		// an unrelated auto-released writer is used in between (same goroutine, shares the pools)
		o := spec.NewMessageWriter()
		o.Field(3).Int32(1)
		if _, err := o.Build(); err != nil {
			panic("harness: unrelated writer failed: " + err.Error())
		}
		return e0()
	})
	for i := 0; i < 2; i++ {
		i := i
		sfx := ""
		if i == 1 {
			sfx = "'" // the handle created before the most recent one (stale or parent)
		}
		mh := func(f func(m *spec.MessageWriter) (error, bool, []byte, bool)) func(x *c12exec) (error, bool, []byte, bool) {
			return func(x *c12exec) (error, bool, []byte, bool) {
				m := x.m(i)
				if m == nil {
					return skip()
				}
				return f(m)
			}
		}
		lh := func(f func(l *spec.ListWriter) (error, bool, []byte, bool)) func(x *c12exec) (error, bool, []byte, bool) {
			return func(x *c12exec) (error, bool, []byte, bool) {
				l := x.l(i)
				if l == nil {
					return skip()
				}
				return f(l)
			}
		}
		add("M"+sfx+".Field(1).Bool", mh(func(m *spec.MessageWriter) (error, bool, []byte, bool) { return e1(m.Field(1).Bool(true)) }))
		if i == 0 {
			add("M.Field(2).Int32", mh(func(m *spec.MessageWriter) (error, bool, []byte, bool) { return e1(m.Field(2).Int32(-5)) }))
			add("M.Field(1).Any", mh(func(m *spec.MessageWriter) (error, bool, []byte, bool) { return e1(m.Field(1).Any(validAny)) }))
			add("M.Copy", mh(func(m *spec.MessageWriter) (error, bool, []byte, bool) { return e1(m.Copy(spec.OpenMessage(validMsg))) }))
			add("M.Copy(empty)", mh(func(m *spec.MessageWriter) (error, bool, []byte, bool) { return e1(m.Copy(spec.OpenMessage(emptyMsg))) }))
			add("M.HasField(1)", mh(func(m *spec.MessageWriter) (error, bool, []byte, bool) { m.HasField(1); return e0() }))
		}
		add("M"+sfx+".Field(2).Message", func(x *c12exec) (error, bool, []byte, bool) {
			m := x.m(i)
			if m == nil {
				return skip()
			}
			x.ms = append(x.ms, m.Field(2).Message())
			return e0()
		})
		add("M"+sfx+".Field(1).List", func(x *c12exec) (error, bool, []byte, bool) {
			m := x.m(i)
			if m == nil {
				return skip()
			}
			x.ls = append(x.ls, m.Field(1).List())
			return e0()
		})
		add("M"+sfx+".End", mh(func(m *spec.MessageWriter) (error, bool, []byte, bool) { return e1(m.End()) }))
		add("M"+sfx+".Build", mh(func(m *spec.MessageWriter) (error, bool, []byte, bool) { return eb(m.Build()) }))
		if i == 0 {
			add("Mcopy.End", mh(func(m *spec.MessageWriter) (error, bool, []byte, bool) { c := *m; return e1(c.End()) }))
		}
		add("L"+sfx+".Bool", lh(func(l *spec.ListWriter) (error, bool, []byte, bool) { return e1(l.Bool(false)) }))
		if i == 0 {
			add("L.String", lh(func(l *spec.ListWriter) (error, bool, []byte, bool) { return e1(l.String("e")) }))
			add("L.Any", lh(func(l *spec.ListWriter) (error, bool, []byte, bool) { return e1(l.Any(validAny)) }))
			add("L.Len", lh(func(l *spec.ListWriter) (error, bool, []byte, bool) { l.Len(); return e0() }))
			add("L.Err", lh(func(l *spec.ListWriter) (error, bool, []byte, bool) { l.Err(); return e0() }))
		}
		add("L"+sfx+".Message", func(x *c12exec) (error, bool, []byte, bool) {
			l := x.l(i)
			if l == nil {
				return skip()
			}
			x.ms = append(x.ms, l.Message())
			return e0()
		})
		add("L"+sfx+".List", func(x *c12exec) (error, bool, []byte, bool) {
			l := x.l(i)
			if l == nil {
				return skip()
			}
			x.ls = append(x.ls, l.List())
			return e0()
		})
		add("L"+sfx+".End", lh(func(l *spec.ListWriter) (error, bool, []byte, bool) { return e1(l.End()) }))
		add("L"+sfx+".Build", lh(func(l *spec.ListWriter) (error, bool, []byte, bool) { return eb(l.Build()) }))
	}
	// probes: every scalar method of a root value, of a field of the most recent message handle and of the most
	// recent list handle
	type scalarW interface {
		Bool(bool) error
		Byte(byte) error
		Int16(int16) error
		Int32(int32) error
		Int64(int64) error
		Uint16(uint16) error
		Uint32(uint32) error
		Uint64(uint64) error
		Float32(float32) error
		Float64(float64) error
		Bin64(bin.Bin64) error
		Bin128(bin.Bin128) error
		Bin256(bin.Bin256) error
		Bytes([]byte) error
		String(string) error
	}
	scalars := []struct {
		name string
		f    func(w scalarW) error
	}{
		{"Byte", func(w scalarW) error { return w.Byte(7) }}, {"Int16", func(w scalarW) error { return w.Int16(-3) }},
		{"Int32", func(w scalarW) error { return w.Int32(-70000) }}, {"Int64", func(w scalarW) error { return w.Int64(1 << 40) }},
		{"Uint16", func(w scalarW) error { return w.Uint16(65535) }}, {"Uint32", func(w scalarW) error { return w.Uint32(1 << 31) }},
		{"Uint64", func(w scalarW) error { return w.Uint64(1 << 63) }}, {"Float32", func(w scalarW) error { return w.Float32(1.5) }},
		{"Float64", func(w scalarW) error { return w.Float64(-2.25) }}, {"Bin64", func(w scalarW) error { return w.Bin64(bin.Bin64{1}) }},
		{"Bin128", func(w scalarW) error { return w.Bin128(bin.Int128(1, 2)) }}, {"Bin256", func(w scalarW) error { return w.Bin256(bin.Bin256{}) }},
		{"Bytes", func(w scalarW) error { return w.Bytes([]byte{1, 2, 3}) }}, {"String", func(w scalarW) error { return w.String("probe") }},
		{"Bool", func(w scalarW) error { return w.Bool(true) }},
	}
	for _, sc := range scalars {
		sc := sc
		addProbe := func(name string, f func(x *c12exec) (error, bool, []byte, bool)) {
			if _, dup := c12opIndex[name]; dup {
				return
			}
			c12opIndex[name] = len(c12ops)
			c12ops = append(c12ops, c12op{name: name, run: f, probe: true})
		}
		addProbe("W.Value."+sc.name, func(x *c12exec) (error, bool, []byte, bool) { return e1(sc.f(x.w.Value())) })
		addProbe("M.Field(7)."+sc.name, func(x *c12exec) (error, bool, []byte, bool) {
			m := x.m(0)
			if m == nil {
				return skip()
			}
			return e1(sc.f(m.Field(7)))
		})
		addProbe("L."+sc.name, func(x *c12exec) (error, bool, []byte, bool) {
			l := x.l(0)
			if l == nil {
				return skip()
			}
			return e1(sc.f(*l))
		})
	}
}

// --- execution of one program with the oracle ---------------------------------------------------------

type c12outcome struct {
	key       string // canonical state key after the program
	skipped   bool   // last op not applicable (no such handle)
	violation string // signature
	desc      string
}

// c12run replays ops on a fresh writer. checkFrom: oracle is evaluated for every step (cheap).
func c12run(ops []int) (out c12outcome) {
	x := &c12exec{buf: buffer.New()}
	x.w = spec.NewWriterBuffer(x.buf)
	sticky := false // an error has been observed since the last Reset
	names := func(n int) string {
		var s []string
		for _, o := range ops[:n] {
			s = append(s, c12ops[o].name)
		}
		return strings.Join(s, "; ")
	}
	for i, oi := range ops {
		op := c12ops[oi]
		var err error
		var hasErr, isBuild bool
		var built []byte
		p, stack := vlib.Catch(func() { err, hasErr, built, isBuild = op.run(x) })
		if p != nil {
			pre := ""
			if strings.HasPrefix(op.name, "M") {
				idx := 0
				if strings.HasPrefix(op.name, "M'") {
					idx = 1
				}
				if m := x.m(idx); m != nil && isNilHandle(*m) {
					pre = "call on an ended MessageWriter handle (End/Build already called on it): "
				}
			}
			out.violation = fmt.Sprintf("%spanic in %s: %s", pre, op.name, panicClass(p))
			out.desc = fmt.Sprintf("program: %s\npanic: %v\n%s", names(i+1), p, clipS(stack, 1500))
			return
		}
		if err == errSkip {
			out.skipped = true
			return
		}
		if op.name == "W.Reset" {
			sticky = false
			// differential: a Reset writer must look exactly like a fresh writer
			fresh := spec.NewWriterBuffer(buffer.New())
			if d1, d2 := writer.VDump(x.w), writer.VDump(fresh); d1 != d2 {
				out.violation = "Reset does not return the writer to the state of a fresh writer"
				out.desc = fmt.Sprintf("program: %s\nafter Reset: %s\nfresh:       %s", names(i+1), d1, d2)
				return
			}
			vlib.Catch(fresh.Free)
			continue
		}
		werr := x.w.Err()
		if hasErr {
			if sticky && err == nil {
				out.violation = fmt.Sprintf("%s succeeds after an earlier error (error not sticky)", op.name)
				out.desc = fmt.Sprintf("program: %s", names(i+1))
				return
			}
			if err != nil && werr == nil {
				out.violation = fmt.Sprintf("%s returned an error but Writer.Err() is nil", op.name)
				out.desc = fmt.Sprintf("program: %s\nerr=%v", names(i+1), err)
				return
			}
		}
		if sticky && werr == nil {
			out.violation = fmt.Sprintf("Writer.Err() cleared by %s without Reset", op.name)
			out.desc = fmt.Sprintf("program: %s", names(i+1))
			return
		}
		if isBuild && err == nil {
			// a successful Build must return a well-formed value that parses completely
			v, n, perr := spec.ParseValue(built)
			if perr != nil || n != len(built) || len(v) != len(built) || len(built) == 0 {
				out.violation = fmt.Sprintf("%s succeeded but the bytes do not parse completely", op.name)
				out.desc = fmt.Sprintf("program: %s\nbytes=%s n=%d err=%v", names(i+1), vlib.Hex(clip(built, 64)), n, perr)
				return
			}
			if _, k, derr := refcodec.Decode(built); derr != nil || k != len(built) {
				out.violation = fmt.Sprintf("%s succeeded but the independent decoder rejects the bytes", op.name)
				out.desc = fmt.Sprintf("program: %s\nbytes=%s err=%v", names(i+1), vlib.Hex(clip(built, 64)), derr)
				return
			}
		}
		if werr != nil {
			sticky = true
		}
	}
	// state key: complete writer dump + handle slots (a message handle is just {writer pointer or nil})
	var sb strings.Builder
	sb.WriteString(writer.VDump(x.w))
	fmt.Fprintf(&sb, "|sticky=%v|M=", sticky)
	for _, m := range lastN(len(x.ms), 2) {
		if isNilHandle(x.ms[m]) {
			sb.WriteString("n")
		} else {
			sb.WriteString("l")
		}
	}
	fmt.Fprintf(&sb, "|L=%d", min(len(x.ls), 2))
	out.key = sb.String()
	// leave no pooled state dangling in an odd way for the next replay: free defensively
	if !x.freed {
		vlib.Catch(x.w.Free)
	}
	return
}

func lastN(n, k int) []int {
	var r []int
	for i := n - 1; i >= 0 && len(r) < k; i-- {
		r = append(r, i)
	}
	return r
}

func isNilHandle(m spec.MessageWriter) (isNil bool) {
	return writer.VHandleNil(m)
}

func clipS(s string, n int) string {
	if len(s) > n {
		return s[:n]
	}
	return s
}

func c12(a *vlib.Args) {
	r := vlib.NewResult("C12", a)
	refcodec.AllowDuplicateTags = true
	r.MaxPerSig = 1
	if a.Replay != "" {
		var rp c12replay
		vlib.LoadReplay(a.Replay, &rp)
		var ops []int
		for _, n := range rp.Ops {
			ops = append(ops, c12opIndex[n])
		}
		o := c12run(ops)
		fmt.Printf("replay: %v -> violation=%q\n%s\nstate=%s\n", rp.Ops, o.violation, o.desc, o.key)
		r.Write(a)
		return
	}
	depth := 6
	if a.Thorough() {
		depth = 8
	}
	// BFS, level by level; first ops are distributed over shards (independent seen sets: duplicates only cost time)
	type node struct{ ops []int }
	seen := map[uint64]struct{}{}
	var frontier []node
	for i := range c12ops {
		if a.Mine(int64(i)) && !c12ops[i].probe {
			frontier = append(frontier, node{[]int{i}})
		}
	}
	opNames := func(ops []int) []string {
		var s []string
		for _, o := range ops {
			s = append(s, c12ops[o].name)
		}
		return s
	}
	first := true
	nprobes := 0
	for d := 1; d <= depth && len(frontier) > 0; d++ {
		var next []node
		for ni, nd := range frontier {
			if a.Expired(int64(ni)) {
				break // time budget: the frontier of this depth is left partly unexpanded (reported, not a violation)
			}
			var cands [][]int
			if first {
				cands = [][]int{nd.ops}
			} else {
				for oi := range c12ops {
					cands = append(cands, append(append([]int{}, nd.ops...), oi))
				}
			}
			for _, ops := range cands {
				o := c12run(ops)
				if o.skipped {
					continue
				}
				r.Evaluations++
				r.Transitions++
				if o.violation != "" {
					r.Violate(o.violation, o.desc, c12replay{opNames(ops), a.Tier})
					continue // do not extend violating programs
				}
				if c12ops[ops[len(ops)-1]].probe {
					nprobes++
					continue // probes are terminal
				}
				h := vlib.Hash(o.key)
				if _, ok := seen[h]; ok {
					continue
				}
				seen[h] = struct{}{}
				r.States++
				if r.States%701 == 1 {
					r.Sample(16, map[string]any{"program": opNames(ops), "state": clipS(o.key, 200)})
				}
				if d < depth {
					next = append(next, node{ops})
				}
			}
		}
		first = false
		r.Bounds[fmt.Sprintf("new_states_at_depth_%d", d)] = len(next)
		frontier = next
	}
	r.Distinct = r.States
	r.Bounds["max_program_length"] = depth
	r.Bounds["op_alphabet"] = len(c12ops)
	r.Bounds["terminal_probe_transitions"] = nprobes
	r.Rule = fmt.Sprintf("explicit-state BFS over ALL call sequences of length <=%d over a %d-op alphabet on one explicit writer and its handles (most recent and previous message/list handle, copies of handles, Value/Field/element scalars, nested Message/List, Any, Copy, End/Build on any handle, Len/HasField/Err, Reset, Free, an unrelated pooled writer used in between); successor = replay on a fresh writer + 1 op; states merged iff the complete writer dump + handle slots are equal; additionally every scalar method (15 kinds) of a root value, of a field of the most recent message handle and of the most recent list handle is applied as a terminal probe to every expanded state; oracle on every transition: no panic, sticky error until Reset, Err() consistent, successful Build parses completely (library parser and independent decoder), Reset state == fresh state", depth, len(c12ops))
	_ = tree.Bool
	r.Write(a)
}
