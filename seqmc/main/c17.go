package main

import (
	"fmt"
	"math"
	"runtime"
	"runtime/debug"
	"testing"
	"unsafe"

	"github.com/basecomplextech/baselibrary/bin"
	"github.com/basecomplextech/baselibrary/buffer"
	"github.com/basecomplextech/spec"
	"github.com/basecomplextech/spec/internal/writer"
	"github.com/basecomplextech/spec/zzverif/seqmc/refcodec"
	"github.com/basecomplextech/spec/zzverif/seqmc/tree"
	"github.com/basecomplextech/spec/zzverif/seqmc/vlib"
)

// C17 — reading allocates nothing; steady-state writing allocates nothing.
func init() { checks["c17"] = c17 }

type c17replay struct {
	Name  string `json:"name"`
	Index int64  `json:"index"`
	Tree  string `json:"tree"`
	Tier  string `json:"tier"`
	Mode  string `json:"mode"`
}

var sinkU uint64
var sinkB []byte
var sinkS spec.String

// walkNoAlloc reads a value completely through the accessors without allocating itself.
func walkNoAlloc(v spec.Value) {
	switch byte(v.Type()) {
	case 1, 2:
		if v.Bool() {
			sinkU++
		}
	case 3:
		sinkU += uint64(v.Byte())
	case 10:
		sinkU += uint64(v.Int16())
	case 11:
		sinkU += uint64(v.Int32())
	case 12:
		sinkU += uint64(v.Int64())
	case 20:
		sinkU += uint64(v.Uint16())
	case 21:
		sinkU += uint64(v.Uint32())
	case 22:
		sinkU += v.Uint64()
	case 30:
		b := v.Bin64()
		sinkU += uint64(b[0])
	case 31:
		b := v.Bin128()
		sinkU += uint64(b[0][0])
	case 32:
		b := v.Bin256()
		sinkU += uint64(b[0][0])
	case 40:
		sinkU += uint64(math.Float32bits(v.Float32()))
	case 41:
		sinkU += math.Float64bits(v.Float64())
	case 50:
		sinkB = v.Bytes()
	case 60:
		sinkS = v.String()
	case 70, 71:
		l := v.List()
		n := l.Len()
		for i := 0; i < n; i++ {
			walkNoAlloc(l.Get(i))
			sinkB = l.GetBytes(i)
		}
	case 80, 81:
		m := v.Message()
		n := m.Fields()
		for i := 0; i < n; i++ {
			tag, _ := m.TagAt(i)
			if m.HasField(tag) {
				walkNoAlloc(m.Field(tag))
			}
			sinkB = m.FieldAt(i)
			// tag-addressed typed accessor matching the stored type (wrong-type reads are error paths, not "reading")
			switch byte(m.Field(tag).Type()) {
			case 1, 2:
				if m.Bool(tag) {
					sinkU++
				}
			case 3:
				sinkU += uint64(m.Byte(tag))
			case 10, 11, 12:
				sinkU += uint64(m.Int64(tag))
			case 20, 21, 22:
				sinkU += m.Uint64(tag)
			case 40, 41:
				sinkU += math.Float64bits(m.Float64(tag))
			case 30:
				b := m.Bin64(tag)
				sinkU += uint64(b[0])
			case 31:
				b := m.Bin128(tag)
				sinkU += uint64(b[0][0])
			case 32:
				b := m.Bin256(tag)
				sinkU += uint64(b[0][0])
			case 50:
				sinkB = m.Bytes(tag)
			case 60:
				sinkS = m.String(tag)
			case 70, 71:
				sinkU += uint64(m.List(tag).Len())
			case 80, 81:
				sinkU += uint64(m.Message(tag).Fields())
			}
		}
		// absent tag: every typed accessor returns the zero value
		sinkU += uint64(m.Int64(65000)) + m.Uint64(65000) + uint64(len(m.String(65000))) + uint64(len(m.Bytes(65000))) + uint64(m.List(65000).Len()) + uint64(m.Message(65000).Fields())
	case 90:
		ds, sz, _ := spec.DecodeStruct(v)
		b := []byte(v[:len(v)-(sz-ds)])
		for len(b) > 0 {
			pv, k, err := spec.ParseValue(b)
			if err != nil || k == 0 {
				return
			}
			walkNoAlloc(pv)
			b = b[:len(b)-k]
		}
	}
}

func readAll(b []byte) {
	v, _, err := spec.ParseValue(b)
	if err != nil {
		sinkU++
		return
	}
	walkNoAlloc(v)
}

func ustr(b []byte) string {
	if len(b) == 0 {
		return ""
	}
	return unsafe.String(&b[0], len(b))
}

func bin64of(n *tree.Node) (a bin.Bin64) { copy(a[:], n.B); return }
func bin128of(n *tree.Node) bin.Bin128 {
	var a [16]byte
	copy(a[:], n.B)
	return bin.New128(a)
}
func bin256of(n *tree.Node) bin.Bin256 {
	var a [32]byte
	copy(a[:], n.B)
	return bin.New256(a)
}

func encStruct(b buffer.Buffer, n *tree.Node) (int, error) {
	total := 0
	for _, m := range n.Elems {
		k, err := encScalarNA(b, m)
		if err != nil {
			return 0, err
		}
		total += k
	}
	k, err := spec.EncodeStruct(b, total)
	return total + k, err
}

func encScalarNA(b buffer.Buffer, n *tree.Node) (int, error) {
	switch n.Kind {
	case tree.Bool:
		return spec.EncodeBool(b, n.U != 0)
	case tree.Byte:
		return spec.EncodeByte(b, byte(n.U))
	case tree.Int16:
		return spec.EncodeInt16(b, int16(n.U))
	case tree.Int32:
		return spec.EncodeInt32(b, int32(n.U))
	case tree.Int64:
		return spec.EncodeInt64(b, int64(n.U))
	case tree.Uint16:
		return spec.EncodeUint16(b, uint16(n.U))
	case tree.Uint32:
		return spec.EncodeUint32(b, uint32(n.U))
	case tree.Uint64:
		return spec.EncodeUint64(b, n.U)
	case tree.Float32:
		return spec.EncodeFloat32(b, math.Float32frombits(uint32(n.U)))
	case tree.Float64:
		return spec.EncodeFloat64(b, math.Float64frombits(n.U))
	case tree.Bin64:
		return spec.EncodeBin64(b, bin64of(n))
	case tree.Bin128:
		return spec.EncodeBin128(b, bin128of(n))
	case tree.Bin256:
		return spec.EncodeBin256(b, bin256of(n))
	case tree.Bytes:
		return spec.EncodeBytes(b, n.B)
	case tree.String:
		return spec.EncodeString(b, ustr(n.B))
	}
	return 0, nil
}

var werr error

func wValue(v spec.ValueWriter, n *tree.Node) {
	switch n.Kind {
	case tree.Bool:
		werr = v.Bool(n.U != 0)
	case tree.Byte:
		werr = v.Byte(byte(n.U))
	case tree.Int16:
		werr = v.Int16(int16(n.U))
	case tree.Int32:
		werr = v.Int32(int32(n.U))
	case tree.Int64:
		werr = v.Int64(int64(n.U))
	case tree.Uint16:
		werr = v.Uint16(uint16(n.U))
	case tree.Uint32:
		werr = v.Uint32(uint32(n.U))
	case tree.Uint64:
		werr = v.Uint64(n.U)
	case tree.Float32:
		werr = v.Float32(math.Float32frombits(uint32(n.U)))
	case tree.Float64:
		werr = v.Float64(math.Float64frombits(n.U))
	case tree.Bin64:
		werr = v.Bin64(bin64of(n))
	case tree.Bin128:
		werr = v.Bin128(bin128of(n))
	case tree.Bin256:
		werr = v.Bin256(bin256of(n))
	case tree.Bytes:
		werr = v.Bytes(n.B)
	case tree.String:
		werr = v.String(ustr(n.B))
	}
}

func wList(l spec.ListWriter, n *tree.Node) {
	for _, e := range n.Elems {
		switch e.Kind {
		case tree.List:
			sub := l.List()
			wList(sub, e)
			werr = sub.End()
		case tree.Message:
			sub := l.Message()
			wMessage(sub, e)
			werr = sub.End()
		case tree.Struct:
			werr = writer.WriteElement(l, e, encStruct)
		case tree.Bool:
			werr = l.Bool(e.U != 0)
		case tree.Byte:
			werr = l.Byte(byte(e.U))
		case tree.Int16:
			werr = l.Int16(int16(e.U))
		case tree.Int32:
			werr = l.Int32(int32(e.U))
		case tree.Int64:
			werr = l.Int64(int64(e.U))
		case tree.Uint16:
			werr = l.Uint16(uint16(e.U))
		case tree.Uint32:
			werr = l.Uint32(uint32(e.U))
		case tree.Uint64:
			werr = l.Uint64(e.U)
		case tree.Float32:
			werr = l.Float32(math.Float32frombits(uint32(e.U)))
		case tree.Float64:
			werr = l.Float64(math.Float64frombits(e.U))
		case tree.Bin64:
			werr = l.Bin64(bin64of(e))
		case tree.Bin128:
			werr = l.Bin128(bin128of(e))
		case tree.Bin256:
			werr = l.Bin256(bin256of(e))
		case tree.Bytes:
			werr = l.Bytes(e.B)
		case tree.String:
			werr = l.String(ustr(e.B))
		}
	}
}

func wMessage(m spec.MessageWriter, n *tree.Node) {
	for _, fd := range n.Fields {
		f := m.Field(fd.Tag)
		e := fd.Val
		switch e.Kind {
		case tree.List:
			sub := f.List()
			wList(sub, e)
			werr = sub.End()
		case tree.Message:
			sub := f.Message()
			wMessage(sub, e)
			werr = sub.End()
		case tree.Struct:
			werr = spec.WriteField(f, e, encStruct)
		case tree.Bool:
			werr = f.Bool(e.U != 0)
		case tree.Byte:
			werr = f.Byte(byte(e.U))
		case tree.Int16:
			werr = f.Int16(int16(e.U))
		case tree.Int32:
			werr = f.Int32(int32(e.U))
		case tree.Int64:
			werr = f.Int64(int64(e.U))
		case tree.Uint16:
			werr = f.Uint16(uint16(e.U))
		case tree.Uint32:
			werr = f.Uint32(uint32(e.U))
		case tree.Uint64:
			werr = f.Uint64(e.U)
		case tree.Float32:
			werr = f.Float32(math.Float32frombits(uint32(e.U)))
		case tree.Float64:
			werr = f.Float64(math.Float64frombits(e.U))
		case tree.Bin64:
			werr = f.Bin64(bin64of(e))
		case tree.Bin128:
			werr = f.Bin128(bin128of(e))
		case tree.Bin256:
			werr = f.Bin256(bin256of(e))
		case tree.Bytes:
			werr = f.Bytes(e.B)
		case tree.String:
			werr = f.String(ustr(e.B))
		}
	}
}

var outLen int

// writeExplicit: one message per call with a reused explicit writer and a reused buffer.
func writeExplicit(w spec.Writer, buf buffer.Buffer, n *tree.Node) {
	buf.Reset()
	w.Reset(buf)
	var b []byte
	switch n.Kind {
	case tree.List:
		l := w.List()
		wList(l, n)
		b, werr = l.Build()
	case tree.Message:
		m := w.Message()
		wMessage(m, n)
		b, werr = m.Build()
	case tree.Struct:
		werr = writer.WriteValue(w, n, encStruct)
		b, werr = w.Value().Build()
	default:
		v := w.Value()
		wValue(v, n)
		b, werr = v.Build()
	}
	outLen = len(b)
}

// writePooled: one message per call through the pooled NewXWriterBuffer route over a reused buffer.
func writePooled(buf buffer.Buffer, n *tree.Node) {
	buf.Reset()
	var b []byte
	switch n.Kind {
	case tree.List:
		l := spec.NewListWriterBuffer(buf)
		wList(l, n)
		b, werr = l.Build()
	case tree.Message:
		m := spec.NewMessageWriterBuffer(buf)
		wMessage(m, n)
		b, werr = m.Build()
	case tree.Struct:
		return
	default:
		v := spec.NewValueWriterBuffer(buf)
		wValue(v, n)
		b, werr = v.Build()
	}
	outLen = len(b)
}

func c17(a *vlib.Args) {
	r := vlib.NewResult("C17", a)
	var want c17replay
	if a.Replay != "" {
		vlib.LoadReplay(a.Replay, &want)
		a.Tier = want.Tier
		a.NShards = 1
	}
	maxNodes, level := 3, 0
	runs := 10
	if a.Thorough() {
		level = 1
		runs = 30
	}
	buf := buffer.New()
	explicit := spec.NewWriter()
	nontrivial := int64(0)
	old := debug.SetGCPercent(-1)
	defer debug.SetGCPercent(old)
	sinceGC := 0

	// the generated-code family (c17gen.go): once, on shard 0
	if a.Replay != "" && len(want.Mode) > 4 && want.Mode[:4] == "gen:" {
		c17genFamily(a, r, runs, want.Mode)
		r.Write(a)
		return
	}
	if a.Shard == 0 && a.Replay == "" {
		c17genFamily(a, r, runs, "")
	}

	total := forEachTree(a, maxNodes, level, true, func(idx int64, c treeCase) {
		if a.Replay != "" && idx != want.Index {
			return
		}
		if c.Node.Size() > 1 {
			nontrivial++
		}
		node := c.Node
		enc := refcodec.Encode(nil, node)
		rep := func(mode string) c17replay { return c17replay{c.Name, idx, node.String(), a.Tier, mode} }
		shape := shapeOf(node)

		// read
		r.Evaluations++
		readFn := func() { readAll(enc) }
		readFn()
		if n := testing.AllocsPerRun(runs, readFn); n != 0 {
			r.Violate(fmt.Sprintf("reading allocates: root=%s", node.Kind), fmt.Sprintf("%s tree=%s shape=%s: %.1f allocs per parse+walk", c.Name, node, shape, n), rep("read"))
		}
		// write, explicit reused writer
		r.Evaluations++
		wFn := func() { writeExplicit(explicit, buf, node) }
		for i := 0; i < 3; i++ {
			wFn()
		}
		if werr != nil || outLen != len(enc) {
			r.Violate("write harness: explicit route failed", fmt.Sprintf("%s tree=%s err=%v len=%d want %d", c.Name, node, werr, outLen, len(enc)), rep("write-explicit"))
		} else if n := testing.AllocsPerRun(runs, wFn); n != 0 {
			r.Violate(fmt.Sprintf("steady-state writing allocates (reused explicit writer): root=%s", node.Kind), fmt.Sprintf("%s tree=%s shape=%s: %.1f allocs per message", c.Name, node, shape, n), rep("write-explicit"))
		}
		// write, pooled writer over reused buffer
		if node.Kind != tree.Struct {
			r.Evaluations++
			pFn := func() { writePooled(buf, node) }
			for i := 0; i < 3; i++ {
				pFn()
			}
			if werr != nil || outLen != len(enc) {
				r.Violate("write harness: pooled route failed", fmt.Sprintf("%s tree=%s err=%v len=%d want %d", c.Name, node, werr, outLen, len(enc)), rep("write-pooled"))
			} else if n := testing.AllocsPerRun(runs, pFn); n != 0 {
				r.Violate(fmt.Sprintf("steady-state writing allocates (pooled writer, reused buffer): root=%s", node.Kind), fmt.Sprintf("%s tree=%s shape=%s: %.1f allocs per message", c.Name, node, shape, n), rep("write-pooled"))
			}
		}
		if idx%6007 == 1 || (c.Name[0] == 'F' && idx%131 == 0) {
			r.Sample(16, map[string]any{"case": c.Name, "tree": node.String(), "encoded_len": len(enc)})
		}
		sinceGC += len(enc) + 256
		if sinceGC > 64<<20 {
			runtime.GC()
			sinceGC = 0
		}
		if a.Replay != "" {
			fmt.Printf("replay: %s tree=%s read=%v writeExplicit=%v writePooled=%v\n", c.Name, node,
				testing.AllocsPerRun(runs, readFn), testing.AllocsPerRun(runs, wFn), testing.AllocsPerRun(runs, func() { writePooled(buf, node) }))
		}
	})
	r.Distinct = nontrivial
	r.Bounds["space_total_trees"] = total
	r.Bounds["runs_per_measurement"] = runs
	r.Rule = fmt.Sprintf("every tree of the C01 space (<=%d nodes over the level-%d boundary alphabet incl. every tag order, plus families F1-F6 with field/element counts up to 300 and nesting depth up to 20, i.e. beyond the 48 preallocated table slots and 14 stack entries): testing.AllocsPerRun(%d) must be 0 for ParseValue + a full accessor walk, and after 3 warm-up runs for re-writing the tree with a reused explicit writer (Reset) and with the pooled NewXWriterBuffer route into a reused buffer; GC disabled during measurement so sync.Pool cannot be cleared mid-measurement", maxNodes, level, runs)
	r.Write(a)
}

func shapeOf(n *tree.Node) string {
	switch n.Kind {
	case tree.List:
		return fmt.Sprintf("list[%d]", len(n.Elems))
	case tree.Message:
		return fmt.Sprintf("message{%d}", len(n.Fields))
	case tree.Struct:
		return fmt.Sprintf("struct(%d)", len(n.Elems))
	}
	return n.Kind.String()
}
