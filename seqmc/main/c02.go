package main

import (
	"strconv"
	"fmt"
	"strings"
	"time"

	"github.com/basecomplextech/spec/zzverif/seqmc/refcodec"
	"github.com/basecomplextech/spec/zzverif/seqmc/tree"
	"github.com/basecomplextech/spec/zzverif/seqmc/vlib"
)

// C02 — decoding arbitrary bytes never panics or reads out of bounds.
func init() { checks["c02"] = c02 }

type c02replay struct {
	Input string `json:"input_hex"`
	Place string `json:"placement"`
}

type c02s struct {
	r    *vlib.Result
	g    *guardMem
	seen *vlib.Distinct
	sf   surf
}

func (c *c02s) try(in []byte, origin string) {
	if !c.g.fits(len(in)) {
		return
	}
	for _, place := range []string{"end", "start"} {
		var b []byte
		if place == "end" {
			b = c.g.atEnd(in)
		} else {
			if len(in) == 0 {
				continue
			}
			b = c.g.atStart(in)
		}
		c.sf.fails = c.sf.fails[:0]
		c.sf.all(b)
		c.r.Evaluations++
		for _, f := range c.sf.fails {
			c.r.Violate(fmt.Sprintf("%s: %s", shortEntry(f.Entry), sigOf(fmt.Errorf("%s", f.What))),
				fmt.Sprintf("input=%s (len %d, placed at %s of the guarded region, origin: %s): %s %s", vlib.Hex(clip(in, 40)), len(in), place, origin, f.Entry, f.What),
				c02replay{vlib.Hex(in), place})
		}
	}
}

var boundaryBytes = []byte{0, 1, 0x7f, 0x80, 0xfc, 0xfd, 0xfe, 0xff}

func c02(a *vlib.Args) {
	r := vlib.NewResult("C02", a)
	c := &c02s{r: r, g: newGuardMem(2), seen: vlib.NewDistinct()}
	if a.Replay != "" {
		var rp c02replay
		vlib.LoadReplay(a.Replay, &rp)
		if strings.HasPrefix(rp.Input, "deep:") {
			var depth, ms int
			fmt.Sscanf(rp.Input, "deep:%d:%d", &depth, &ms)
			c.deepNesting(depth, ms, 900*time.Second)
		} else if strings.HasPrefix(rp.Input, "fan:") {
			parts := strings.Split(rp.Input, ":")
			depth, _ := strconv.Atoi(parts[2])
			c.fanOut(parts[1], depth, 60*time.Second)
		} else {
			in := vlib.UnHex(rp.Input)
			c.try(in, "replay")
		}
		for _, v := range r.Violations {
			fmt.Println("replay:", v.Sig)
		}
		if len(r.Violations) == 0 {
			fmt.Println("replay: input", rp.Input, "-> no violation")
		}
		r.Write(a)
		return
	}
	var idx int64
	next := func() bool { idx++; return a.Mine(idx) }
	nontrivial := int64(0)

	// (e) nesting depth: the recursive parser on a message nested D levels deep, in a child process (shard 0 only)
	if a.Shard == 0 {
		c.deepNesting(1000, 0, 60*time.Second)
		c.deepNesting(100000, 0, 120*time.Second)
		if a.Thorough() {
			c.deepNesting(2500000, 0, 600*time.Second)
		} else {
			c.deepNesting(400000, 64, 120*time.Second)
		}
	}
	// (f) fan-out: tables whose entries share a nested value, 8 / 12 levels (must return) and 64 / 90 levels (a parser
	// that multiplies its work per level never returns), in a child process with a time limit (shard 1 only)
	if a.Shard == 1%a.NShards {
		for _, kind := range fanKinds {
			c.fanOut(kind, 8, 60*time.Second)
			c.fanOut(kind, 12, 60*time.Second)
			deep := 64
			if kind == "msg-overlap" {
				deep = 90 // Fibonacci growth: 1.6^90
			}
			c.fanOut(kind, deep, 30*time.Second)
		}
	}
	// order: the cheap explicit families first, the large exhaustive spaces last (a time budget then cuts the tail)
	// (c) explicit table corruptions
	for _, in := range tableCorruptions() {
		if next() {
			c.try(in, "table corruption")
			nontrivial++
		}
	}

	// (d) size-field arithmetic boundaries: declared sizes around 2^31, 2^32 and 2^32-(the other size), every width
	nArith := 0
	for _, in := range sizeArithmetic() {
		if next() {
			c.try(in, "size-field arithmetic boundary")
			nontrivial++
			nArith++
		}
	}
	r.Bounds["size_arithmetic_inputs"] = nArith

	// (b) structure-aware mutation of every small valid encoding
	mutNodes := 2
	trailerNodes := 3
	forEachTree(&vlib.Args{NShards: 1}, trailerNodes, 0, false, func(_ int64, tc treeCase) {
		enc := refcodec.Encode(nil, tc.Node)
		if len(enc) > 24 || len(enc) == 0 {
			return
		}
		if !c.seen.AddBytes(enc) {
			return
		}
		full := tc.Node.Size() <= mutNodes || a.Thorough()
		m := append([]byte{}, enc...)
		if full {
			// every single byte position x all 256 values
			for pos := 0; pos < len(enc); pos++ {
				if !next() {
					continue
				}
				for v := 0; v < 256; v++ {
					if byte(v) == enc[pos] {
						continue
					}
					m[pos] = byte(v)
					c.try(m, "1-byte mutation of "+tc.Node.String())
					nontrivial++
				}
				m[pos] = enc[pos]
				if idx%499 == 0 {
					r.Sample(14, map[string]string{"valid": vlib.Hex(enc), "tree": tc.Node.String(), "mutation": fmt.Sprintf("byte %d x 256 values", pos)})
				}
			}
		}
		lo := len(enc) - 6
		if !full {
			// quick tier, 3-node trees: every single trailer position x boundary byte values
			if lo < 0 {
				lo = 0
			}
			for p1 := lo; p1 < len(enc); p1++ {
				if !next() {
					continue
				}
				for _, v1 := range boundaryBytes {
					m[p1] = v1
					c.try(m, "1-byte trailer mutation of "+tc.Node.String())
					nontrivial++
				}
				m[p1] = enc[p1]
			}
			return
		}
		// every pair of positions in the trailer (last 6 bytes) x boundary byte values
		if lo < 0 {
			lo = 0
		}
		for p1 := lo; p1 < len(enc); p1++ {
			for p2 := p1 + 1; p2 < len(enc); p2++ {
				if !next() {
					continue
				}
				for _, v1 := range boundaryBytes {
					for _, v2 := range boundaryBytes {
						m[p1], m[p2] = v1, v2
						c.try(m, "2-byte trailer mutation of "+tc.Node.String())
						nontrivial++
					}
				}
				m[p1], m[p2] = enc[p1], enc[p2]
			}
		}
		// truncations (prefix removed) and extensions (hostile prefix)
		if next() {
			for k := 1; k < len(enc); k++ {
				c.try(enc[k:], "truncated front of "+tc.Node.String())
			}
			for _, pre := range [][]byte{{0xff}, {0xfd}, {0xfe, 0xff}, {0x00}} {
				c.try(append(append([]byte{}, pre...), enc...), "prefixed "+tc.Node.String())
			}
		}
	})

	// (a) ALL byte strings of length 0..2 (quick) / 0..3 (thorough)
	maxLen := 2
	if a.Thorough() {
		maxLen = 3
	}
	buf := make([]byte, 0, 4)
	var rec func(n int)
	rec = func(n int) {
		if next() {
			c.try(buf, "exhaustive short input")
			if len(buf) > 0 {
				nontrivial++
			}
			if idx%9973 == 1 {
				r.Sample(6, map[string]string{"input": vlib.Hex(buf), "origin": "all byte strings"})
			}
		}
		if n == maxLen {
			return
		}
		for v := 0; v < 256; v++ {
			buf = append(buf, byte(v))
			rec(n + 1)
			buf = buf[:len(buf)-1]
		}
	}
	idxBeforeA := idx
	rec(0)
	exhaustiveShort := idx - idxBeforeA

	r.Distinct = nontrivial
	r.Bounds["short_inputs_space"] = exhaustiveShort
	r.Bounds["short_input_max_len"] = maxLen
	r.Bounds["distinct_valid_encodings_mutated"] = c.seen.Len()
	r.Outcomes["surface calls"] = c.sf.calls
	r.Rule = fmt.Sprintf("(a) ALL byte strings of length 0..%d; (b) for every distinct valid encoding (<=24 bytes) of the <=%d-node tree space: every single trailer position x 8 boundary byte values, every front truncation, 4 hostile prefixes, and (trees <=%d nodes in quick; all in thorough) every single-byte position x all 256 values plus every 2-position mutation of the 6-byte trailer over 8x8 boundary byte values; (c) explicit table corruptions (non-monotonic, beyond data size, unsorted, duplicate tags, small and big tables with 1..3 entries); (d) size-field arithmetic boundaries: bytes/string/struct/list/message trailers whose declared data and table sizes range over {0,1,real,real+-1,0xfc,0xfd,0xffff,0x10000,2^31-2..2^31+1,2^32-16..2^32-1,2^32-(other size)+-2}, each in every compact-int width (1/3/5/9 bytes). (e) nesting depth: a message nested 1000 / 100000 levels deep, and 400000 levels under a 64 MiB stack limit (thorough: 2.5 million levels under the default limit), parsed in a child process. Each input is placed flush against the end and against the start of a PROT_NONE-guarded region and driven through the whole public read surface (Parse*/Open*/Decode*/tables/typed accessors/typed list wrappers/generated struct decode). non-trivial = non-empty and not a valid encoding itself", maxLen, trailerNodes, mutNodes)
	r.Write(a)
}

// sizeArithmetic builds trailers whose declared sizes sit on the boundaries of 32-bit (and int) arithmetic, alone and
// in combination (data size + table size wrapping around 2^32), in every compact-int width.
func sizeArithmetic() [][]byte {
	var out [][]byte
	widths := func(v uint64) [][]byte {
		var w [][]byte
		if v <= 0xfc {
			w = append(w, []byte{byte(v)})
		}
		if v <= 0xffff {
			w = append(w, []byte{byte(v >> 8), byte(v), 0xfd})
		}
		if v <= 0xffffffff {
			w = append(w, []byte{byte(v >> 24), byte(v >> 16), byte(v >> 8), byte(v), 0xfe})
		}
		w = append(w, []byte{byte(v >> 56), byte(v >> 48), byte(v >> 40), byte(v >> 32), byte(v >> 24), byte(v >> 16), byte(v >> 8), byte(v), 0xff})
		return w
	}
	sizes := func(real, other uint64) []uint64 {
		set := map[uint64]bool{}
		var l []uint64
		add := func(v uint64) {
			if !set[v] {
				set[v] = true
				l = append(l, v)
			}
		}
		for _, v := range []uint64{real, 0, 1, real - 1, real + 1, 0xfc, 0xfd, 0xff, 0x100, 0xffff, 0x10000, 0x7ffffffe, 0x7fffffff, 0x80000000, 0x80000001, 1 << 32, 1<<32 + 6, 1<<63 - 1, 1 << 63, 1<<64 - 1} {
			add(v)
		}
		for k := uint64(0); k < 16; k++ {
			add(0xffffffff - k)
		}
		for d := int64(-2); d <= 2; d++ {
			add(uint64(int64(1<<32-other) + d))
			add(uint64(int64(1<<31-other) + d))
		}
		return l
	}
	data := []byte{1, 2, 7, 3, 0xfc, 20} // true, false, byte(7), uint16(0xfc): values ending at 1,2,4,6
	// single-size kinds
	for _, typ := range []byte{50, 60, 90} {
		body := data
		if typ == 60 {
			body = []byte{'a', 'b', 'c', 'd', 'e', 0}
		}
		for _, sz := range sizes(uint64(len(body)), 0) {
			for _, w := range widths(sz) {
				b := append(append([]byte{}, body...), w...)
				out = append(out, append(b, typ))
			}
		}
	}
	// two-size kinds: list / message, small / big, tables with one and two entries
	for _, typ := range []byte{70, 71, 80, 81} {
		for _, ends := range [][]int{{6}, {2, 6}} {
			var table []byte
			for i, o := range ends {
				switch typ {
				case 70:
					table = append(table, byte(o>>8), byte(o))
				case 71:
					table = append(table, 0, 0, byte(o>>8), byte(o))
				case 80:
					table = append(table, byte(i+1), byte(o>>8), byte(o))
				case 81:
					table = append(table, 0, byte(i+1), 0, 0, byte(o>>8), byte(o))
				}
			}
			dreal, treal := uint64(len(data)), uint64(len(table))
			for _, dsz := range sizes(dreal, treal) {
				tszs := []uint64{treal}
				if dsz == dreal || dsz >= 0x7ffffffe {
					tszs = sizes(treal, dsz&0xffffffff)
				}
				for _, tsz := range tszs {
					for _, dw := range widths(dsz) {
						for _, tw := range widths(tsz) {
							if tsz != treal && dsz != dreal && len(dw) != 5 && len(tw) != 5 {
								continue // both hostile: only the natural 5-byte width pair
							}
							b := append(append([]byte{}, data...), table...)
							b = append(append(b, dw...), tw...)
							out = append(out, append(b, typ))
						}
					}
				}
			}
		}
	}
	return out
}

// tableCorruptions builds list and message encodings whose offset tables are corrupted in every listed way.
func tableCorruptions() [][]byte {
	var out [][]byte
	rv := func(v int) []byte {
		switch {
		case v <= 0xfc:
			return []byte{byte(v)}
		case v <= 0xffff:
			return []byte{byte(v >> 8), byte(v), 0xfd}
		}
		return []byte{byte(v >> 24), byte(v >> 16), byte(v >> 8), byte(v), 0xfe}
	}
	data := []byte{1, 2, 7, 3, 0xfc, 20} // true, false, byte(7), uint16(0xfc): 4 values ending at 1,2,4,6
	offsSets := [][]int{{1}, {2, 1}, {6, 4}, {1, 2, 4}, {4, 2, 1}, {1, 1, 1}, {7}, {1, 9}, {0}, {0, 0}, {6, 6, 6}, {255, 1}, {65535}, {1, 65535, 2}, {3}, {5}, {2, 3, 5}}
	for _, big := range []bool{false, true} {
		for _, offs := range offsSets {
			// list
			var table []byte
			for _, o := range offs {
				if big {
					table = append(table, byte(o>>24), byte(o>>16), byte(o>>8), byte(o))
				} else {
					table = append(table, byte(o>>8), byte(o))
				}
			}
			for _, dsz := range []int{len(data), len(data) - 1, len(data) + 1, 0, 255} {
				b := append(append([]byte{}, data...), table...)
				b = append(b, rv(dsz)...)
				b = append(b, rv(len(table))...)
				if big {
					b = append(b, 71)
				} else {
					b = append(b, 70)
				}
				out = append(out, b)
			}
			// message: tag sets sorted / unsorted / duplicate
			for _, tags := range [][]int{{1, 2, 3}, {3, 2, 1}, {2, 2, 2}, {1, 1, 2}, {0, 0, 0}, {255, 256, 65535}, {65535, 1, 2}} {
				var mt []byte
				for i, o := range offs {
					tg := tags[i%len(tags)]
					if big {
						mt = append(mt, byte(tg>>8), byte(tg), byte(o>>24), byte(o>>16), byte(o>>8), byte(o))
					} else {
						mt = append(mt, byte(tg), byte(o>>8), byte(o))
					}
				}
				for _, dsz := range []int{len(data), len(data) - 1, len(data) + 1, 0} {
					b := append(append([]byte{}, data...), mt...)
					b = append(b, rv(dsz)...)
					b = append(b, rv(len(mt))...)
					if big {
						b = append(b, 81)
					} else {
						b = append(b, 80)
					}
					out = append(out, b)
				}
			}
		}
	}
	_ = tree.Bool
	return out
}

// shortEntry keeps the last two components of an accessor path so that one defect has few signatures.
func shortEntry(e string) string {
	n := 0
	for i := len(e) - 1; i >= 0; i-- {
		if e[i] == '>' {
			n++
			if n == 2 {
				return e[i+1:]
			}
		}
	}
	return e
}
