// Package vlib: shared worker-side plumbing for the /verif explorers.
// A worker enumerates its shard of a bounded space, records violations and coverage, and writes one JSON
// result file; the orchestrator (/verif/lib/vcheck.py) merges shards, applies known_findings.json and writes
// the evidence file.
package vlib

import (
	"encoding/hex"
	"encoding/json"
	"flag"
	"fmt"
	"hash/fnv"
	"os"
	"runtime/debug"
	"sort"
	"time"
)

type Violation struct {
	Sig    string `json:"sig"`    // stable signature: what fails (used for known-finding matching)
	Desc   string `json:"desc"`   // human readable: observed vs expected
	Replay any    `json:"replay"` // everything needed to re-run exactly this case
}

type Result struct {
	Property     string           `json:"property"`
	Part         string           `json:"part"`
	Shard        int              `json:"shard"`
	NShards      int              `json:"nshards"`
	Evaluations  int64            `json:"evaluations"`
	Distinct     int64            `json:"distinct"`
	States       int64            `json:"states"`
	Transitions  int64            `json:"transitions"`
	Traces       int64            `json:"traces"`
	Exhaustive   bool             `json:"exhaustive"`
	Rule         string           `json:"rule"`
	Bounds       map[string]any   `json:"bounds,omitempty"`
	Outcomes     map[string]int64 `json:"outcomes,omitempty"`
	Samples      []any            `json:"samples"`
	Notes        []string         `json:"notes,omitempty"`
	Violations   []Violation      `json:"violations"`
	ViolationsN  int64            `json:"violations_total"`
	Wall         float64          `json:"wall_s"`
	start        time.Time
	sigSeen      map[string]int
	MaxPerSig    int `json:"-"`
	MaxViolation int `json:"-"`
}

type Args struct {
	Tier    string
	Shard   int
	NShards int
	Out     string
	Replay  string
	Seed    int64
	Part    string
	// Budget: wall-clock seconds after which the worker stops taking new cases (0: none). A run that hits it
	// reports exhaustive=false and how far it got; it is not a violation.
	Budget   int
	started  time.Time
	cut      bool
	cutAt    int64
	mineTick int
}

func ParseArgs(args []string) *Args {
	fs := flag.NewFlagSet("worker", flag.ExitOnError)
	a := &Args{}
	fs.StringVar(&a.Tier, "tier", "quick", "quick|thorough")
	fs.IntVar(&a.Shard, "shard", 0, "shard index")
	fs.IntVar(&a.NShards, "nshards", 1, "number of shards")
	fs.StringVar(&a.Out, "out", "", "result file")
	fs.StringVar(&a.Replay, "replay", "", "replay file")
	fs.Int64Var(&a.Seed, "seed", 0, "seed (permutes order only)")
	fs.StringVar(&a.Part, "part", "", "sub-part of the check")
	fs.IntVar(&a.Budget, "budget", 0, "wall-clock budget in seconds (0: none)")
	fs.Parse(args)
	return a
}

func (a *Args) Thorough() bool { return a.Tier == "thorough" }

// Mine reports whether case index i belongs to this shard.
func (a *Args) Mine(i int64) bool {
	if a.Budget > 0 {
		if a.cut {
			return false
		}
		a.mineTick++
		if a.started.IsZero() {
			a.started = time.Now()
		}
		if a.mineTick&255 == 0 {
			if time.Since(a.started) > time.Duration(a.Budget)*time.Second {
				a.cut, a.cutAt = true, i
				return false
			}
		}
	}
	if a.NShards <= 1 {
		return true
	}
	return int((i+a.Seed)%int64(a.NShards)) == a.Shard
}

// Expired reports (and latches) that the time budget is used up; at is recorded as the position reached.
func (a *Args) Expired(at int64) bool {
	if a.Budget <= 0 {
		return false
	}
	if a.cut {
		return true
	}
	if a.started.IsZero() {
		a.started = time.Now()
	}
	if time.Since(a.started) > time.Duration(a.Budget)*time.Second {
		a.cut, a.cutAt = true, at
		return true
	}
	return false
}

func NewResult(prop string, a *Args) *Result {
	return &Result{Property: prop, Part: a.Part, Shard: a.Shard, NShards: a.NShards, Exhaustive: true,
		start: time.Now(), sigSeen: map[string]int{}, Outcomes: map[string]int64{}, Bounds: map[string]any{},
		MaxPerSig: 2, MaxViolation: 200}
}

func (r *Result) Violate(sig, desc string, replay any) {
	r.ViolationsN++
	r.sigSeen[sig]++
	if r.sigSeen[sig] > r.MaxPerSig || len(r.Violations) >= r.MaxViolation {
		return
	}
	r.Violations = append(r.Violations, Violation{sig, desc, replay})
}

func (r *Result) Sample(max int, s any) {
	if len(r.Samples) < max {
		r.Samples = append(r.Samples, s)
	}
}

func (r *Result) Outcome(k string) { r.Outcomes[k]++ }

func (r *Result) Note(f string, a ...any) { r.Notes = append(r.Notes, fmt.Sprintf(f, a...)) }

func (r *Result) Write(a *Args) {
	r.Wall = time.Since(r.start).Seconds()
	if a.cut {
		r.Exhaustive = false
		r.Bounds["stopped_by_time_budget_at_case_index"] = a.cutAt
		r.Bounds["time_budget_s"] = a.Budget
	}
	if r.Samples == nil {
		r.Samples = []any{}
	}
	if r.Violations == nil {
		r.Violations = []Violation{}
	}
	b, err := json.Marshal(r)
	if err != nil {
		fmt.Fprintln(os.Stderr, "vlib: marshal:", err)
		os.Exit(2)
	}
	if a.Out == "" {
		os.Stdout.Write(b)
		os.Stdout.Write([]byte("\n"))
		return
	}
	if err := os.WriteFile(a.Out+".tmp", b, 0o644); err != nil {
		fmt.Fprintln(os.Stderr, "vlib: write:", err)
		os.Exit(2)
	}
	os.Rename(a.Out+".tmp", a.Out)
}

// Catch runs f and returns the recovered panic (with stack) if any.
func Catch(f func()) (p any, stack string) {
	defer func() {
		if e := recover(); e != nil {
			p = e
			stack = string(debug.Stack())
		}
	}()
	f()
	return nil, ""
}

func Hex(b []byte) string { return hex.EncodeToString(b) }

func UnHex(s string) []byte {
	b, err := hex.DecodeString(s)
	if err != nil {
		panic(err)
	}
	return b
}

func Hash(s string) uint64 {
	h := fnv.New64a()
	h.Write([]byte(s))
	return h.Sum64()
}

// Distinct counts distinct keys by 64-bit hash.
type Distinct struct{ m map[uint64]struct{} }

func NewDistinct() *Distinct { return &Distinct{m: map[uint64]struct{}{}} }
func (d *Distinct) Add(s string) bool {
	h := Hash(s)
	if _, ok := d.m[h]; ok {
		return false
	}
	d.m[h] = struct{}{}
	return true
}
func (d *Distinct) AddBytes(b []byte) bool {
	h := fnv.New64a()
	h.Write(b)
	k := h.Sum64()
	if _, ok := d.m[k]; ok {
		return false
	}
	d.m[k] = struct{}{}
	return true
}
func (d *Distinct) Len() int64 { return int64(len(d.m)) }

func SortedKeys[V any](m map[string]V) []string {
	ks := make([]string, 0, len(m))
	for k := range m {
		ks = append(ks, k)
	}
	sort.Strings(ks)
	return ks
}

// LoadReplay reads the replay object of a violation artefact written by the orchestrator.
func LoadReplay(path string, into any) {
	b, err := os.ReadFile(path)
	if err != nil {
		fmt.Fprintln(os.Stderr, "replay:", err)
		os.Exit(2)
	}
	var art struct {
		Replay json.RawMessage `json:"replay"`
	}
	if err := json.Unmarshal(b, &art); err != nil || art.Replay == nil {
		fmt.Fprintln(os.Stderr, "replay: bad artefact", err)
		os.Exit(2)
	}
	if err := json.Unmarshal(art.Replay, into); err != nil {
		fmt.Fprintln(os.Stderr, "replay: bad replay object", err)
		os.Exit(2)
	}
}
