package writer

import (
	"fmt"
	"hash/fnv"
	"strings"
)

// VDump returns a canonical dump of the complete writer state (verification harness, injected by overlay).
func VDump(x Writer) string {
	w, ok := x.(*writer)
	if !ok || w == nil {
		return "nil-writer"
	}
	var sb strings.Builder
	if w.err != nil {
		fmt.Fprintf(&sb, "err=%q;", w.err.Error())
	}
	s := w.writerState
	if s == nil {
		sb.WriteString("state=nil")
		return sb.String()
	}
	fmt.Fprintf(&sb, "rs=%v,rw=%v;", s.releaseState, s.releaseWriter)
	if s.buf == nil {
		sb.WriteString("buf=nil;")
	} else {
		h := fnv.New64a()
		h.Write(s.buf.Bytes())
		fmt.Fprintf(&sb, "buf=%d:%x;", s.buf.Len(), h.Sum64())
	}
	sb.WriteString("stack=")
	for _, e := range s.stack.stack {
		fmt.Fprintf(&sb, "(%d,%d,%d)", e.type_, e.start, e.tableStart)
	}
	sb.WriteString(";el=")
	for _, e := range s.elements.stack {
		fmt.Fprintf(&sb, "%d,", e.Offset)
	}
	sb.WriteString(";fl=")
	for _, f := range s.fields.stack {
		fmt.Fprintf(&sb, "%d:%d,", f.Tag, f.Offset)
	}
	return sb.String()
}

// VStateNil reports whether the writer's pooled state has been released.
func VStateNil(x Writer) bool {
	w, ok := x.(*writer)
	return !ok || w == nil || w.writerState == nil
}

// VPoolDrain empties nothing (sync.Pool cannot be drained); kept for symmetry with the scheduler build.
func VPoolDrain() {}

// VHandleNil reports whether a message handle has been ended (its writer pointer set to nil by End/Build).
func VHandleNil(m MessageWriter) bool { return m.w == nil }

// VUnwrapList returns the writer behind a list handle.
func VUnwrapList(l ListWriter) Writer { return l.w }
