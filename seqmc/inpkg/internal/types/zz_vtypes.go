package types

// Verification overlay (injected by go build -overlay, never part of the repository).

// VFieldAtRaw returns the raw slot of the i-th table entry of a message exactly as ParseMessage sees it.
func VFieldAtRaw(m Message, i int) []byte { return m.fieldAt(i) }
