// Package refcodec is an INDEPENDENT implementation of the spec wire layout, written from format.md and the
// constants pinned at commit 554461f. It shares no code with the repository (only package tree, the model).
//
//	value    := body type(1)
//	bool     := 01 | 02                      byte := v 03
//	intN     := rvarint(zigzag(v)) 10|11|12  uintN := rvarint(v) 20|21|22
//	float32  := be32 40                      float64 := be64 41
//	bin64/128/256 := raw bytes 30|31|32
//	bytes    := data rvarint(len) 50         string := data 00 rvarint(len) 60
//	struct   := member values... rvarint(datasize) 90
//	list     := elements... table rvarint(datasize) rvarint(tablesize) 70|71     table entry = end offset be16 | be32
//	message  := fields(write order)... table rvarint(datasize) rvarint(tablesize) 80|81   entry = tag(1) off be16 | tag be16 off be32, sorted by tag
//	rvarint  := v<=0xfc: v | v<=0xffff: be16 fd | v<=0xffffffff: be32 fe | be64 ff       (read from the END)
//	big list iff count>255 or last offset>65535; big message iff any tag>255 or any offset>65535.
package refcodec

import (
	"encoding/binary"
	"errors"
	"fmt"
	"sort"

	"github.com/basecomplextech/spec/zzverif/seqmc/tree"
)

const (
	tTrue, tFalse, tByte           = 1, 2, 3
	tInt16, tInt32, tInt64         = 10, 11, 12
	tUint16, tUint32, tUint64      = 20, 21, 22
	tBin64, tBin128, tBin256       = 30, 31, 32
	tFloat32, tFloat64             = 40, 41
	tBytes, tString                = 50, 60
	tList, tBigList                = 70, 71
	tMessage, tBigMessage, tStruct = 80, 81, 90
)

func rvarint(b []byte, v uint64) []byte {
	switch {
	case v <= 0xfc:
		return append(b, byte(v))
	case v <= 0xffff:
		return append(binary.BigEndian.AppendUint16(b, uint16(v)), 0xfd)
	case v <= 0xffffffff:
		return append(binary.BigEndian.AppendUint32(b, uint32(v)), 0xfe)
	}
	return append(binary.BigEndian.AppendUint64(b, v), 0xff)
}

func zigzag(v int64) uint64 { return uint64(v<<1) ^ uint64(v>>63) }
func zigzag32(v int32) uint64 {
	return uint64(uint32(v<<1) ^ uint32(v>>31))
}

// Encode appends the encoding of n to b.
func Encode(b []byte, n *tree.Node) []byte {
	switch n.Kind {
	case tree.Bool:
		if n.U != 0 {
			return append(b, tTrue)
		}
		return append(b, tFalse)
	case tree.Byte:
		return append(b, byte(n.U), tByte)
	case tree.Int16:
		return append(rvarint(b, zigzag32(int32(int16(n.U)))), tInt16)
	case tree.Int32:
		return append(rvarint(b, zigzag32(int32(n.U))), tInt32)
	case tree.Int64:
		return append(rvarint(b, zigzag(int64(n.U))), tInt64)
	case tree.Uint16:
		return append(rvarint(b, uint64(uint16(n.U))), tUint16)
	case tree.Uint32:
		return append(rvarint(b, uint64(uint32(n.U))), tUint32)
	case tree.Uint64:
		return append(rvarint(b, n.U), tUint64)
	case tree.Float32:
		return append(binary.BigEndian.AppendUint32(b, uint32(n.U)), tFloat32)
	case tree.Float64:
		return append(binary.BigEndian.AppendUint64(b, n.U), tFloat64)
	case tree.Bin64:
		return append(append(b, n.B...), tBin64)
	case tree.Bin128:
		return append(append(b, n.B...), tBin128)
	case tree.Bin256:
		return append(append(b, n.B...), tBin256)
	case tree.Bytes:
		b = append(b, n.B...)
		return append(rvarint(b, uint64(len(n.B))), tBytes)
	case tree.String:
		b = append(b, n.B...)
		b = append(b, 0)
		return append(rvarint(b, uint64(len(n.B))), tString)
	case tree.Struct:
		start := len(b)
		for _, e := range n.Elems {
			b = Encode(b, e)
		}
		return append(rvarint(b, uint64(len(b)-start)), tStruct)
	case tree.List:
		start := len(b)
		offs := make([]uint32, len(n.Elems))
		for i, e := range n.Elems {
			b = Encode(b, e)
			offs[i] = uint32(len(b) - start)
		}
		data := len(b) - start
		big := len(offs) > 255 || (len(offs) > 0 && offs[len(offs)-1] > 0xffff)
		ts := len(b)
		for _, o := range offs {
			if big {
				b = binary.BigEndian.AppendUint32(b, o)
			} else {
				b = binary.BigEndian.AppendUint16(b, uint16(o))
			}
		}
		tsize := len(b) - ts
		b = rvarint(b, uint64(data))
		b = rvarint(b, uint64(tsize))
		if big {
			return append(b, tBigList)
		}
		return append(b, tList)
	case tree.Message:
		start := len(b)
		type ent struct {
			tag uint16
			off uint32
		}
		es := make([]ent, len(n.Fields))
		big := false
		for i, f := range n.Fields {
			b = Encode(b, f.Val)
			es[i] = ent{f.Tag, uint32(len(b) - start)}
			if f.Tag > 255 || es[i].off > 0xffff {
				big = true
			}
		}
		data := len(b) - start
		sort.SliceStable(es, func(i, j int) bool { return es[i].tag < es[j].tag })
		ts := len(b)
		for _, e := range es {
			if big {
				b = binary.BigEndian.AppendUint16(b, e.tag)
				b = binary.BigEndian.AppendUint32(b, e.off)
			} else {
				b = append(b, byte(e.tag))
				b = binary.BigEndian.AppendUint16(b, uint16(e.off))
			}
		}
		tsize := len(b) - ts
		b = rvarint(b, uint64(data))
		b = rvarint(b, uint64(tsize))
		if big {
			return append(b, tBigMessage)
		}
		return append(b, tMessage)
	}
	panic("refcodec: bad kind")
}

var errShort = errors.New("refcodec: truncated")

// AllowDuplicateTags makes Decode tolerate a repeated tag (C12: writing one field twice is misuse whose result
// still has to be well-formed; C01/C08 never produce duplicates and keep this off).
var AllowDuplicateTags = false

func readRvarint(b []byte) (uint64, int, error) {
	if len(b) == 0 {
		return 0, 0, errShort
	}
	f := b[len(b)-1]
	need := 1
	switch f {
	case 0xfd:
		need = 3
	case 0xfe:
		need = 5
	case 0xff:
		need = 9
	}
	if len(b) < need {
		return 0, 0, errShort
	}
	p := b[len(b)-need:]
	switch need {
	case 1:
		return uint64(f), 1, nil
	case 3:
		return uint64(binary.BigEndian.Uint16(p)), 3, nil
	case 5:
		return uint64(binary.BigEndian.Uint32(p)), 5, nil
	}
	return binary.BigEndian.Uint64(p), 9, nil
}

func unzig(u uint64) int64 { return int64(u>>1) ^ -int64(u&1) }

// Decode decodes the value that ENDS at the end of b; returns the node (message fields in tag order), and its size.
// structHint gives the member kinds when a struct is expected (structs are not self-describing about member count,
// but every member is a complete value, so they are decoded back to front until the data size is consumed).
func Decode(b []byte) (*tree.Node, int, error) {
	if len(b) == 0 {
		return nil, 0, errShort
	}
	t := b[len(b)-1]
	body := b[:len(b)-1]
	fixed := func(k tree.Kind, n int) (*tree.Node, int, error) {
		if len(body) < n {
			return nil, 0, errShort
		}
		return tree.B(k, append([]byte{}, body[len(body)-n:]...)), n + 1, nil
	}
	switch t {
	case tTrue:
		return tree.U(tree.Bool, 1), 1, nil
	case tFalse:
		return tree.U(tree.Bool, 0), 1, nil
	case tByte:
		if len(body) < 1 {
			return nil, 0, errShort
		}
		return tree.U(tree.Byte, uint64(body[len(body)-1])), 2, nil
	case tInt16, tInt32, tInt64:
		u, n, err := readRvarint(body)
		if err != nil {
			return nil, 0, err
		}
		k := map[byte]tree.Kind{tInt16: tree.Int16, tInt32: tree.Int32, tInt64: tree.Int64}[t]
		return tree.I(k, unzig(u)), n + 1, nil
	case tUint16, tUint32, tUint64:
		u, n, err := readRvarint(body)
		if err != nil {
			return nil, 0, err
		}
		k := map[byte]tree.Kind{tUint16: tree.Uint16, tUint32: tree.Uint32, tUint64: tree.Uint64}[t]
		return tree.U(k, u), n + 1, nil
	case tFloat32:
		if len(body) < 4 {
			return nil, 0, errShort
		}
		return tree.F32(binary.BigEndian.Uint32(body[len(body)-4:])), 5, nil
	case tFloat64:
		if len(body) < 8 {
			return nil, 0, errShort
		}
		return tree.F64(binary.BigEndian.Uint64(body[len(body)-8:])), 9, nil
	case tBin64:
		return fixed(tree.Bin64, 8)
	case tBin128:
		return fixed(tree.Bin128, 16)
	case tBin256:
		return fixed(tree.Bin256, 32)
	case tBytes, tString:
		sz, n, err := readRvarint(body)
		if err != nil {
			return nil, 0, err
		}
		rest := body[:len(body)-n]
		extra := 0
		k := tree.Bytes
		if t == tString {
			k = tree.String
			if len(rest) < 1 || rest[len(rest)-1] != 0 {
				return nil, 0, errors.New("refcodec: string without NUL terminator")
			}
			rest = rest[:len(rest)-1]
			extra = 1
		}
		if uint64(len(rest)) < sz {
			return nil, 0, errShort
		}
		return tree.B(k, append([]byte{}, rest[len(rest)-int(sz):]...)), 1 + n + extra + int(sz), nil
	case tStruct:
		sz, n, err := readRvarint(body)
		if err != nil {
			return nil, 0, err
		}
		rest := body[:len(body)-n]
		if uint64(len(rest)) < sz {
			return nil, 0, errShort
		}
		data := rest[len(rest)-int(sz):]
		var members []*tree.Node
		for len(data) > 0 {
			m, k, err := Decode(data)
			if err != nil {
				return nil, 0, err
			}
			members = append([]*tree.Node{m}, members...)
			data = data[:len(data)-k]
		}
		return tree.S(members...), 1 + n + int(sz), nil
	case tList, tBigList, tMessage, tBigMessage:
		tsz, n1, err := readRvarint(body)
		if err != nil {
			return nil, 0, err
		}
		rest := body[:len(body)-n1]
		dsz, n2, err := readRvarint(rest)
		if err != nil {
			return nil, 0, err
		}
		rest = rest[:len(rest)-n2]
		if uint64(len(rest)) < tsz+dsz {
			return nil, 0, errShort
		}
		table := rest[len(rest)-int(tsz):]
		data := rest[len(rest)-int(tsz)-int(dsz) : len(rest)-int(tsz)]
		total := 1 + n1 + n2 + int(tsz) + int(dsz)
		big := t == tBigList || t == tBigMessage
		if t == tList || t == tBigList {
			es := 2
			if big {
				es = 4
			}
			if len(table)%es != 0 {
				return nil, 0, errors.New("refcodec: bad list table size")
			}
			cnt := len(table) / es
			if big != (cnt > 255 || (cnt > 0 && lastOff(table, es) > 0xffff)) {
				return nil, 0, fmt.Errorf("refcodec: list form big=%v not canonical for count=%d", big, cnt)
			}
			l := tree.L()
			prev := 0
			for i := 0; i < cnt; i++ {
				var end int
				if big {
					end = int(binary.BigEndian.Uint32(table[i*4:]))
				} else {
					end = int(binary.BigEndian.Uint16(table[i*2:]))
				}
				if end < prev || end > len(data) {
					return nil, 0, errors.New("refcodec: bad list offsets")
				}
				e, k, err := Decode(data[:end])
				if err != nil {
					return nil, 0, err
				}
				if k != end-prev {
					return nil, 0, fmt.Errorf("refcodec: list element %d size %d != slot %d", i, k, end-prev)
				}
				l.Elems = append(l.Elems, e)
				prev = end
			}
			if prev != len(data) {
				return nil, 0, errors.New("refcodec: list data has trailing bytes")
			}
			return l, total, nil
		}
		es := 3
		if big {
			es = 6
		}
		if len(table)%es != 0 {
			return nil, 0, errors.New("refcodec: bad message table size")
		}
		cnt := len(table) / es
		m := tree.M()
		prevTag := -1
		anyBig := false
		type fe struct {
			tag uint16
			end int
		}
		var fes []fe
		for i := 0; i < cnt; i++ {
			var tag uint16
			var end int
			if big {
				tag = binary.BigEndian.Uint16(table[i*6:])
				end = int(binary.BigEndian.Uint32(table[i*6+2:]))
			} else {
				tag = uint16(table[i*3])
				end = int(binary.BigEndian.Uint16(table[i*3+1:]))
			}
			if int(tag) < prevTag || (int(tag) == prevTag && !AllowDuplicateTags) {
				return nil, 0, errors.New("refcodec: message table not strictly sorted by tag")
			}
			prevTag = int(tag)
			if tag > 255 || end > 0xffff {
				anyBig = true
			}
			if end > len(data) {
				return nil, 0, errors.New("refcodec: bad field offset")
			}
			fes = append(fes, fe{tag, end})
		}
		if big != anyBig {
			return nil, 0, fmt.Errorf("refcodec: message form big=%v not canonical", big)
		}
		// field extents: each field value ends at its offset; sizes must tile the data exactly
		covered := 0
		for _, f := range fes {
			v, k, err := Decode(data[:f.end])
			if err != nil {
				return nil, 0, err
			}
			covered += k
			m.Fields = append(m.Fields, tree.Field{Tag: f.tag, Val: v})
		}
		if covered != len(data) {
			return nil, 0, fmt.Errorf("refcodec: message fields cover %d of %d data bytes", covered, len(data))
		}
		return m, total, nil
	}
	return nil, 0, fmt.Errorf("refcodec: unknown type code %d", t)
}

func lastOff(table []byte, es int) uint32 {
	if es == 4 {
		return binary.BigEndian.Uint32(table[len(table)-4:])
	}
	return uint32(binary.BigEndian.Uint16(table[len(table)-2:]))
}

// Equal compares two trees structurally; message fields are compared as tag->value maps (order-insensitive),
// floats by bits (NaN payloads included: the wire carries bits).
func Equal(a, b *tree.Node) bool {
	if a.Kind != b.Kind {
		return false
	}
	switch a.Kind {
	case tree.List, tree.Struct:
		if len(a.Elems) != len(b.Elems) {
			return false
		}
		for i := range a.Elems {
			if !Equal(a.Elems[i], b.Elems[i]) {
				return false
			}
		}
		return true
	case tree.Message:
		if len(a.Fields) != len(b.Fields) {
			return false
		}
		for _, f := range a.Fields {
			found := false
			for _, g := range b.Fields {
				if g.Tag == f.Tag {
					if !Equal(f.Val, g.Val) {
						return false
					}
					found = true
				}
			}
			if !found {
				return false
			}
		}
		return true
	case tree.Bin64, tree.Bin128, tree.Bin256, tree.Bytes, tree.String:
		return string(a.B) == string(b.B)
	case tree.Bool:
		return (a.U != 0) == (b.U != 0)
	case tree.Byte:
		return byte(a.U) == byte(b.U)
	case tree.Int16, tree.Uint16:
		return uint16(a.U) == uint16(b.U)
	case tree.Int32, tree.Uint32, tree.Float32:
		return uint32(a.U) == uint32(b.U)
	}
	return a.U == b.U
}
