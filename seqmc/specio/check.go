package specio

import (
	"bytes"
	"fmt"
	"github.com/basecomplextech/baselibrary/alloc"
	"github.com/basecomplextech/baselibrary/buffer"
	"math"
	"sort"

	"github.com/basecomplextech/spec"
	"github.com/basecomplextech/spec/zzverif/seqmc/tree"
)

// wire type codes as pinned (duplicated on purpose: the check must not follow a renumbering)
const (
	TTrue, TFalse, TByte                            = 1, 2, 3
	TInt16, TInt32, TInt64                          = 10, 11, 12
	TUint16, TUint32, TUint64                       = 20, 21, 22
	TBin64, TBin128, TBin256                        = 30, 31, 32
	TFloat32, TFloat64                              = 40, 41
	TBytes, TString                                 = 50, 60
	TList, TBigList, TMessage, TBigMessage, TStruct = 70, 71, 80, 81, 90
)

// CheckRoot verifies that b parses completely and reads back as n through every accessor.
func CheckRoot(b []byte, n *tree.Node) error {
	v, k, err := spec.ParseValue(b)
	if err != nil {
		return fmt.Errorf("ParseValue: %v", err)
	}
	if k != len(b) {
		return fmt.Errorf("ParseValue consumed %d of %d bytes", k, len(b))
	}
	if len(v) != len(b) {
		return fmt.Errorf("ParseValue returned %d bytes of %d", len(v), len(b))
	}
	if err := Check(v, n, "root"); err != nil {
		return err
	}
	// root-level typed parsers
	switch n.Kind {
	case tree.List:
		l, k, err := spec.ParseList(b)
		if err != nil || k != len(b) || l.Len() != len(n.Elems) {
			return fmt.Errorf("ParseList: n=%d len=%d err=%v", k, l.Len(), err)
		}
	case tree.Message:
		m, k, err := spec.ParseMessage(b)
		if err != nil || k != len(b) || m.Fields() != len(n.Fields) {
			return fmt.Errorf("ParseMessage: n=%d fields=%d err=%v", k, m.Fields(), err)
		}
	}
	return nil
}

func wantType(n *tree.Node) []byte {
	switch n.Kind {
	case tree.Bool:
		if n.U != 0 {
			return []byte{TTrue}
		}
		return []byte{TFalse}
	case tree.Byte:
		return []byte{TByte}
	case tree.Int16:
		return []byte{TInt16}
	case tree.Int32:
		return []byte{TInt32}
	case tree.Int64:
		return []byte{TInt64}
	case tree.Uint16:
		return []byte{TUint16}
	case tree.Uint32:
		return []byte{TUint32}
	case tree.Uint64:
		return []byte{TUint64}
	case tree.Float32:
		return []byte{TFloat32}
	case tree.Float64:
		return []byte{TFloat64}
	case tree.Bin64:
		return []byte{TBin64}
	case tree.Bin128:
		return []byte{TBin128}
	case tree.Bin256:
		return []byte{TBin256}
	case tree.Bytes:
		return []byte{TBytes}
	case tree.String:
		return []byte{TString}
	case tree.List:
		return []byte{TList, TBigList}
	case tree.Message:
		return []byte{TMessage, TBigMessage}
	}
	return []byte{TStruct}
}

// Check compares a value with the model node through the typed accessors.
func Check(v spec.Value, n *tree.Node, path string) error {
	typ := byte(v.Type())
	if bytes.IndexByte(wantType(n), typ) < 0 {
		return fmt.Errorf("%s: type code %d, want one of %v (%v)", path, typ, wantType(n), n.Kind)
	}
	// size probe / open must delimit exactly this value
	if t2, k, err := spec.DecodeTypeSize(v); err != nil || k != len(v) || byte(t2) != typ {
		return fmt.Errorf("%s: DecodeTypeSize type=%d n=%d (len %d) err=%v", path, t2, k, len(v), err)
	}
	switch n.Kind {
	case tree.Bool:
		got, err := v.BoolErr()
		if err != nil || got != (n.U != 0) || v.Bool() != got {
			return fmt.Errorf("%s: bool got=%v err=%v", path, got, err)
		}
	case tree.Byte:
		got, err := v.ByteErr()
		if err != nil || got != byte(n.U) || v.Byte() != got {
			return fmt.Errorf("%s: byte got=%v err=%v", path, got, err)
		}
	case tree.Int16:
		got, err := v.Int16Err()
		if err != nil || got != int16(n.U) || v.Int16() != got || v.Int64() != int64(got) {
			return fmt.Errorf("%s: int16 got=%v want=%v err=%v", path, got, int16(n.U), err)
		}
	case tree.Int32:
		got, err := v.Int32Err()
		if err != nil || got != int32(n.U) || v.Int32() != got || v.Int64() != int64(got) {
			return fmt.Errorf("%s: int32 got=%v want=%v err=%v", path, got, int32(n.U), err)
		}
	case tree.Int64:
		got, err := v.Int64Err()
		if err != nil || got != int64(n.U) || v.Int64() != got {
			return fmt.Errorf("%s: int64 got=%v want=%v err=%v", path, got, int64(n.U), err)
		}
	case tree.Uint16:
		got, err := v.Uint16Err()
		if err != nil || got != uint16(n.U) || v.Uint16() != got || v.Uint64() != uint64(got) {
			return fmt.Errorf("%s: uint16 got=%v want=%v err=%v", path, got, uint16(n.U), err)
		}
	case tree.Uint32:
		got, err := v.Uint32Err()
		if err != nil || got != uint32(n.U) || v.Uint32() != got || v.Uint64() != uint64(got) {
			return fmt.Errorf("%s: uint32 got=%v want=%v err=%v", path, got, uint32(n.U), err)
		}
	case tree.Uint64:
		got, err := v.Uint64Err()
		if err != nil || got != n.U || v.Uint64() != got {
			return fmt.Errorf("%s: uint64 got=%v want=%v err=%v", path, got, n.U, err)
		}
	case tree.Float32:
		got, err := v.Float32Err()
		if err != nil || !sameF32(got, math.Float32frombits(uint32(n.U))) {
			return fmt.Errorf("%s: float32 got=%08x want=%08x err=%v", path, math.Float32bits(got), uint32(n.U), err)
		}
	case tree.Float64:
		got, err := v.Float64Err()
		if err != nil || math.Float64bits(got) != n.U {
			return fmt.Errorf("%s: float64 got=%016x want=%016x err=%v", path, math.Float64bits(got), n.U, err)
		}
	case tree.Bin64:
		got, err := v.Bin64Err()
		if err != nil || got != b64(n) || v.Bin64() != got {
			return fmt.Errorf("%s: bin64 got=%v err=%v", path, got, err)
		}
	case tree.Bin128:
		got, err := v.Bin128Err()
		if err != nil || got != b128(n) || v.Bin128() != got {
			return fmt.Errorf("%s: bin128 got=%v err=%v", path, got, err)
		}
	case tree.Bin256:
		got, err := v.Bin256Err()
		if err != nil || got != b256(n) || v.Bin256() != got {
			return fmt.Errorf("%s: bin256 got=%v err=%v", path, got, err)
		}
	case tree.Bytes:
		got, err := v.BytesErr()
		if err != nil || !bytes.Equal(got, n.B) || !bytes.Equal(v.Bytes(), n.B) {
			return fmt.Errorf("%s: bytes got len=%d want len=%d err=%v", path, len(got), len(n.B), err)
		}
	case tree.String:
		got, err := v.StringErr()
		if err != nil || string(got) != string(n.B) || string(v.String()) != string(n.B) {
			return fmt.Errorf("%s: string got len=%d want len=%d err=%v", path, len(got), len(n.B), err)
		}
	case tree.Struct:
		return checkStruct(v, n, path)
	case tree.List:
		l, err := v.ListErr()
		if err != nil {
			return fmt.Errorf("%s: ListErr: %v", path, err)
		}
		return CheckList(l, n, path)
	case tree.Message:
		m, err := v.MessageErr()
		if err != nil {
			return fmt.Errorf("%s: MessageErr: %v", path, err)
		}
		return CheckMessage(m, n, path)
	}
	return nil
}

func sameF32(a, b float32) bool {
	if a != a && b != b {
		return true
	}
	return math.Float32bits(a) == math.Float32bits(b)
}

func checkStruct(v spec.Value, n *tree.Node, path string) error {
	dataSize, size, err := spec.DecodeStruct(v)
	if err != nil || size != len(v) {
		return fmt.Errorf("%s: DecodeStruct size=%d (len %d) err=%v", path, size, len(v), err)
	}
	b := []byte(v[:len(v)-(size-dataSize)])
	if len(b) != dataSize {
		return fmt.Errorf("%s: struct data %d != %d", path, len(b), dataSize)
	}
	for i := len(n.Elems) - 1; i >= 0; i-- {
		mv, k, err := spec.ParseValue(b)
		if err != nil {
			return fmt.Errorf("%s.%d: struct member parse: %v", path, i, err)
		}
		if err := Check(mv, n.Elems[i], fmt.Sprintf("%s.%d", path, i)); err != nil {
			return err
		}
		b = b[:len(b)-k]
	}
	if len(b) != 0 {
		return fmt.Errorf("%s: struct has %d unread bytes", path, len(b))
	}
	return nil
}

func CheckList(l spec.List, n *tree.Node, path string) error {
	if l.Len() != len(n.Elems) {
		return fmt.Errorf("%s: list Len=%d want %d", path, l.Len(), len(n.Elems))
	}
	if l.Empty() != (len(n.Elems) == 0) {
		return fmt.Errorf("%s: list Empty=%v with %d elements", path, l.Empty(), len(n.Elems))
	}
	for i, e := range n.Elems {
		ev := l.Get(i)
		if !bytes.Equal(ev, l.GetBytes(i)) {
			return fmt.Errorf("%s[%d]: Get and GetBytes differ", path, i)
		}
		if err := Check(ev, e, fmt.Sprintf("%s[%d]", path, i)); err != nil {
			return err
		}
	}
	// clone must read the same
	if len(n.Elems) > 0 && len(n.Elems) <= 4 {
		c := l.Clone()
		if !bytes.Equal(c.Raw(), l.Raw()) || c.Len() != l.Len() {
			return fmt.Errorf("%s: list Clone differs", path)
		}
		c2 := l.CloneTo(make([]byte, 0, 3))
		if !bytes.Equal(c2.Raw(), l.Raw()) || c2.Len() != l.Len() {
			return fmt.Errorf("%s: list CloneTo differs", path)
		}
	}
	return checkTypedList(l, n, path)
}

func checkTypedList(l spec.List, n *tree.Node, path string) error {
	if len(n.Elems) == 0 {
		return nil
	}
	k := n.Elems[0].Kind
	for _, e := range n.Elems {
		if e.Kind != k {
			return nil
		}
	}
	switch k {
	case tree.Int32:
		vl, sz, err := spec.ParseValueList(l.Raw(), spec.DecodeInt32)
		if err != nil || sz != len(l.Raw()) {
			return fmt.Errorf("%s: ParseValueList: %v", path, err)
		}
		vals := vl.Values()
		for i, e := range n.Elems {
			if vals[i] != int32(e.U) || vl.Get(i) != vals[i] {
				return fmt.Errorf("%s: ValueList[int32][%d]=%d want %d", path, i, vals[i], int32(e.U))
			}
		}
	case tree.String:
		vl := spec.NewValueList(l, spec.DecodeString)
		for i, e := range n.Elems {
			got, err := vl.GetErr(i)
			if err != nil || string(got) != string(e.B) {
				return fmt.Errorf("%s: ValueList[string][%d] err=%v", path, i, err)
			}
		}
	case tree.Uint64:
		vl := spec.OpenValueList(l.Raw(), spec.DecodeUint64)
		if vl.Len() != len(n.Elems) {
			return fmt.Errorf("%s: OpenValueList len=%d", path, vl.Len())
		}
		for i, e := range n.Elems {
			if vl.Get(i) != e.U {
				return fmt.Errorf("%s: ValueList[uint64][%d]=%d want %d", path, i, vl.Get(i), e.U)
			}
		}
	case tree.Message:
		ml, sz, err := spec.ParseMessageList(l.Raw(), spec.OpenMessageErr)
		if err != nil || sz != len(l.Raw()) || ml.Len() != len(n.Elems) {
			return fmt.Errorf("%s: ParseMessageList: n=%d err=%v", path, sz, err)
		}
		for i, e := range n.Elems {
			m, err := ml.GetErr(i)
			if err != nil {
				return fmt.Errorf("%s: MessageList[%d]: %v", path, i, err)
			}
			if err := CheckMessage(m, e, fmt.Sprintf("%s<%d>", path, i)); err != nil {
				return err
			}
		}
	}
	return nil
}

// AbsentProbe lists the extra tags probed for absence on every message.
var AbsentProbe = []uint16{0, 1, 2, 3, 127, 128, 253, 254, 255, 256, 257, 511, 512, 32767, 32768, 65534, 65535}

func CheckMessage(m spec.Message, n *tree.Node, path string) error {
	if m.Fields() != len(n.Fields) {
		return fmt.Errorf("%s: message Fields=%d want %d", path, m.Fields(), len(n.Fields))
	}
	if m.Empty() != (len(n.Fields) == 0) {
		return fmt.Errorf("%s: message Empty=%v with %d fields", path, m.Empty(), len(n.Fields))
	}
	written := map[uint16]*tree.Node{}
	tags := make([]int, 0, len(n.Fields))
	for _, f := range n.Fields {
		written[f.Tag] = f.Val
		tags = append(tags, int(f.Tag))
	}
	sort.Ints(tags)
	for i, t := range tags {
		got, ok := m.TagAt(i)
		if !ok || int(got) != t {
			return fmt.Errorf("%s: TagAt(%d)=%d,%v want %d (tags must be ascending and exactly the written set)", path, i, got, ok, t)
		}
		if !bytes.Equal(m.FieldAt(i), m.Field(got)) {
			return fmt.Errorf("%s: FieldAt(%d) != Field(%d)", path, i, got)
		}
	}
	if _, ok := m.TagAt(len(tags)); ok {
		return fmt.Errorf("%s: TagAt(%d) beyond the table reports ok", path, len(tags))
	}
	for _, f := range n.Fields {
		if !m.HasField(f.Tag) {
			return fmt.Errorf("%s: HasField(%d)=false for a written field", path, f.Tag)
		}
		fv := m.Field(f.Tag)
		// FieldRaw is documented as the untruncated data[:end]: the value must be its suffix
		if raw := m.FieldRaw(f.Tag); !bytes.HasSuffix(raw, fv) || len(fv) == 0 {
			return fmt.Errorf("%s: Field(%d) is not a suffix of FieldRaw", path, f.Tag)
		}
		p := fmt.Sprintf("%s.%d", path, f.Tag)
		if err := Check(fv, f.Val, p); err != nil {
			return err
		}
		if err := checkTypedField(m, f.Tag, f.Val, p); err != nil {
			return err
		}
	}
	// absent tags: probe alphabet + both neighbours of every written tag
	probe := append([]uint16{}, AbsentProbe...)
	for _, f := range n.Fields {
		probe = append(probe, f.Tag-1, f.Tag+1)
	}
	for _, t := range probe {
		if _, ok := written[t]; ok {
			continue
		}
		if m.HasField(t) {
			return fmt.Errorf("%s: HasField(%d)=true for an absent tag", path, t)
		}
		if fv := m.Field(t); len(fv) != 0 {
			return fmt.Errorf("%s: Field(%d) returned %d bytes for an absent tag", path, t, len(fv))
		}
		if m.Int64(t) != 0 || m.Uint64(t) != 0 || m.Bool(t) || m.Byte(t) != 0 || m.Float64(t) != 0 || len(m.Bytes(t)) != 0 || len(m.String(t)) != 0 ||
			m.List(t).Len() != 0 || m.Message(t).Fields() != 0 || !m.Bin128(t).IsZero() {
			return fmt.Errorf("%s: absent tag %d reads non-zero through a typed accessor", path, t)
		}
		if _, err := m.Int32Err(t); err != nil {
			return fmt.Errorf("%s: absent tag %d: Int32Err reports %v (absent must read as zero, not error)", path, t, err)
		}
	}
	if len(n.Fields) > 0 && len(n.Fields) <= 4 {
		c := m.Clone()
		if !bytes.Equal(c.Raw(), m.Raw()) || c.Fields() != m.Fields() {
			return fmt.Errorf("%s: message Clone differs", path)
		}
		c2 := m.CloneTo(make([]byte, 0, 2))
		if !bytes.Equal(c2.Raw(), m.Raw()) || c2.Fields() != m.Fields() {
			return fmt.Errorf("%s: message CloneTo differs", path)
		}
		cb := buffer.New()
		cb.Write([]byte{0xaa, 0xbb, 0xcc}) // a buffer that already holds data
		c3 := m.CloneToBuffer(cb)
		ar := alloc.NewArena()
		c4 := m.CloneToArena(ar)
		for ci, c := range []spec.Message{c, c2, c3, c4} {
			if !bytes.Equal(c.Raw(), m.Raw()) || c.Fields() != m.Fields() {
				return fmt.Errorf("%s: message clone #%d differs", path, ci)
			}
			for i := 0; i < m.Fields(); i++ {
				t1, _ := m.TagAt(i)
				t2, _ := c.TagAt(i)
				if t1 != t2 || !bytes.Equal(c.FieldRaw(t2), m.FieldRaw(t1)) || !bytes.Equal(c.FieldAt(i), m.FieldAt(i)) {
					return fmt.Errorf("%s: message clone #%d: entry %d (tag %d) reads differently from the original", path, ci, i, t1)
				}
			}
		}
		ar.Free()
	}
	return nil
}

func checkTypedField(m spec.Message, tag uint16, n *tree.Node, path string) error {
	bad := func(what string) error {
		return fmt.Errorf("%s: Message.%s(tag) disagrees with the written value", path, what)
	}
	switch n.Kind {
	case tree.Bool:
		if g, err := m.BoolErr(tag); err != nil || g != (n.U != 0) || m.Bool(tag) != g {
			return bad("Bool")
		}
	case tree.Byte:
		if g, err := m.ByteErr(tag); err != nil || g != byte(n.U) || m.Byte(tag) != g {
			return bad("Byte")
		}
	case tree.Int16:
		if g, err := m.Int16Err(tag); err != nil || g != int16(n.U) || m.Int16(tag) != g {
			return bad("Int16")
		}
	case tree.Int32:
		if g, err := m.Int32Err(tag); err != nil || g != int32(n.U) || m.Int32(tag) != g {
			return bad("Int32")
		}
	case tree.Int64:
		if g, err := m.Int64Err(tag); err != nil || g != int64(n.U) || m.Int64(tag) != g {
			return bad("Int64")
		}
	case tree.Uint16:
		if g, err := m.Uint16Err(tag); err != nil || g != uint16(n.U) || m.Uint16(tag) != g {
			return bad("Uint16")
		}
	case tree.Uint32:
		if g, err := m.Uint32Err(tag); err != nil || g != uint32(n.U) || m.Uint32(tag) != g {
			return bad("Uint32")
		}
	case tree.Uint64:
		if g, err := m.Uint64Err(tag); err != nil || g != n.U || m.Uint64(tag) != g {
			return bad("Uint64")
		}
	case tree.Float32:
		if g, err := m.Float32Err(tag); err != nil || !sameF32(g, math.Float32frombits(uint32(n.U))) {
			return bad("Float32")
		}
	case tree.Float64:
		if g, err := m.Float64Err(tag); err != nil || math.Float64bits(g) != n.U {
			return bad("Float64")
		}
	case tree.Bin64:
		if g, err := m.Bin64Err(tag); err != nil || g != b64(n) || m.Bin64(tag) != g {
			return bad("Bin64")
		}
	case tree.Bin128:
		if g, err := m.Bin128Err(tag); err != nil || g != b128(n) || m.Bin128(tag) != g {
			return bad("Bin128")
		}
	case tree.Bin256:
		if g, err := m.Bin256Err(tag); err != nil || g != b256(n) || m.Bin256(tag) != g {
			return bad("Bin256")
		}
	case tree.Bytes:
		if g, err := m.BytesErr(tag); err != nil || !bytes.Equal(g, n.B) || !bytes.Equal(m.Bytes(tag), n.B) {
			return bad("Bytes")
		}
	case tree.String:
		if g, err := m.StringErr(tag); err != nil || string(g) != string(n.B) || string(m.String(tag)) != string(n.B) {
			return bad("String")
		}
	case tree.List:
		l, err := m.ListErr(tag)
		if err != nil || l.Len() != len(n.Elems) || m.List(tag).Len() != l.Len() {
			return bad("List")
		}
	case tree.Message:
		mm, err := m.MessageErr(tag)
		if err != nil || mm.Fields() != len(n.Fields) || m.Message(tag).Fields() != mm.Fields() {
			return bad("Message")
		}
	}
	return nil
}
