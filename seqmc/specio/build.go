// Package specio drives the REAL spec writer/reader API from the tree model: Build writes a tree through a
// chosen construction route, Check reads encoded bytes back through every accessor and compares with the tree.
package specio

import (
	"fmt"
	"math"

	"github.com/basecomplextech/baselibrary/bin"
	"github.com/basecomplextech/baselibrary/buffer"
	"github.com/basecomplextech/spec"
	"github.com/basecomplextech/spec/internal/writer"
	"github.com/basecomplextech/spec/zzverif/seqmc/tree"
)

type Route int

const (
	RPooled   Route = iota // spec.NewValueWriter/NewListWriter/NewMessageWriter (auto-released state)
	RExplicit              // spec.NewWriter() ... Free()
	RBuffer                // spec.NewXWriterBuffer(buf) (pooled writer over caller's buffer)
	RAny                   // children pre-built, inserted raw with Field.Any / List.Any
	RCopy                  // messages: half of the fields written, the rest merged in with Copy/Merge from a built message
	RTyped                 // scalars through the generic WriteField / WriteElement / ValueListWriter route
	NRoutes
)

var routeNames = [...]string{"pooled", "explicit", "buffer", "any", "copy", "typed"}

func (r Route) String() string { return routeNames[r] }

func b64(n *tree.Node) bin.Bin64 {
	var a [8]byte
	copy(a[:], n.B)
	return bin.Bin64(a)
}
func b128(n *tree.Node) bin.Bin128 {
	var a [16]byte
	copy(a[:], n.B)
	return bin.New128(a)
}
func b256(n *tree.Node) bin.Bin256 {
	var a [32]byte
	copy(a[:], n.B)
	return bin.New256(a)
}

// EncodeStructTo writes a struct the way generated code does: members in order, then the struct trailer.
func EncodeStructTo(b buffer.Buffer, n *tree.Node) (int, error) {
	total := 0
	for _, m := range n.Elems {
		k, err := encodeScalar(b, m)
		if err != nil {
			return 0, err
		}
		total += k
	}
	k, err := spec.EncodeStruct(b, total)
	if err != nil {
		return 0, err
	}
	return total + k, nil
}

func encodeScalar(b buffer.Buffer, n *tree.Node) (int, error) {
	switch n.Kind {
	case tree.Bool:
		return spec.EncodeBool(b, n.U != 0)
	case tree.Byte:
		return spec.EncodeByte(b, byte(n.U))
	case tree.Int16:
		return spec.EncodeInt16(b, int16(n.U))
	case tree.Int32:
		return spec.EncodeInt32(b, int32(n.U))
	case tree.Int64:
		return spec.EncodeInt64(b, int64(n.U))
	case tree.Uint16:
		return spec.EncodeUint16(b, uint16(n.U))
	case tree.Uint32:
		return spec.EncodeUint32(b, uint32(n.U))
	case tree.Uint64:
		return spec.EncodeUint64(b, n.U)
	case tree.Float32:
		return spec.EncodeFloat32(b, math.Float32frombits(uint32(n.U)))
	case tree.Float64:
		return spec.EncodeFloat64(b, math.Float64frombits(n.U))
	case tree.Bin64:
		return spec.EncodeBin64(b, b64(n))
	case tree.Bin128:
		return spec.EncodeBin128(b, b128(n))
	case tree.Bin256:
		return spec.EncodeBin256(b, b256(n))
	case tree.Bytes:
		return spec.EncodeBytes(b, n.B)
	case tree.String:
		return spec.EncodeString(b, string(n.B))
	case tree.Struct:
		return EncodeStructTo(b, n)
	}
	return 0, fmt.Errorf("specio: not a scalar: %v", n.Kind)
}

func writeValue(v spec.ValueWriter, n *tree.Node) error {
	switch n.Kind {
	case tree.Bool:
		return v.Bool(n.U != 0)
	case tree.Byte:
		return v.Byte(byte(n.U))
	case tree.Int16:
		return v.Int16(int16(n.U))
	case tree.Int32:
		return v.Int32(int32(n.U))
	case tree.Int64:
		return v.Int64(int64(n.U))
	case tree.Uint16:
		return v.Uint16(uint16(n.U))
	case tree.Uint32:
		return v.Uint32(uint32(n.U))
	case tree.Uint64:
		return v.Uint64(n.U)
	case tree.Float32:
		return v.Float32(math.Float32frombits(uint32(n.U)))
	case tree.Float64:
		return v.Float64(math.Float64frombits(n.U))
	case tree.Bin64:
		return v.Bin64(b64(n))
	case tree.Bin128:
		return v.Bin128(b128(n))
	case tree.Bin256:
		return v.Bin256(b256(n))
	case tree.Bytes:
		return v.Bytes(n.B)
	case tree.String:
		return v.String(string(n.B))
	}
	return fmt.Errorf("specio: not a plain scalar: %v", n.Kind)
}

func writeElem(l spec.ListWriter, n *tree.Node, r Route) error {
	switch n.Kind {
	case tree.List:
		if r == RAny {
			b, err := Build(n, RPooled, nil)
			if err != nil {
				return err
			}
			return l.Any(b)
		}
		sub := l.List()
		if err := fillList(sub, n, r); err != nil {
			return err
		}
		return sub.End()
	case tree.Message:
		if r == RAny {
			b, err := Build(n, RPooled, nil)
			if err != nil {
				return err
			}
			return l.Any(b)
		}
		sub := l.Message()
		if err := fillMessage(sub, n, r); err != nil {
			return err
		}
		return sub.End()
	case tree.Struct:
		return writer.WriteElement(l, n, EncodeStructTo)
	}
	if r == RAny {
		b, err := Build(n, RPooled, nil)
		if err != nil {
			return err
		}
		return l.Any(b)
	}
	if r == RTyped {
		return writer.WriteElement(l, n, encodeScalar)
	}
	switch n.Kind {
	case tree.Bool:
		return l.Bool(n.U != 0)
	case tree.Byte:
		return l.Byte(byte(n.U))
	case tree.Int16:
		return l.Int16(int16(n.U))
	case tree.Int32:
		return l.Int32(int32(n.U))
	case tree.Int64:
		return l.Int64(int64(n.U))
	case tree.Uint16:
		return l.Uint16(uint16(n.U))
	case tree.Uint32:
		return l.Uint32(uint32(n.U))
	case tree.Uint64:
		return l.Uint64(n.U)
	case tree.Float32:
		return l.Float32(math.Float32frombits(uint32(n.U)))
	case tree.Float64:
		return l.Float64(math.Float64frombits(n.U))
	case tree.Bin64:
		return l.Bin64(b64(n))
	case tree.Bin128:
		return l.Bin128(b128(n))
	case tree.Bin256:
		return l.Bin256(b256(n))
	case tree.Bytes:
		return l.Bytes(n.B)
	case tree.String:
		return l.String(string(n.B))
	}
	return fmt.Errorf("specio: bad kind %v", n.Kind)
}

func writeField(m spec.MessageWriter, tag uint16, n *tree.Node, r Route) error {
	f := m.Field(tag)
	switch n.Kind {
	case tree.List:
		if r == RAny {
			b, err := Build(n, RPooled, nil)
			if err != nil {
				return err
			}
			return f.Any(b)
		}
		sub := f.List()
		if err := fillList(sub, n, r); err != nil {
			return err
		}
		return sub.End()
	case tree.Message:
		if r == RAny {
			b, err := Build(n, RPooled, nil)
			if err != nil {
				return err
			}
			return f.Any(b)
		}
		sub := f.Message()
		if err := fillMessage(sub, n, r); err != nil {
			return err
		}
		return sub.End()
	case tree.Struct:
		return spec.WriteField(f, n, EncodeStructTo)
	}
	if r == RAny {
		b, err := Build(n, RPooled, nil)
		if err != nil {
			return err
		}
		return f.Any(b)
	}
	if r == RTyped {
		return spec.WriteField(f, n, encodeScalar)
	}
	switch n.Kind {
	case tree.Bool:
		return f.Bool(n.U != 0)
	case tree.Byte:
		return f.Byte(byte(n.U))
	case tree.Int16:
		return f.Int16(int16(n.U))
	case tree.Int32:
		return f.Int32(int32(n.U))
	case tree.Int64:
		return f.Int64(int64(n.U))
	case tree.Uint16:
		return f.Uint16(uint16(n.U))
	case tree.Uint32:
		return f.Uint32(uint32(n.U))
	case tree.Uint64:
		return f.Uint64(n.U)
	case tree.Float32:
		return f.Float32(math.Float32frombits(uint32(n.U)))
	case tree.Float64:
		return f.Float64(math.Float64frombits(n.U))
	case tree.Bin64:
		return f.Bin64(b64(n))
	case tree.Bin128:
		return f.Bin128(b128(n))
	case tree.Bin256:
		return f.Bin256(b256(n))
	case tree.Bytes:
		return f.Bytes(n.B)
	case tree.String:
		return f.String(string(n.B))
	}
	return fmt.Errorf("specio: bad kind %v", n.Kind)
}

func fillList(l spec.ListWriter, n *tree.Node, r Route) error {
	for i, e := range n.Elems {
		if err := writeElem(l, e, r); err != nil {
			return fmt.Errorf("element %d: %w", i, err)
		}
		if got := l.Len(); got != i+1 {
			return fmt.Errorf("ListWriter.Len()=%d after %d elements", got, i+1)
		}
	}
	return nil
}

func fillMessage(m spec.MessageWriter, n *tree.Node, r Route) error {
	if r == RCopy && len(n.Fields) > 0 {
		// write the first half directly, merge the whole message in from a pre-built copy
		full, err := Build(n, RPooled, nil)
		if err != nil {
			return err
		}
		src, err := spec.OpenMessageErr(full)
		if err != nil {
			return fmt.Errorf("copy source: %w", err)
		}
		half := len(n.Fields) / 2
		for _, f := range n.Fields[:half] {
			// nested messages are split and merged the same way (their writer shares the field stack with m)
			if err := writeField(m, f.Tag, f.Val, RCopy); err != nil {
				return err
			}
			if !m.HasField(f.Tag) {
				return fmt.Errorf("MessageWriter.HasField(%d) false after writing it", f.Tag)
			}
		}
		for _, f := range n.Fields[half:] {
			if m.HasField(f.Tag) {
				return fmt.Errorf("MessageWriter.HasField(%d) true before merging it in", f.Tag)
			}
		}
		if half%2 == 0 {
			return m.Copy(src)
		}
		return m.Merge(src)
	}
	for _, f := range n.Fields {
		if m.HasField(f.Tag) {
			return fmt.Errorf("MessageWriter.HasField(%d) true before writing it", f.Tag)
		}
		if err := writeField(m, f.Tag, f.Val, r); err != nil {
			return fmt.Errorf("field %d: %w", f.Tag, err)
		}
		if !m.HasField(f.Tag) {
			return fmt.Errorf("MessageWriter.HasField(%d) false after writing it", f.Tag)
		}
	}
	return nil
}

// Build writes the tree through the real writer API. buf is used by RBuffer/RExplicit (may be nil).
// The returned bytes are a copy (the writer's buffer may be reused by the caller).
func Build(n *tree.Node, r Route, buf buffer.Buffer) ([]byte, error) {
	var out []byte
	var err error
	switch r {
	case RExplicit:
		var w spec.Writer
		if buf != nil {
			w = spec.NewWriterBuffer(buf)
		} else {
			w = spec.NewWriter()
		}
		out, err = buildRoot(w, n, r)
		out = append([]byte{}, out...)
		w.Free()
		return out, err
	case RBuffer:
		if buf == nil {
			buf = buffer.New()
		}
		switch n.Kind {
		case tree.List:
			l := spec.NewListWriterBuffer(buf)
			if err = fillList(l, n, r); err == nil {
				out, err = l.Build()
			}
		case tree.Message:
			m := spec.NewMessageWriterBuffer(buf)
			if err = fillMessage(m, n, r); err == nil {
				out, err = m.Build()
			}
		default:
			v := spec.NewValueWriterBuffer(buf)
			if n.Kind == tree.Struct {
				// no public root-struct route on a ValueWriter: encode directly as generated code does
				b2 := buffer.New()
				if _, err = EncodeStructTo(b2, n); err == nil {
					if err = v.Any(b2.Bytes()); err == nil {
						out, err = v.Build()
					}
				}
			} else if err = writeValue(v, n); err == nil {
				out, err = v.Build()
			}
		}
		return append([]byte{}, out...), err
	}
	switch n.Kind {
	case tree.List:
		l := spec.NewListWriter()
		if err = fillList(l, n, r); err == nil {
			out, err = l.Build()
		}
	case tree.Message:
		m := spec.NewMessageWriter()
		if err = fillMessage(m, n, r); err == nil {
			out, err = m.Build()
		}
	case tree.Struct:
		w := writer.New(true)
		if err = writer.WriteValue(w, n, EncodeStructTo); err == nil {
			out, err = w.Value().Build()
		}
	default:
		v := spec.NewValueWriter()
		if r == RTyped {
			w := writer.New(true)
			if err = writer.WriteValue(w, n, encodeScalar); err == nil {
				out, err = w.Value().Build()
			}
		} else if err = writeValue(v, n); err == nil {
			out, err = v.Build()
		}
	}
	return append([]byte{}, out...), err
}

func buildRoot(w spec.Writer, n *tree.Node, r Route) ([]byte, error) {
	switch n.Kind {
	case tree.List:
		l := w.List()
		if err := fillList(l, n, r); err != nil {
			return nil, err
		}
		return l.Build()
	case tree.Message:
		m := w.Message()
		if err := fillMessage(m, n, r); err != nil {
			return nil, err
		}
		return m.Build()
	case tree.Struct:
		if err := writer.WriteValue(w, n, EncodeStructTo); err != nil {
			return nil, err
		}
		return w.Value().Build()
	}
	v := w.Value()
	if err := writeValue(v, n); err != nil {
		return nil, err
	}
	return v.Build()
}

// BuildRootOn writes the tree as the root object of an explicit writer (not freed) and returns a copy of the bytes.
func BuildRootOn(w spec.Writer, n *tree.Node) ([]byte, error) {
	b, err := buildRoot(w, n, RExplicit)
	return append([]byte{}, b...), err
}
