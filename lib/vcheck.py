#!/usr/bin/env python3
"""vcheck — orchestrator of the /verif model-checking framework for basecomplextech/spec.

usage: vcheck <property-id> [--tier quick|thorough] [--replay FILE] [--keep]
       vcheck setup

Builds the engine a property needs from /repo's *current working tree* (go build -overlay: harness sources
from /verif are injected as virtual files of the spec module, nothing is written under /repo), runs the
worker processes of the check (sharded), merges their results, applies /verif/known_findings.json, writes
/verif/evidence/<id>.json and prints VIOLATION / KNOWN-FINDING lines.  Exit 0 = property held on everything
explored (known findings excepted), 1 = violation, 2 = harness error.
"""
import hashlib
import json
import os
import re
import shutil
import subprocess
import sys
import time
from concurrent.futures import ThreadPoolExecutor

VERIF = os.path.dirname(os.path.dirname(os.path.abspath(__file__)))
REPO = os.environ.get("VERIF_REPO", "/repo")
SCRATCH = os.environ.get("VERIF_SCRATCH", "/var/tmp/verif")
# where evidence/ and out/replays/ are written (mutant runs redirect it so that they never overwrite real evidence)
RESULTS = os.environ.get("VERIF_RESULTS", os.path.dirname(os.path.dirname(os.path.abspath(__file__))))
MODPATH = "github.com/basecomplextech/spec"
NCPU = int(os.environ.get("VERIF_NCPU", str(os.cpu_count() or 4)))


def log(*a):
    print(*a, file=sys.stderr, flush=True)


def goenv():
    e = dict(os.environ)
    e["GOFLAGS"] = "-mod=mod"
    e["GOPROXY"] = "off"
    e["GODEBUG"] = "goindex=0"
    e.pop("GOSUMDB", None)
    e.pop("GOTOOLCHAIN", None)
    e.setdefault("GOCACHE", os.path.join(SCRATCH, "gocache"))
    return e


def sh(cmd, **kw):
    return subprocess.run(cmd, **kw)


def repo_fingerprint():
    """porcelain status of /repo, to assert that a build did not touch the tree."""
    r = sh(["git", "-C", REPO, "status", "--porcelain"], capture_output=True, text=True)
    return r.stdout


def gomodcache():
    r = sh(["go", "env", "GOMODCACHE"], capture_output=True, text=True, env=goenv(), cwd=REPO)
    return r.stdout.strip()


_BL = None


def baselibrary_dir():
    global _BL
    if _BL is None:
        r = sh(["go", "list", "-m", "-f", "{{.Dir}}", "github.com/basecomplextech/baselibrary"],
               capture_output=True, text=True, env=goenv(), cwd=REPO)
        _BL = r.stdout.strip()
        if not _BL:
            raise SystemExit("vcheck: cannot locate baselibrary: " + r.stderr)
    return _BL


# --------------------------------------------------------------------------------------------------
# overlays and builds


def add_tree(overlay, src_dir, virt_dir):
    """map every file under src_dir to the same relative path under virt_dir (a virtual directory)."""
    for root, _dirs, files in os.walk(src_dir):
        for f in files:
            if f.endswith(".go") or f.endswith(".s"):
                p = os.path.join(root, f)
                rel = os.path.relpath(p, src_dir)
                overlay[os.path.join(virt_dir, rel)] = p


def write_overlay(name, overlay):
    os.makedirs(os.path.join(SCRATCH, "overlay"), exist_ok=True)
    path = os.path.join(SCRATCH, "overlay", name + ".json")
    with open(path, "w") as f:
        json.dump({"Replace": overlay}, f, indent=1)
    return path


def go_build(overlay_path, pkg, out, tags=None, race=False):
    os.makedirs(os.path.dirname(out), exist_ok=True)
    cmd = ["go", "build", "-overlay", overlay_path, "-o", out]
    if tags:
        cmd += ["-tags", tags]
    if race:
        cmd += ["-race"]
    cmd += [pkg]
    before = repo_fingerprint()
    t = time.time()
    r = sh(cmd, cwd=REPO, env=goenv(), capture_output=True, text=True)
    if r.returncode != 0:
        log("vcheck: build failed:", " ".join(cmd))
        log(r.stdout[-6000:])
        log(r.stderr[-6000:])
        raise HarnessError("build failed for %s" % pkg)
    if repo_fingerprint() != before:
        raise HarnessError("build modified /repo working tree")
    log("vcheck: built %s in %.1fs" % (pkg, time.time() - t))
    return out


class HarnessError(Exception):
    pass


def build_seqmc():
    ov = {}
    add_tree(ov, os.path.join(VERIF, "seqmc", "main"), os.path.join(REPO, "zzverif", "seqmc", "main"))
    add_tree(ov, os.path.join(VERIF, "seqmc", "vlib"), os.path.join(REPO, "zzverif", "seqmc", "vlib"))
    for sub in ("refcodec", "tree", "specio"):
        add_tree(ov, os.path.join(VERIF, "seqmc", sub), os.path.join(REPO, "zzverif", "seqmc", sub))
    # in-package accessors (unexported state dumps) — files named zz_v*.go placed inside repo packages
    inpkg = os.path.join(VERIF, "seqmc", "inpkg")
    if os.path.isdir(inpkg):
        for root, _d, files in os.walk(inpkg):
            for f in files:
                if f.endswith(".go"):
                    rel = os.path.relpath(os.path.join(root, f), inpkg)
                    ov[os.path.join(REPO, rel)] = os.path.join(root, f)
    # generated code for C17: the repository's own generator (cmd/spec of the current tree) turns seqmc/gen/*/x.spec into
    # Go packages under zzverif/seqmc/<name>
    gen_src = os.path.join(VERIF, "seqmc", "gen")
    if os.path.isdir(gen_src):
        binp = os.path.join(SCRATCH, "bin", "spec")
        os.makedirs(os.path.dirname(binp), exist_ok=True)
        r = sh(["go", "build", "-o", binp, "./cmd/spec"], cwd=REPO, env=goenv(), capture_output=True, text=True)
        if r.returncode != 0:
            log(r.stderr[-3000:])
            raise HarnessError("cmd/spec does not build")
        for name in sorted(os.listdir(gen_src)):
            dst = os.path.join(SCRATCH, "seqgen", name)
            shutil.rmtree(dst, ignore_errors=True)
            os.makedirs(dst)
            r = sh([binp, "generate", "--skip-rpc", os.path.join(gen_src, name), dst], capture_output=True, text=True)
            if r.returncode != 0:
                log(r.stdout[-2000:] + r.stderr[-2000:])
                raise HarnessError("spec generate failed for seqmc/gen/" + name)
            add_tree(ov, dst, os.path.join(REPO, "zzverif", "seqmc", name))
    op = write_overlay("seqmc", ov)
    return go_build(op, "./zzverif/seqmc/main", os.path.join(SCRATCH, "bin", "seqmc"))


BL_QUIET = ["async", "async/asyncmap", "async/internal/context", "async/internal/flag", "async/internal/lock",
            "alloc", "alloc/bytequeue", "alloc/internal/arena", "alloc/internal/heap", "alloc/internal/buffer", "pools", "ref"]
BL_DAEMON = ["async/internal/pool"]


def build_instr():
    out = os.path.join(SCRATCH, "bin", "instr")
    e = goenv()
    r = sh(["go", "build", "-o", out, "."], cwd=os.path.join(VERIF, "schedmc", "instr"), env=e, capture_output=True, text=True)
    if r.returncode != 0:
        log(r.stderr)
        raise HarnessError("cannot build the instrumenter")
    return out


def run_instr(instr, outdir, flags, dirs, overlay):
    r = sh([instr, "-out", outdir] + flags + dirs, capture_output=True, text=True)
    if r.returncode != 0:
        log(r.stderr)
        raise HarnessError("instrumenter refused a construct (see above)")
    for line in r.stdout.splitlines():
        orig, new = line.split("\t")
        overlay[orig] = new


def build_schedmc(race=False):
    instr = build_instr()
    outdir = os.path.join(SCRATCH, "instr_out")
    shutil.rmtree(outdir, ignore_errors=True)
    os.makedirs(outdir)
    ov = {}
    bl = baselibrary_dir()
    t = time.time()
    run_instr(instr, outdir, ["-time", "-ids"], [os.path.join(REPO, "mpx"), os.path.join(REPO, "rpc")], ov)
    run_instr(instr, outdir, [], [os.path.join(REPO, "internal", "writer")], ov)
    run_instr(instr, outdir, ["-quiet"], [os.path.join(bl, d) for d in BL_QUIET], ov)
    run_instr(instr, outdir, ["-quiet", "-daemon"], [os.path.join(bl, d) for d in BL_DAEMON], ov)
    log("vcheck: instrumented %d files in %.1fs" % (len(ov), time.time() - t))
    for sub in ("vsched", "vsync", "vsyncq", "vatomic", "vatomicq", "vtime", "vnet", "vexp"):
        add_tree(ov, os.path.join(VERIF, "schedmc", "shim", sub), os.path.join(REPO, "zzverif", sub))
    add_tree(ov, os.path.join(VERIF, "schedmc", "main"), os.path.join(REPO, "zzverif", "schedmc", "main"))
    inpkg = os.path.join(VERIF, "schedmc", "inpkg")
    for root, _d, files in os.walk(inpkg):
        for f in files:
            if f.endswith(".go"):
                rel = os.path.relpath(os.path.join(root, f), inpkg)
                ov[os.path.join(REPO, rel)] = os.path.join(root, f)
    # the writer state dump used by C18 scenarios
    wd = os.path.join(VERIF, "seqmc", "inpkg", "internal", "writer", "zz_vdump.go")
    ov[os.path.join(REPO, "internal", "writer", "zz_vdump.go")] = wd
    op = write_overlay("schedmc", ov)
    return go_build(op, "./zzverif/schedmc/main", os.path.join(SCRATCH, "bin", "schedmc"))


def build_langmc():
    ov = {}
    add_tree(ov, os.path.join(VERIF, "langmc", "main"), os.path.join(REPO, "zzverif", "langmc", "main"))
    add_tree(ov, os.path.join(VERIF, "langmc", "vharness"), os.path.join(REPO, "internal", "lang", "zz_vharness"))
    add_tree(ov, os.path.join(VERIF, "seqmc", "vlib"), os.path.join(REPO, "zzverif", "seqmc", "vlib"))
    for sub in ("tree", "refcodec"):
        add_tree(ov, os.path.join(VERIF, "seqmc", sub), os.path.join(REPO, "zzverif", "seqmc", sub))
    op = write_overlay("langmc", ov)
    return go_build(op, "./zzverif/langmc/main", os.path.join(SCRATCH, "bin", "langmc"))


ENGINE_BUILDERS = {"seqmc": build_seqmc, "schedmc": build_schedmc, "langmc": build_langmc}

# --------------------------------------------------------------------------------------------------
# known findings


def load_known():
    p = os.path.join(VERIF, "known_findings.json")
    if not os.path.exists(p):
        return []
    with open(p) as f:
        return json.load(f).get("known", [])


def match_known(known, prop, sig):
    for k in known:
        if k["property"] != prop:
            continue
        if "sig" in k and k["sig"] == sig:
            return k
        if "sig_regex" in k and re.fullmatch(k["sig_regex"], sig, re.S):
            return k
    return None


# --------------------------------------------------------------------------------------------------
# running workers


def run_worker(cmd, out, timeout, env=None, memlimit_kb=None):
    """run one worker process; returns (result-dict | None, failure description | None)"""
    full = cmd + ["-out", out]
    pre = None
    if memlimit_kb:
        def pre():  # noqa
            import resource
            resource.setrlimit(resource.RLIMIT_AS, (memlimit_kb * 1024, memlimit_kb * 1024))
    env = dict(env if env is not None else os.environ)
    env.setdefault("GOMAXPROCS", "1")  # one worker process per core; avoids GC/scheduler contention
    env.setdefault("GOGC", "400")
    try:
        r = subprocess.run(full, capture_output=True, text=True, timeout=timeout, env=env, preexec_fn=pre)
    except subprocess.TimeoutExpired as e:
        return None, {"kind": "timeout", "cmd": full, "stderr": (e.stderr or b"")[-3000:].decode("utf8", "replace") if isinstance(e.stderr, bytes) else str(e.stderr)[-3000:]}
    if r.returncode != 0 or not os.path.exists(out):
        return None, {"kind": "crash", "rc": r.returncode, "cmd": full, "stderr": r.stderr[-6000:], "stdout": r.stdout[-2000:]}
    with open(out) as f:
        return json.load(f), None


def merge(results):
    m = {"evaluations": 0, "distinct": 0, "states": 0, "transitions": 0, "traces": 0, "exhaustive": True,
         "samples": [], "violations": [], "violations_total": 0, "notes": [], "outcomes": {}, "bounds": {}, "rule": "", "parts": {}}
    for r in results:
        for k in ("evaluations", "distinct", "states", "transitions", "traces", "violations_total"):
            m[k] += r.get(k, 0) or 0
        m["exhaustive"] = m["exhaustive"] and bool(r.get("exhaustive"))
        for s in r.get("samples") or []:
            if len(m["samples"]) < 24:
                m["samples"].append(s)
        m["violations"] += r.get("violations") or []
        for n in r.get("notes") or []:
            if n not in m["notes"]:
                m["notes"].append(n)
        for k, v in (r.get("outcomes") or {}).items():
            m["outcomes"][k] = m["outcomes"].get(k, 0) + v
        part = r.get("part") or "main"
        pb = m["parts"].setdefault(part, {"evaluations": 0, "distinct": 0, "states": 0, "transitions": 0, "exhaustive": True, "wall_s": 0.0})
        for k in ("evaluations", "distinct", "states", "transitions"):
            pb[k] += r.get(k, 0) or 0
        pb["exhaustive"] = pb["exhaustive"] and bool(r.get("exhaustive"))
        pb["wall_s"] = max(pb["wall_s"], r.get("wall_s", 0))
        if r.get("rule"):
            pb["rule"] = r["rule"]
        for k, v in (r.get("bounds") or {}).items():
            if k == "full32":
                pb.setdefault("bounds", {}).setdefault(k, []).append(v)
            elif isinstance(v, dict) and "executions" in v and "complete" in v and isinstance(pb.setdefault("bounds", {}).get(k), dict):
                # one scenario explored by several shards: executions add up, completeness is a conjunction, and the
                # number of complete deviation layers is the minimum over the shards
                o = pb["bounds"][k]
                o["executions"] = o.get("executions", 0) + v.get("executions", 0)
                o["complete"] = bool(o.get("complete")) and bool(v.get("complete"))
                if "complete_layers" in v:
                    o["complete_layers"] = min(o.get("complete_layers", v["complete_layers"]), v["complete_layers"])
            else:
                pb.setdefault("bounds", {})[k] = dict(v) if isinstance(v, dict) else v
    rules = [p.get("rule", "") for p in m["parts"].values() if p.get("rule")]
    m["rule"] = " || ".join(dict.fromkeys(rules))
    return m


class Check:
    """description of one property check; subclasses/instances define jobs()"""

    def __init__(self, prop, engine, level, jobs, assumptions=(), timeout_quick=900, timeout_thorough=7200):
        self.prop, self.engine, self.level, self.jobs_fn = prop, engine, level, jobs
        self.assumptions = list(assumptions)
        self.timeout = {"quick": timeout_quick, "thorough": timeout_thorough}


def finish(prop, level, tier, seed, merged, failures, assumptions, t0, extra_cov=None):
    """apply known findings, write evidence, print lines, return exit code."""
    known = load_known()
    outdir = os.path.join(RESULTS, "out", "replays", prop)
    shutil.rmtree(outdir, ignore_errors=True)
    os.makedirs(outdir, exist_ok=True)
    seen_sig = {}
    new_viol = []
    known_hit = {}
    for v in merged["violations"]:
        sig = v["sig"]
        if sig in seen_sig:
            continue
        seen_sig[sig] = v
        k = match_known(known, prop, sig)
        if k is not None:
            known_hit.setdefault(k["what"], []).append(sig)
        else:
            new_viol.append(v)
    # worker crashes / timeouts
    harness_err = False
    for f in failures:
        if f["kind"] == "timeout":
            merged["exhaustive"] = False
            merged["notes"].append("worker timed out (incomplete, not a violation): " + " ".join(f["cmd"][-8:]))
        else:
            harness_err = True
            log("vcheck: worker failed rc=%s\n%s\n%s" % (f.get("rc"), " ".join(f["cmd"]), f.get("stderr", "")))
    for what, sigs in known_hit.items():
        print("KNOWN-FINDING: property=%s %s (%d signature(s), e.g. %s)" % (prop, what, len(sigs), sigs[0][:160]))
    for v in new_viol[:40]:
        h = hashlib.sha1(v["sig"].encode()).hexdigest()[:12]
        path = os.path.join(outdir, h + ".json")
        with open(path, "w") as f:
            json.dump({"property": prop, "sig": v["sig"], "desc": v["desc"], "replay": v["replay"]}, f, indent=1)
        print("VIOLATION property=%s replay=%s" % (prop, path))
        print("  sig: %s" % v["sig"][:300])
        print("  %s" % v["desc"][:600])
    cov = {
        "evaluations": merged["evaluations"],
        "distinct_nontrivial": merged["distinct"],
        "rule": merged["rule"],
        "samples": merged["samples"][:24] or [{"note": "no sample recorded"}],
        "exhaustive": bool(merged["exhaustive"]) and not failures,
        "parts": merged["parts"],
        "notes": merged["notes"],
        "known_findings_reported": sorted(known_hit.keys()),
        "violation_signatures": [v["sig"][:200] for v in new_viol[:40]],
    }
    if merged["outcomes"]:
        cov["distinct_outcomes"] = len(merged["outcomes"])
        cov["outcomes"] = dict(sorted(merged["outcomes"].items(), key=lambda kv: -kv[1])[:40])
    if merged["states"] or level == "model_checking":
        cov["states"] = merged["states"]
        cov["transitions"] = merged["transitions"]
        cov["traces_validated_against_impl"] = merged["traces"]
    if extra_cov:
        cov.update(extra_cov)
    ev = {
        "property_id": prop, "tier": tier, "seed": seed, "level": level, "coverage": cov,
        "assumptions": assumptions, "wall_s": round(time.time() - t0, 2), "violations": len(new_viol),
    }
    os.makedirs(os.path.join(RESULTS, "evidence"), exist_ok=True)
    with open(os.path.join(RESULTS, "evidence", prop + ".json"), "w") as f:
        json.dump(ev, f, indent=1)
    log("vcheck: %s tier=%s evaluations=%d distinct=%d states=%d exhaustive=%s violations=%d known=%d wall=%.1fs" % (
        prop, tier, merged["evaluations"], merged["distinct"], merged["states"], cov["exhaustive"], len(new_viol), len(known_hit), time.time() - t0))
    if new_viol:
        return 1
    if harness_err:
        return 2
    return 0


def run_jobs(jobs, workdir, timeout, parallel=None):
    """jobs: list of dict(cmd=[...], name=str, env=?, mem_kb=?). returns (results, failures)"""
    os.makedirs(workdir, exist_ok=True)
    results, failures = [], []

    def one(j):
        out = os.path.join(workdir, j["name"] + ".json")
        if os.path.exists(out):
            os.remove(out)
        return run_worker(j["cmd"], out, j.get("timeout", timeout), env=j.get("env"), memlimit_kb=j.get("mem_kb"))

    with ThreadPoolExecutor(max_workers=parallel or NCPU) as ex:
        for res, fail in ex.map(one, jobs):
            if res is not None:
                results.append(res)
            if fail is not None:
                failures.append(fail)
    return results, failures


def sharded(binary, check, tier, seed, nshards, part="", extra=()):
    jobs = []
    for i in range(nshards):
        cmd = [binary, check, "-tier", tier, "-shard", str(i), "-nshards", str(nshards), "-seed", str(seed)]
        if part:
            cmd += ["-part", part]
        cmd += list(extra)
        jobs.append({"cmd": cmd, "name": "%s_%s_%d" % (check, part or "main", i)})
    return jobs


# --------------------------------------------------------------------------------------------------
# property registry

import importlib  # noqa: E402

sys.path.insert(0, os.path.join(VERIF, "lib"))


def registry():
    import props
    return props.PROPS


def main(argv):
    try:
        return main1(argv)
    except HarnessError as e:
        log("vcheck: harness error:", e)
        return 2


def main1(argv):
    if len(argv) < 2:
        print(__doc__)
        return 2
    if argv[1] == "setup":
        import props
        return props.setup()
    prop = argv[1]
    tier = os.environ.get("VERIF_TIER", "quick")
    replay = None
    i = 2
    while i < len(argv):
        if argv[i] == "--tier":
            tier = argv[i + 1]
            i += 2
        elif argv[i] == "--replay":
            replay = argv[i + 1]
            i += 2
        else:
            i += 1
    seed = int(os.environ.get("VERIF_SEED", "0") or 0)
    reg = registry()
    if prop not in reg:
        log("vcheck: unknown property", prop)
        return 2
    t0 = time.time()
    spec_ = reg[prop]
    try:
        return spec_(prop, tier, seed, replay, t0)
    except HarnessError as e:
        log("vcheck: harness error:", e)
        return 2


if __name__ == "__main__":
    sys.exit(main(sys.argv))
