HOOKS = {
    "guard": "verif",
    "enable": "no source hooks: harness code and instrumented copies of mpx/rpc/baselibrary sources are injected at check time with `go build -overlay` (virtual files under /repo/zzverif and zz_v*.go files inside repo packages); /repo is never written. The build tag `verif` is reserved for fallback hooks and currently guards nothing.",
    "baseline_off_cmd": "/verif/bin/baseline.sh /repo",
    "source_commits": [],
    "add_only": True,
}

ENGINES = [
    {"name": "seqmc", "path": "/verif/seqmc", "serves_properties": ["C10"],
     "kind_free_text": "Engine A: bounded-exhaustive sequential explorer (deterministic enumerators over boundary alphabets, sharded worker processes, guard-page memory, explicit-state BFS over operation sequences with replay on fresh instances)"},
]

NOTES = "All checks are driven by bin/vcheck (lib/vcheck.py): it rebuilds the engine from /repo's working tree through a go build overlay, shards the bounded space over worker processes, merges results, applies known_findings.json and writes evidence. Exit 0 held / 1 VIOLATION / 2 harness error. VERIF_SEED only permutes shard assignment."

NOT_APPLICABLE = {}

CHECKS = {
    "C10": {
        "engine": "seqmc", "level": "exploration", "design_ref": "DESIGN.md §P C10",
        "technique": "bounded-exhaustive enumeration (whole domain for <=16-bit and, in thorough, all 2^32 patterns of int32/uint32/float32; structured lattice for 64-bit) with encode/decode identity and cross-width numeric oracle",
        "text": "Every scalar encoder is run against every decoder of its family over the whole domain of bool/byte/int16/uint16, over a lattice of all boundary values (powers of two ±{0,1,2}, every varint size-class edge and its zig-zag image, extremes) for 32/64-bit integers, over every (sign, exponent) x mantissa-pattern float, bin patterns and byte/string lengths 0..300 and 65534..65537 with hostile contents; thorough enumerates all 2^32 int32/uint32/float32 patterns. Oracle: decode(encode(v)) = v, encoder size = appended bytes = decoder size = probe size, and reads through another width return the value iff representable, else an error.",
        "note": "64-bit domains are covered by the lattice only; NaN payload bits are not compared; for float64 values in float32 range that are not exactly representable both correct rounding and an error are accepted (the statement is silent).",
    },
}
