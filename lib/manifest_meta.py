HOOKS = {
    "guard": "verif",
    "enable": "no source hooks: harness code and instrumented copies of mpx/rpc/baselibrary sources are injected at check time with `go build -overlay` (virtual files under /repo/zzverif and zz_v*.go files inside repo packages); /repo is never written. The build tag `verif` is reserved for fallback hooks and currently guards nothing.",
    "baseline_off_cmd": "/verif/bin/baseline.sh /repo",
    "source_commits": [],
    "add_only": True,
}

ENGINES = [
    {"name": "langmc", "path": "/verif/langmc", "serves_properties": ["C05", "C14", "C15", "C16"],
     "kind_free_text": "Engine C: bounded enumeration of schema syntax trees, token strings, single-token edits and (for C05/C14/C16) schemas pushed through the real parser/compiler/generator in-process (overlay package inside internal/lang) and the Go compiler"},
    {"name": "schedmc", "path": "/verif/schedmc", "serves_properties": ["C03", "C04", "C06", "C07", "C09", "C11", "C18", "C19", "C20"],
     "kind_free_text": "Engine B: controlled-scheduler model checker for the real mpx/rpc code: a go/ast instrumenter rewrites sync, sync/atomic, go, select and channel operations of mpx, rpc, internal/writer and the baselibrary primitives to shims of a cooperative scheduler (injected by go build -overlay); stateless DFS over schedules with preemption / free-switch / environment-deviation bounds; fake transport, virtual time, deterministic LIFO pools; explicit-state BFS over event sequences for flow control; TLA+/TLC model bound to the code by edge-by-edge graph comparison"},
    {"name": "seqmc", "path": "/verif/seqmc", "serves_properties": ["C01", "C02", "C08", "C10", "C12", "C13", "C17"],
     "kind_free_text": "Engine A: bounded-exhaustive sequential explorer (deterministic enumerators over boundary alphabets, sharded worker processes, guard-page memory, explicit-state BFS over operation sequences with replay on fresh instances)"},
]

NOTES = "All checks are driven by bin/vcheck (lib/vcheck.py): it rebuilds the engine from /repo's working tree through a go build overlay, shards the bounded space over worker processes, merges results, applies known_findings.json and writes evidence. Exit 0 held / 1 VIOLATION / 2 harness error. VERIF_SEED only permutes shard assignment."

NOT_APPLICABLE = {}

CHECKS = {
    "C05": {
        "engine": "langmc", "level": "exploration", "design_ref": "DESIGN.md §P C05",
        "technique": "bounded enumeration of schemas of a grammar pushed through the real compiler+generator (in-process), the Go compiler, and a reflective checker that drives every generated writer/reader with exhaustive small value sets against the dynamic tag-based API",
        "text": "About a hundred schemas (every scalar kind as scalar and list over every tag class {1,2,255,256,65535}; any/message fields; imported, aliased and local enum/struct/message references and lists; nested structs; recursive messages; ten name classes incl. contextual and Go keywords for fields and struct members; multi-file package; 40-field message; services with every method shape) are generated, built, and each declared message/struct/enum is exercised with value sets {all-zero, all-boundary, all-distinct, one-hot per field}: generated writer -> generated reader, the same bytes read through the dynamic API by declared tag and wire type, presence flags, re-open, struct encode/decode inverse, enum<->int32, byte-identical regeneration.",
        "note": "Expected tags/kinds/values come from the harness' own schema description (which also renders the .spec text). Service code is compile-checked only. Names that collide after the Go name mapping are outside the property's premise (see C14 known findings).",
    },
    "C14": {
        "engine": "langmc", "level": "exploration", "design_ref": "DESIGN.md §P C14",
        "technique": "exhaustive application of one mutation operator per language rule to a template schema, plus every single-token edit of the template, through the real compile+generate pipeline and `go build`; CLI exit status on lexical and rule errors",
        "text": "The valid C05 schemas must generate and build. About 60 rule mutants (duplicate definition/field/tag/enum name/enum number/import/alias/option/method; tag 0, 65536, 2^31; enum beyond int32/int64, missing zero value; unknown local/imported/list types; service-typed field, list of services, lists of any/message; struct fields of non-value types; self- and mutually-recursive structs; channels of scalar/enum/list types; oneway with output/channel; bad method input/output types; returning a top-level service; missing/self/circular/unused import; empty package; keyword as definition name; lexical errors) must be rejected with an error naming the element, or - where the rule is not broken - build. Every single-token deletion/duplication/replacement of the template source is pushed through the whole pipeline: error or compilable output, never a panic. `spec generate` itself must exit non-zero for lexical and rule errors.",
        "note": "Two known findings (identifier collisions after the Go name mapping; definitions named like Go predeclared types) are listed in known_findings.json.",
    },
    "C16": {
        "engine": "langmc", "level": "exploration", "design_ref": "DESIGN.md §P C16",
        "technique": "bounded enumeration of (schema A, schema A') pairs under edit sequences of length <=2, both versions generated by the real pipeline and compiled; cross-version write/read, absent/unknown field and Merge-preservation checks through generated code by a reflective checker",
        "text": "Base messages with three fields over 14 kinds (scalars, enum, struct, nested message, lists, any) across the tag 255/256 boundary, and every A' derived by one edit (all ~38) or a selection of two edits from {add a field of each kind with a fresh small or large tag, remove, rename, reverse/rotate declarations, nothing}. Both versions are generated and built; for value sets {all-zero, all-boundary, all-distinct, one-hot}: data written by A is read by A' and vice versa: common tags equal, fields absent from the data read as zero with Has* false, unknown fields do not disturb the others, and Merge through the other version's writer preserves the fields it does not know.",
        "note": "Type-changing edits are outside the statement. Pairs are deduplicated by field list.",
    },
    "C15": {
        "engine": "langmc", "level": "exploration", "design_ref": "DESIGN.md §P C15",
        "technique": "bounded-exhaustive enumeration of syntax trees x layouts (print -> parse -> compare), of all token strings up to length 3/4 over a 42-token alphabet, and of every single-token edit of the checked-in schema files",
        "text": "Every syntax tree with one definition from ~570 shapes (all type forms, all contextual keywords as names, boundary integers, every method shape) under 15 header combinations is printed with 4 plain layouts and with a line or block comment in every token gap and must parse back to the same canonical dump; two-definition files cover ordering. All token strings of length <=3 (quick) / <=4 (thorough) over an alphabet with lexical edge tokens, and every single-token deletion, duplication, swap and replacement of the four checked-in .spec files: no panic; an accepted text has no lexical error, records its integer and string literals with their source values and re-prints to a fixed point.",
        "note": "The printer and canonical dump in the harness are the reference for 'what the source says'; integer literals are interpreted as Go literals (base prefixes, underscores), which is what the scanner tokenises.",
    },
    "C04": {
        "engine": "schedmc", "level": "model_checking", "design_ref": "DESIGN.md §P C04",
        "technique": "stateless model checking under a controlled scheduler of the real rpc client/server over real mpx connections: all schedules (preemption bound 1) of every ordered pair/triple of concurrent call kinds, checked against a sequential specification keyed by call id; exhaustive malformed-reply and byte-offset connection-loss enumeration",
        "text": "Every ordered pair (thorough: triple) of concurrent calls from {unary ok, application status code+message, handler panic, oneway, client-streaming, server-streaming, early response} runs over MaxConns 1/2 followed by a late call on recycled call states; each caller must observe exactly what the handler invocation carrying its id produced (result bytes, code, message, stream order before the end marker); handlers run exactly once per request; rpc response frames on the wire are counted (a oneway call yields none). Seven malformed replies from an mpx-level scripted server must surface as non-OK, never as OK or a panic. With a unary and a server-streaming call in flight the transport is cut / half-closed after every byte offset: calls return, and an OK result is always the caller's own.",
        "note": "Dialling is replaced by a scheduler-controlled connector; preemption bound 1 in both tiers for the wide scenario (thorough adds free switches, environment deviations and a third call).",
    },
    "C18": {
        "engine": "schedmc", "level": "model_checking", "design_ref": "DESIGN.md §P C18",
        "technique": "stateless model checking under a controlled scheduler with deterministic LIFO pools: all schedules (preemption bound 2/3, scheduling points at every pool Get/Put) of pairs of writer programs; all ordered program pairs sequentially; channel-state recycling on a live connection with a fresh-state invariant at every acquire; plus an auxiliary free-running -race pass",
        "text": "58 writer programs (constructor x body x ending, incl. failing midway, abandoning an open container, growing tables, Copy, never releasing) are run (a) in all ordered pairs back to back on the LIFO pools and (b) in all unordered pairs on two threads, twice each, with scheduling points between operations and at every pool Get/Put: every result must equal the program run alone. On a live connection two users open/use/close channels for several rounds with window traffic, so channel states pass through the pool between users: every newly acquired state (client and server side) must equal a fresh one (window, counters, wake-up slot, flags, queue, context) and every echo must be the caller's own. RPC call-state reuse is exercised by the late call of C04. An auxiliary free-running build with -race (sampled) looks for unsynchronised accesses inside the module.",
        "note": "sync.Pool is replaced by an adversarial LIFO pool; the race pass is wall-clock sampled and is auxiliary evidence only.",
    },
    "C03": {
        "engine": "schedmc", "level": "model_checking", "design_ref": "DESIGN.md §P C03",
        "technique": "stateless model checking under a controlled scheduler: exhaustive DFS over all schedules (bounds p,f,e = 1,1,1 quick / 2,1,1 thorough) of a real client conn and server conn with their real loops over a fake transport, for a configuration alphabet of window/queue/buffer/compression/short-read settings",
        "text": "A real client connection and a real server connection run their real handshake, receive loop, send loop and handler tasks over a scheduler-controlled byte stream. Scenario S1: two channels, both directions, last message on the closing frame; S2: payload on the opening frame, on the closing frame, and SendAndClose on a never-opened channel (open+close batch). Configurations: windows 3 / 8 / 16 MiB (thorough also 1), 16-byte and 16 MiB write queues, 16-byte and 32 KiB buffers, compression on/off, 3-byte short reads; message sizes {1,W/2,W,W+1,3W}. Oracle per channel and direction: the received sequence is a byte-exact prefix of the sent one, and the whole sequence when the receiver drained to the end status; no error is logged; no deadlock.",
        "note": "Two channels on one connection are explored, not 'any number'; lz4 itself is library code run synchronously; the receiver reads with a context of its own (with the channel's context a blocked Receive may return Cancelled instead of the end status, which the statement permits).",
    },
    "C09": {
        "engine": "schedmc", "level": "fault_enumeration", "design_ref": "DESIGN.md §P C09",
        "technique": "exhaustive fault-point enumeration: every byte offset of each direction of six recorded sessions x {cut, half-close}, each executed on the real client+server connections under the controlled scheduler (default schedule plus one free switch; thorough: one preemption)",
        "text": "Six sessions (handshake+open, echo, Send blocked on a closed window, Send blocked on a full write queue, lz4 stream, frame larger than the buffers) are recorded once without a fault; then for EVERY byte offset k of either direction the transport is cut (both directions fail) or half-closed after exactly k bytes. Oracle in every execution: every public call returns (a stuck waiter is a deadlock of the execution), both connections close, every handler is released, every channel context is cancelled, nothing is delivered that was not sent, no panic is logged, new calls on the dead connection fail.",
        "note": "'Within bounded time' is decided in virtual time (every maximal execution terminates); fault offsets are those of the default-schedule recording; client recovery after a fault is covered by the C19 scenarios (scripted connector).",
    },
    "C11": {
        "engine": "schedmc", "level": "model_checking", "design_ref": "DESIGN.md §P C11",
        "technique": "exhaustive enumeration of scripted peer sessions (12 handshake variants; all frame sequences of length <=2/3 over a 15-frame alphabet) against the real server entry point under the controlled scheduler with preemption bound 1, concurrently with a well-behaved client",
        "text": "A raw peer writes a handshake variant (correct, split reads, extra versions, unknown compression, no/unsupported versions, no line, wrong line, unterminated line, response/open/garbage as first frame) and then every sequence of up to 2 (quick) / 3 (thorough) frames from {open, data, window, close, open+close batch, nested batch, unknown code, repeated connect request, garbage, parser-hostile payload, empty, truncated, oversized length} into the real server.handle, while a real client uses a second connection of the same server. Oracle: handlers run exactly for the valid opens of negotiated connections (reference model of the session), never on a refused or malformed handshake; a refused peer reads the refusal and then EOF; the well-behaved client's echo is undisturbed; no panic is logged.",
        "note": "Length prefixes up to 16 MiB are executed; a 2^32-1 prefix is not (it requests a 4 GiB allocation per connection).",
    },
    "C19": {
        "engine": "schedmc", "level": "model_checking", "design_ref": "DESIGN.md §P C19",
        "technique": "stateless model checking under a controlled scheduler of the real mpx client with a scheduler-controlled connector and virtual time (bounds up to p=2,f=2,e=2 quick), plus whole-domain enumeration of the back-off function",
        "text": "The real client (on-demand and auto-connect) is driven with a connector whose dial outcomes are scripted or explorable environment choices; scenarios: concurrent Conn/Channel callers vs Close, server drop (clean close / transport cut) racing a caller followed by recovery, auto-connect with runs of dial failures under virtual time. At every quiescent point: exactly one of Connected/Disconnected, Connected implies Conn() returns a usable connection without dialling, live connections never exceed the maximum, Close is idempotent and terminal with nothing left open; back-off gaps within [25ms,1s] and non-decreasing; reconnectTimeout checked for every attempt 2..70000 and the shift-overflow region.",
        "note": "Dialling is replaced by the fake connector; timers fire only when no thread is enabled.",
    },
    "C06": {
        "engine": "schedmc", "level": "model_checking", "design_ref": "DESIGN.md §P C06",
        "technique": "stateless model checking of the real mpx code under a controlled scheduler: exhaustive DFS over all schedules of narrow 3-4 thread seams within a preemption bound (CHESS-style iterative context bounding)",
        "text": "Eight narrow seams built from the real connection internals (receive dispatch, send loop, handler task, user Free/SendAndClose, conn.close) are explored over ALL schedules with at most 2 (quick) / 3 (thorough) preemptions, unbounded free switches and 1 environment deviation; every sync/atomic/channel operation of mpx is a scheduling point. Oracle per execution: the connection stays open, no panic reaches the receive loop, send loop, conn.close or the user, no error record is logged, frames for the ended channel are dropped silently, a sibling channel still receives exactly its messages.",
        "note": "Interleavings inside baselibrary primitives are not explored (quiet shims); data races proper and weak-memory effects are outside the scheduler's view; bounds are stated in the evidence.",
    },
    "C07": {
        "engine": "schedmc", "level": "model_checking", "design_ref": "DESIGN.md §P C07, §D",
        "technique": "explicit-state BFS over event sequences on two real channel objects (all W in 1..16/32 and large W), plus a TLA+ model checked by TLC whose complete state graph for W<=5/8 is compared edge by edge with the graph produced by the real code, plus schedule exploration of the wake-up race",
        "text": "Implementation level: breadth-first search over all sequences of {Send(s), SendAndClose(s), deliver frame, consume, deliver window update} on a real sender channel and a real receiver channel joined by scripted wires, for every window W in 1..16 (quick) / 1..32 (thorough) and 2^16 (2^24), sizes {1,W/2-1,W/2,W/2+1,W-1,W,W+1,2W}; at every admission free>=min(size,W/2) and outstanding<=max(W,W-floor(W/2)+size); no terminal state has a parked sender. Model level: FlowControl.tla (same actions) is checked by TLC for the same invariants up to W=32/64; its full labelled state graph for W<=5 (quick) / 8 (thorough) is compared with the implementation graph: every model edge is reproduced by the real code and vice versa. The one-slot wake-up is explored separately over all schedules with up to 3/4 preemptions.",
        "note": "Events are atomic at harness granularity; equal abstractions are merged; for W beyond the conformance range the verdict rests on the W-parametric model plus the implementation BFS.",
    },
    "C20": {
        "engine": "schedmc", "level": "model_checking", "design_ref": "DESIGN.md §P C20",
        "technique": "stateless model checking under a controlled scheduler: exhaustive DFS over all schedules (preemption bound 2/3) of registration/unsubscription/close and open/close/handler-exit seams, with baselibrary flag and map operations as scheduling points",
        "text": "Listener seams (OnClosed / ConnContext.OnDisconnected registration, unsubscription, two registrations, each racing with conn.close) run in fine mode where the closed flag and the listener map operations are scheduling points; handler seams cover open-then-close, open+close batch, duplicate open id and connection loss. Oracle: a listener whose registration reported success and that was not unsubscribed is called exactly once, never if registration reported closed or unsub returned before the close began, Closed() is set inside every listener, a repeated close notifies nobody; the handler runs exactly once per accepted open and its context is cancelled exactly when the channel ends or the connection is lost.",
        "note": "Same scheduler assumptions as C06.",
    },
    "C12": {
        "engine": "seqmc", "level": "model_checking", "design_ref": "DESIGN.md §P C12",
        "technique": "explicit-state breadth-first search over all writer call sequences up to length 6/8 on the real writer (successor = replay on a fresh writer + one call; states deduplicated by an in-package dump of the complete writer state)",
        "text": "Every sequence of up to 6 (quick) / 8 (thorough) calls from a 46-op alphabet on an explicitly owned writer and its value/list/message/field handles (current and previous handle, handle copies, nested containers, Any, Copy, End/Build on any handle, Len/HasField/Err, Reset, Free, an unrelated pooled writer used in between) is executed on the real implementation; on every transition: no panic, the first error is sticky until Reset, Err() agrees with returned errors, a successful Build returns bytes that the library parser and an independent decoder consume completely, and a Reset writer dumps identically to a fresh one.",
        "note": "Equal dumps are assumed to have equal futures (the dump covers every field of writer and writerState). Known finding: calls on a MessageWriter value after End/Build on that value panic by design (m.w=nil).",
    },
    "C17": {
        "engine": "seqmc", "level": "exploration", "design_ref": "DESIGN.md §P C17",
        "technique": "bounded-exhaustive enumeration of the C01 tree space (incl. families beyond the preallocated table/stack sizes) with testing.AllocsPerRun==0 as the oracle for read walks and steady-state writes",
        "text": "For every tree of the C01 space, including families with up to 300 fields/elements and nesting depth 20 (beyond the 48 preallocated table slots and 14 stack entries), testing.AllocsPerRun must be exactly 0 for ParseValue plus a complete type-directed accessor walk, and, after warm-up, for re-writing the tree with a reused explicit writer and with the pooled NewXWriterBuffer route into a reused buffer.",
        "note": "GC is disabled during measurement (pool eviction by the GC is outside the steady-state claim). Wrong-type accessor calls (error paths) and Values()/Clone are not part of the walk.",
    },
    "C01": {
        "engine": "seqmc", "level": "exploration", "design_ref": "DESIGN.md §P C01",
        "technique": "bounded-exhaustive enumeration of value trees (all trees <=3/4 nodes over a boundary alphabet x every tag write order x 6 construction routes, plus parametric boundary families) against the tree as reference model",
        "text": "Every value tree up to the node bound over a boundary alphabet of all 15 scalar kinds, lists, messages (every ordered selection of distinct tags from {1,2,254,255,256,65535}) and structs, plus families sweeping element/field counts 0..60 and 250..260, tag bases, filler sizes 65500..65560 across the 64K offset boundary, nesting depth 1..20 and each big/small switch reason, is written through six construction routes (pooled, explicit+Free, caller buffer, raw Any, Copy/Merge, generic typed) of the real writer and read back through every accessor, including absent-tag probes around every written tag; the tree itself is the oracle.",
        "note": "Trees larger than the bound are covered only by the parametric families. Duplicate tags are outside the property's premise and not generated.",
    },
    "C02": {
        "engine": "seqmc", "level": "exploration", "design_ref": "DESIGN.md §P C02",
        "technique": "exhaustive enumeration of all byte strings up to 2/3 bytes and of structure-aware mutations of every small valid encoding, each driven through the whole public read surface on guard-page-bordered memory",
        "text": "All byte strings of length 0..2 (quick) / 0..3 (thorough), every single-byte x256 and trailer-pair mutation of every distinct small valid encoding, front truncations, hostile prefixes and explicit table corruptions are placed flush against both ends of a PROT_NONE-guarded mapping and pushed through every Parse*/Open*/Decode* entry point, table accessor, typed Value/List/Message accessor, typed list wrapper and the generated struct decoder. Oracle: no panic, no fault, 0<=n<=len(input), every returned slice inside the input.",
        "note": "Inputs longer than 3 bytes that are not within the enumerated mutation distance of a small valid encoding are not covered; an over-read is detected when it crosses the input boundary (guard page) or when a returned slice lies outside the input.",
    },
    "C08": {
        "engine": "seqmc", "level": "exploration", "design_ref": "DESIGN.md §P C08",
        "technique": "bounded-exhaustive enumeration of the C01 tree space x 4 writer histories, byte-compared with an independently written reference codec and a golden corpus frozen at the pinned commit",
        "text": "For every tree of the C01 space the library's bytes produced by a fresh writer, by a writer Reset over a 0xAA-filled buffer, by a pooled writer after a larger unrelated message and after a failed program must all equal the bytes of an independent reference encoder (seqmc/refcodec, sharing no code with the repository); the reference decoder must read the library bytes to the same tree, the library must read the reference bytes, and sha256 digests of all 74k quick-tier encodings are compared with a corpus captured at commit 554461f.",
        "note": "Trusts the reference codec as the statement of the pinned layout (cross-validated against the golden corpus).",
    },
    "C13": {
        "engine": "seqmc", "level": "exploration", "design_ref": "DESIGN.md §P C13",
        "technique": "exhaustive enumeration of short inputs and mutations; for each parser-accepted input, agreement of parse/open/probe and re-decoding behind an exhaustive single-byte prefix alphabet plus varint look-alike prefixes",
        "text": "For every input of the C02 space that ParseValue accepts: DecodeTypeSize and OpenValue(Err) must report the same type and size, re-parsing the returned value must be the identity, every nested field/element must be readable through probe, open and its typed accessor, and the value must decode identically (all from-the-end decoders fingerprinted) behind each of 282 prefixes: every single byte, 2/4/8-byte strings ending in 0xfd/0xfe/0xff, valid encodings.",
        "note": "Locality is compared through a 64-bit fingerprint of all decoder results.",
    },
    "C10": {
        "engine": "seqmc", "level": "exploration", "design_ref": "DESIGN.md §P C10",
        "technique": "bounded-exhaustive enumeration (whole domain for <=16-bit and, in thorough, all 2^32 patterns of int32/uint32/float32; structured lattice for 64-bit) with encode/decode identity and cross-width numeric oracle",
        "text": "Every scalar encoder is run against every decoder of its family over the whole domain of bool/byte/int16/uint16, over a lattice of all boundary values (powers of two ±{0,1,2}, every varint size-class edge and its zig-zag image, extremes) for 32/64-bit integers, over every (sign, exponent) x mantissa-pattern float, bin patterns and byte/string lengths 0..300 and 65534..65537 with hostile contents; thorough enumerates all 2^32 int32/uint32/float32 patterns. Oracle: decode(encode(v)) = v, encoder size = appended bytes = decoder size = probe size, and reads through another width return the value iff representable, else an error.",
        "note": "64-bit domains are covered by the lattice only; NaN payload bits are not compared; for float64 values in float32 range that are not exactly representable both correct rounding and an error are accepted (the statement is silent).",
    },
}
