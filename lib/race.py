"""auxiliary free-running -race pass (sampled; reported separately in the C18 evidence)."""
import os
import re
import subprocess

import vcheck as V


def run(seconds):
    ov = {}
    V.add_tree(ov, os.path.join(V.VERIF, "racecheck"), os.path.join(V.REPO, "zzverif", "racecheck"))
    op = V.write_overlay("racecheck", ov)
    out = os.path.join(V.SCRATCH, "bin", "racecheck")
    V.go_build(op, "./zzverif/racecheck", out, race=True)
    env = dict(os.environ)
    env["GORACE"] = "halt_on_error=0 history_size=2"
    try:
        r = subprocess.run([out, str(seconds)], capture_output=True, text=True, timeout=seconds * 6 + 120, env=env)
    except subprocess.TimeoutExpired:
        return {"iterations": 0, "races": [], "note": "race pass timed out (incomplete)"}
    m = re.search(r"iterations=(\d+)", r.stdout)
    blocks = r.stderr.split("WARNING: DATA RACE")[1:]
    races = []
    seen = set()
    for b in blocks:
        frames = [re.sub(r"\(\)$", "", f.strip()) for f in re.findall(r"^\s+(github\.com/basecomplextech/spec/\S+)$", b, re.M)]
        frames = [f for f in frames if "/zzverif/" not in f]
        if not frames:
            continue  # not inside the module
        sig = " | ".join(sorted(set(frames))[:4])
        if sig in seen:
            continue
        seen.add(sig)
        races.append({"sig": sig, "report": b[:2500]})
    mism = re.findall(r"RACECHECK-MISMATCH.*", r.stderr)
    return {"iterations": int(m.group(1)) if m else 0, "races": races, "mismatches": mism[:5], "rc": r.returncode,
            "note": "" if m else "racecheck did not finish: " + r.stderr[-500:]}
