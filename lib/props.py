"""property registry: how each property's check is built and run."""
import os
import subprocess
import sys

import vcheck as V


def seq_check(check, level, assumptions, parts=None, nshards=None, timeout=None, env=None):
    """generic Engine A check: run `seqmc <check>` sharded (optionally several parts)."""

    def run(prop, tier, seed, replay, t0):
        binary = V.build_seqmc()
        if replay:
            e = dict(os.environ)
            if env:
                e.update(env(tier))
            r = subprocess.run([binary, check, "-tier", tier, "-replay", replay], env=e)
            return r.returncode
        jobs = []
        ps = parts(tier) if parts else [""]
        for p in ps:
            jobs += V.sharded(binary, check, tier, seed, nshards or V.NCPU, part=p)
        if env:
            e = dict(os.environ)
            e.update(env(tier))
            for j in jobs:
                j["env"] = e
        to = (timeout or {}).get(tier, 900 if tier == "quick" else 7200)
        results, failures = V.run_jobs(jobs, os.path.join(V.SCRATCH, "work", prop), to)
        merged = V.merge(results)
        return V.finish(prop, level, tier, seed, merged, failures, assumptions, t0)

    return run


def golden_env(tier):
    return {"VERIF_GOLDEN": os.environ.get("VERIF_GOLDEN", os.path.join(V.VERIF, "golden", "c08_golden.json"))}


PROPS = {
    "C12": seq_check("c12", "model_checking", ["states are merged when the in-package dump of the complete writer state (err, state pointer nil-ness, flags, stack, tables, buffer length+hash) and the handle slots are equal: equal dumps have equal futures because the dump covers every field the writer reads", "first ops are distributed over shards with independent seen-sets (duplicates cost time only)"]),
    "C17": seq_check("c17", "exploration", ["allocation behaviour is measured with testing.AllocsPerRun with the GC disabled (pool eviction by the GC is outside the steady-state claim)", "ValueList.Values()/MessageList.Values()/Clone allocate by design and are not part of the read walk"]),
    "C13": seq_check("c13", "exploration", ["locality is compared through a fingerprint of all from-the-end decoders (64-bit FNV; a collision could hide a difference)"]),
    "C02": seq_check("c02", "exploration", ["an out-of-bounds read is observable only if it crosses the input boundary into the PROT_NONE guard page (inputs are placed flush at both ends of the guarded region); returned slices are checked by pointer arithmetic", "List.Get/GetBytes are only called with 0<=i<Len (documented to panic otherwise)", "the generated struct decoder is a hand copy of the generator template decode_method for struct{int32;string}"]),
    "C08": seq_check("c08", "exploration", ["the reference codec (seqmc/refcodec) is a correct statement of the pinned layout; it was written from format.md and the pinned constants and agrees with the golden corpus captured at 554461f"], env=golden_env),
    "C01": seq_check("c01", "exploration", ["trees beyond the node bound are covered only by the parametric families"]),
    "C10": seq_check("c10", "exploration", [
        "NaN payload bits are not compared (a NaN must read back as a NaN): widening float32->float64->float32 quiets signalling NaNs in hardware",
        "float64 read through the float32 accessor: exactly representable values must be returned, finite magnitudes beyond MaxFloat32 must be errors; for in-range inexact values the statement is silent, so correct rounding or an error are both accepted",
    ]),
}


def setup():
    """build every engine once (warms the Go build cache)."""
    os.makedirs(V.SCRATCH, exist_ok=True)
    try:
        V.build_seqmc()
    except V.HarnessError as e:
        print("setup failed:", e, file=sys.stderr)
        return 2
    return 0
