"""property registry: how each property's check is built and run."""
import os
import subprocess
import sys

import vcheck as V


def seq_check(check, level, assumptions, parts=None, nshards=None, timeout=None, env=None):
    """generic Engine A check: run `seqmc <check>` sharded (optionally several parts)."""

    def run(prop, tier, seed, replay, t0):
        binary = V.build_seqmc()
        if replay:
            e = dict(os.environ)
            if env:
                e.update(env(tier))
            r = subprocess.run([binary, check, "-tier", tier, "-replay", replay], env=e)
            return r.returncode
        jobs = []
        ps = parts(tier) if parts else [""]
        # graceful wall-clock budget inside the workers (exhaustive=false when hit), well below the hard timeout
        budget = {"quick": 600, "thorough": 2400}[tier]
        for p in ps:
            jobs += V.sharded(binary, check, tier, seed, nshards or V.NCPU, part=p, extra=("-budget", str(budget)))
        if env:
            e = dict(os.environ)
            e.update(env(tier))
            for j in jobs:
                j["env"] = e
        to = (timeout or {}).get(tier, 900 if tier == "quick" else 7200)
        results, failures = V.run_jobs(jobs, os.path.join(V.SCRATCH, "work", prop), to)
        merged = V.merge(results)
        return V.finish(prop, level, tier, seed, merged, failures, assumptions, t0)

    return run


def lang_check(check, level, assumptions):
    def run(prop, tier, seed, replay, t0):
        binary = V.build_langmc()
        env = dict(os.environ)
        env["VERIF_REPO_DIR"] = V.REPO
        if replay:
            return subprocess.run([binary, check, "-tier", tier, "-replay", replay], env=env).returncode
        jobs = V.sharded(binary, check, tier, seed, V.NCPU)
        for j in jobs:
            j["env"] = env
        results, failures = V.run_jobs(jobs, os.path.join(V.SCRATCH, "work", prop), 900 if tier == "quick" else 7200)
        merged = V.merge(results)
        return V.finish(prop, level, tier, seed, merged, failures, assumptions, t0)
    return run


def sched_check(level, assumptions, budget=None, shards=None, race_pass=None):
    """generic Engine B check: every scenario registered for the property, each sharded over worker processes."""
    budget = budget or {"quick": 90, "thorough": 1200}

    def run(prop, tier, seed, replay, t0):
        binary = V.build_schedmc()
        if replay:
            return subprocess.run([binary, "replay", "-replay", replay]).returncode
        names = subprocess.run([binary, "list", prop], capture_output=True, text=True).stdout.split()
        if not names:
            raise V.HarnessError("no scenarios registered for " + prop)
        # determinism self-test (goroutine identity checked at every shim call) on every scenario
        for n in names:
            r = subprocess.run([binary, "selftest", "-scenario", n], capture_output=True, text=True, timeout=300)
            if r.returncode != 0:
                V.log(r.stdout[-3000:] + r.stderr[-3000:])
                raise V.HarnessError("determinism self-test failed for scenario " + n)
        nsh = (shards or {}).get(tier, V.NCPU)
        # per-worker wall-clock budget (graceful: exhaustive=false when hit).  Thorough: the whole check is planned
        # for about 40 minutes whatever the number of scenarios.
        # thorough adds the fine-mode sweep: every scenario that is not fine by itself is explored once more, at its quick
        # bounds, with the locks and atomics INSIDE the baselibrary primitives (flag, queue, maps, pools, routines,
        # contexts) as scheduling points, i.e. without the assumption that those primitives are atomic at their call
        # boundary. Budgeted: iterative deviation bounding reports the number of complete layers.
        fine = tier == "thorough"
        njobs = len(names) * nsh * (2 if fine else 1)
        per_job = budget[tier]
        if tier == "thorough":
            per_job = max(300, min(budget[tier], 2400 * V.NCPU // max(1, njobs)))
        jobs = []
        for n in names:
            for i in range(nsh):
                jobs.append({"cmd": [binary, "explore", "-prop", prop, "-scenario", n, "-tier", tier, "-shard", str(i), "-nshards", str(nsh),
                                     "-seed", str(seed), "-budget", str(per_job)], "name": "%s_%d" % (n, i)})
        if fine:
            for n in names:
                r = subprocess.run([binary, "selftest", "-fine", "-scenario", n], capture_output=True, text=True, timeout=600)
                if r.returncode != 0:
                    V.log(r.stdout[-3000:] + r.stderr[-3000:])
                    raise V.HarnessError("determinism self-test (fine mode) failed for scenario " + n)
                for i in range(nsh):
                    jobs.append({"cmd": [binary, "explore", "-fine", "-prop", prop, "-scenario", n, "-tier", "quick", "-shard", str(i), "-nshards", str(nsh),
                                         "-seed", str(seed), "-budget", str(per_job)], "name": "%s_fine_%d" % (n, i)})
        results, failures = V.run_jobs(jobs, os.path.join(V.SCRATCH, "work", prop), per_job * 3 + 120)
        merged = V.merge(results)
        extra = None
        if race_pass:
            import race
            rr = race.run(race_pass[tier])
            extra = {"auxiliary_free_running_race_pass": {"sampled": True, "seconds": race_pass[tier], "iterations": rr["iterations"],
                                                          "races_inside_module": [x["sig"] for x in rr["races"]], "note": rr.get("note", "")}}
            for x in rr["races"]:
                merged["violations"].append({"sig": "data race inside the library (free-running -race pass): " + x["sig"], "desc": x["report"],
                                             "replay": {"kind": "race", "cmd": "bin/vcheck C18 (auxiliary pass: zzverif/racecheck built with -race)"}})
            for mm in rr.get("mismatches", []):
                merged["violations"].append({"sig": "free-running pass: result mismatch", "desc": mm, "replay": {"kind": "race"}})
        return V.finish(prop, level, tier, seed, merged, failures, assumptions + SCHED_ASSUMPTIONS, t0, extra_cov=extra)

    return run


SCHED_ASSUMPTIONS = [
    "baselibrary primitives (flag, asyncmap, bytequeue, routine, context, pools) are executed atomically ('quiet') unless a scenario sets fine mode; they are assumed linearizable at their call boundary",
    "sync.Pool is replaced by a deterministic LIFO pool emptied at the start of every execution; weak-memory reorderings and unsynchronised data accesses are outside the scheduler's view",
    "the transport is a model (vnet): ordered reliable byte stream with cut / half-close faults",
]


def golden_env(tier):
    return {"VERIF_GOLDEN": os.environ.get("VERIF_GOLDEN", os.path.join(V.VERIF, "golden", "c08_golden.json"))}


PROPS = {
    "C16": lambda *a: __import__("langgen").check("c16", "C16", "exploration", ["both schema versions are generated by the real pipeline and compiled; values are written with one version's generated writer and read with the other's generated reader (reflective checker); wire compatibility is judged by tag, kind and list-ness"], call="vgen.CheckEverything()")(*a),
    "C14": lambda *a: __import__("langgen").check("c14", "C14", "exploration", ["mutation operators are applied to one template schema per rule (every rule of the statement has at least one operator); rule-breaking schemas must be rejected with an error naming the element, everything accepted must build"])(*a),
    "C05": lambda *a: __import__("langgen").check("c05", "C05", "exploration", ["expected tags, kinds and values come from the harness' own schema description (which also renders the .spec text), never from the generator", "service code is compile-checked only"])(*a),
    "C15": lang_check("c15", "exploration", ["the printer/dumper of syntax trees in the harness is the reference for 'what the source says'"]),
    "C18": sched_check("model_checking", ["writer programs are interleaved at operation granularity and at pool Get/Put (writers are single-goroutine objects; the shared objects are the pools)",
                                          "unsynchronised accesses are looked for by a separate free-running -race pass over loopback TCP (auxiliary, sampled by wall-clock; the deciding part is the schedule exploration)"],
                       race_pass={"quick": 6, "thorough": 60}),
    "C04": sched_check("model_checking", ["the rpc client runs on a real mpx client whose dialer is replaced by a scheduler-controlled connector; the server side is the real rpc server handler on real server connections"]),
    "C19": sched_check("model_checking", ["the TCP dialer is replaced by a scheduler-controlled connector (dial outcomes are scripted or environment choices); time is virtual: timers fire only when no thread is enabled", "quiescence = no enabled thread (scheduler-observable)"]),
    "C09": sched_check("fault_enumeration", ["fault points are byte offsets of the session recorded under the default schedule; 'within bounded time' is decided as 'in every maximal execution within the step horizon' (virtual time): a waiter that is never released is a deadlock of the execution"]),
    "C11": sched_check("model_checking", ["oversized length prefixes are exercised up to 16 MiB; a 2^32-1 prefix (a 4 GiB allocation request per connection) is not executed in the harness"]),
    "C03": sched_check("model_checking", []),
    "C07": lambda *a: __import__("c07").check(*a),
    "C20": sched_check("model_checking", ["listener scenarios run in fine mode: flag and listener-map operations of baselibrary are decision points"]),
    "C06": sched_check("model_checking", []),
    "C12": seq_check("c12", "model_checking", ["states are merged when the in-package dump of the complete writer state (err, state pointer nil-ness, flags, stack, tables, buffer length+hash) and the handle slots are equal: equal dumps have equal futures because the dump covers every field the writer reads", "first ops are distributed over shards with independent seen-sets (duplicates cost time only)"]),
    "C17": seq_check("c17", "exploration", ["allocation behaviour is measured with testing.AllocsPerRun with the GC disabled (pool eviction by the GC is outside the steady-state claim)", "ValueList.Values()/MessageList.Values()/Clone allocate by design and are not part of the read walk"]),
    "C13": seq_check("c13", "exploration", ["locality is compared through a fingerprint of all from-the-end decoders (64-bit FNV; a collision could hide a difference)"]),
    "C02": seq_check("c02", "exploration", ["an out-of-bounds read is observable only if it crosses the input boundary into the PROT_NONE guard page (inputs are placed flush at both ends of the guarded region); returned slices are checked by pointer arithmetic", "List.Get/GetBytes are only called with 0<=i<Len (documented to panic otherwise)", "the generated struct decoder is a hand copy of the generator template decode_method for struct{int32;string}"]),
    "C08": seq_check("c08", "exploration", ["the reference codec (seqmc/refcodec) is a correct statement of the pinned layout; it was written from format.md and the pinned constants and agrees with the golden corpus captured at 554461f"], env=golden_env),
    "C01": seq_check("c01", "exploration", ["trees beyond the node bound are covered only by the parametric families"]),
    "C10": seq_check("c10", "exploration", [
        "NaN payload bits are not compared (a NaN must read back as a NaN): widening float32->float64->float32 quiets signalling NaNs in hardware",
        "float64 read through the float32 accessor: exactly representable values must be returned, finite magnitudes beyond MaxFloat32 must be errors; for in-range inexact values the statement is silent, so correct rounding or an error are both accepted",
    ]),
}


def setup():
    """build every engine once (warms the Go build cache)."""
    os.makedirs(V.SCRATCH, exist_ok=True)
    try:
        V.build_seqmc()
        V.build_schedmc()
        V.build_langmc()
    except V.HarnessError as e:
        print("setup failed:", e, file=sys.stderr)
        return 2
    return 0
