#!/usr/bin/env python3
"""generates /verif/MANIFEST.json from lib/manifest_meta.py (single source of truth for the interface)."""
import json, os, sys
sys.path.insert(0, os.path.dirname(os.path.abspath(__file__)))
import manifest_meta as M

V = os.path.dirname(os.path.dirname(os.path.abspath(__file__)))
ids = [json.loads(l)["id"] for l in open(V + "/properties.jsonl")]
checks, na = [], []
for pid in ids:
    c = M.CHECKS.get(pid)
    if c is None:
        na.append({"property_id": pid, "reason": M.NOT_APPLICABLE.get(pid, "check not built yet in this session (work in progress; see DESIGN.md for the planned check)")})
        continue
    checks.append({
        "property_id": pid,
        "quick_cmd": "bin/vcheck %s --tier quick" % pid,
        "thorough_cmd": "bin/vcheck %s --tier thorough" % pid,
        "evidence_file": "/verif/evidence/%s.json" % pid,
        "replay_cmd_template": "bin/vcheck %s --replay {path}" % pid,
        "engine": c["engine"],
        "level_claimed": {"category": c["level"], "text": c["text"], "design_ref": c["design_ref"]},
        "level_note": c["note"],
        "technique": c["technique"],
    })
man = {
    "version": 1,
    "setup_cmd": "bin/vcheck setup",
    "hooks": M.HOOKS,
    "engines": M.ENGINES,
    "checks": checks,
    "notes": M.NOTES,
    "not_applicable": na,
}
json.dump(man, open(V + "/MANIFEST.json", "w"), indent=1)
print("wrote MANIFEST.json: %d checks, %d not_applicable" % (len(checks), len(na)))
