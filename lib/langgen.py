"""Engine C orchestration for C05/C14/C16: schemas -> real compiler+generator (in-process) -> go build -> reflective checks."""
import json
import os
import re
import shutil
import subprocess
import time
from concurrent.futures import ThreadPoolExecutor

import vcheck as V

GOMOD = """module lcmod

go 1.24

require github.com/basecomplextech/spec v0.0.0
require github.com/basecomplextech/baselibrary v0.0.0-20250218120829-9ca66e53fd5f

replace github.com/basecomplextech/spec => %s
"""

VRUN = """package main

import (
	"encoding/json"
	"os"

	"lcmod/vgen"
%s
)

func main() {
	json.NewEncoder(os.Stdout).Encode(%s)
}
"""


def goenv():
    e = V.goenv()
    e.pop("GODEBUG", None)
    return e


def prepare(dirpath):
    shutil.rmtree(dirpath, ignore_errors=True)
    os.makedirs(dirpath)
    with open(os.path.join(dirpath, "go.mod"), "w") as f:
        f.write(GOMOD % V.REPO)
    shutil.copy(os.path.join(V.REPO, "go.sum"), dirpath)
    os.makedirs(os.path.join(dirpath, "vgen"))
    shutil.copy(os.path.join(V.VERIF, "langmc", "vgen", "vgen.go"), os.path.join(dirpath, "vgen"))


def shard(binary, mode, tier, seed, i, n, call="vgen.CheckAll()"):
    d = os.path.join(V.SCRATCH, "gen", "%s_%d" % (mode, i))
    prepare(d)
    env = dict(os.environ)
    env["VERIF_GEN_DIR"] = d
    r = subprocess.run([binary, "gen", "-part", mode, "-tier", tier, "-shard", str(i), "-nshards", str(n), "-seed", str(seed)],
                       capture_output=True, text=True, env=env, timeout=1800)
    if r.returncode != 0:
        raise V.HarnessError("langmc gen failed: " + r.stderr[-2000:])
    man = json.load(open(os.path.join(d, "manifest.json")))
    # build every generated package; collect per-package compile errors
    b = subprocess.run(["go", "build", "./out/..."], cwd=d, capture_output=True, text=True, env=goenv(), timeout=3600)
    failed = {}
    cur = None
    for line in (b.stderr + b.stdout).splitlines():
        m = re.match(r"# lcmod/out/(\S+)", line)
        if m:
            cur = m.group(1)
            failed[cur] = []
        elif cur is not None and line.strip():
            failed[cur].append(line.strip())
        elif line.strip() and b.returncode != 0 and cur is None:
            failed.setdefault("?", []).append(line.strip())
    if "?" in failed and len(failed) == 1:
        raise V.HarnessError("go build failed outside the generated packages: " + "\n".join(failed["?"])[:2000])
    problems = {}
    if any(e.get("registry") for e in man["entries"]):
        ok_pkgs = sorted(p for p in os.listdir(os.path.join(d, "out")) if p not in failed and os.path.exists(os.path.join(d, "out", p, "zz_registry.go")))
        os.makedirs(os.path.join(d, "cmd", "vrun"))
        with open(os.path.join(d, "cmd", "vrun", "main.go"), "w") as f:
            f.write(VRUN % ("\n".join('\t_ "lcmod/out/%s"' % p for p in ok_pkgs), call))
        rr = subprocess.run(["go", "run", "./cmd/vrun"], cwd=d, capture_output=True, text=True, env=goenv(), timeout=3600)
        if rr.returncode != 0:
            raise V.HarnessError("reflective checker failed to run: " + (rr.stderr or rr.stdout)[-3000:])
        problems = json.loads(rr.stdout)
    shutil.rmtree(d, ignore_errors=True)
    return man, failed, problems


def run(mode, tier, seed, nshards, call="vgen.CheckAll()"):
    binary = V.build_langmc()
    with ThreadPoolExecutor(max_workers=nshards) as ex:
        outs = list(ex.map(lambda i: shard(binary, mode, tier, seed, i, nshards, call), range(nshards)))
    return outs


def names_element(err, mention):
    """the error names the element: whole-identifier, case-sensitive match outside the file/position prefix."""
    body = re.sub(r"^(\S+: )?(\S*f\d+\.spec)(:\d+:\d+)?:? ?", "", err.strip())
    return any(re.search(r"(?<![A-Za-z0-9_])" + re.escape(m) + r"(?![A-Za-z0-9_])", body) for m in mention.split("|"))


def sig_norm(s):
    s = re.sub(r"p\d{4}\w*", "pNNNN", s)
    s = re.sub(r"\d+", "#", s)
    return s[:180]


def check(mode, prop, level, assumptions, call="vgen.CheckAll()"):
    def runner(prop_, tier, seed, replay, t0):
        if replay:
            art = json.load(open(replay))
            print("replay: schema sources:\n" + art.get("replay", {}).get("source", ""))
            print("re-run `bin/vcheck %s` to reproduce (the schema is regenerated deterministically from its id: %s)" % (prop_, art.get("replay", {}).get("id")))
            return 0
        nsh = 4 if tier == "quick" else 8
        outs = run(mode, tier, seed, nsh, call)
        merged = {"evaluations": 0, "distinct": 0, "states": 0, "transitions": 0, "traces": 0, "exhaustive": True, "samples": [], "violations": [],
                  "violations_total": 0, "notes": [], "outcomes": {}, "bounds": {}, "rule": "", "parts": {}}
        total = 0
        for man, failed, problems in outs:
            total = man["total_schemas"]
            for e in man["entries"]:
                merged["evaluations"] += 1
                rep = {"id": e["id"], "source": e["source"], "rule": e.get("rule", "")}
                outcome = "generated+compiled"
                v = None
                bad_build = [p for p in e["pkgs"] if p in failed]
                if e.get("panic"):
                    outcome = "panic"
                    v = ("compiler/generator panics: " + sig_norm(e["panic"].splitlines()[0]), e["panic"])
                elif not e["generated"]:
                    outcome = "rejected"
                    if os.environ.get("VERIF_DUMP_REJECTS"):
                        print("REJECT\t%s\t%r\t%s" % (e.get("rule"), e.get("mention"), e["error"].replace("\n", " | ")[:200]))
                    if e["expect"] == "ok":
                        v = ("valid schema rejected: " + e["id"].split(" tag ")[0][:60] + ": " + sig_norm(e["error"]), "schema %s\nerror: %s" % (e["id"], e["error"]))
                    elif e.get("mention") and not names_element(e["error"], e["mention"]):
                        v = ("rejection does not name the offending element (%s)" % e.get("rule"), "schema %s\nerror: %s\nexpected the error to mention %r" % (e["id"], e["error"], e["mention"]))
                elif bad_build:
                    outcome = "generated, does not compile"
                    v = ("accepted schema yields Go code that does not compile (%s): %s" % (e.get("rule") or e["id"][:50], sig_norm(failed[bad_build[0]][0])),
                         "schema %s\n%s" % (e["id"], "\n".join(failed[bad_build[0]][:6])))
                elif e["expect"] == "reject":
                    outcome = "rule-breaking schema accepted (output compiles)"
                    v = ("schema breaking a language rule is accepted (%s)" % e.get("rule"), "schema %s was compiled and its output builds, but it breaks the rule: %s" % (e["id"], e.get("rule")))
                if v is None and e.get("regen"):
                    v = ("regeneration is not deterministic", e["regen"])
                if v is None:
                    for p in e["pkgs"]:
                        for prob in problems.get(p, [])[:2]:
                            outcome = "generated code disagrees with the schema"
                            v = ("generated code is not a faithful translation: " + sig_norm(re.sub(r"^\S+ \[[^\]]*\] ", "", prob)), "schema %s\n%s" % (e["id"], "\n".join(problems[p][:6])))
                            break
                        if v:
                            break
                merged["outcomes"][outcome] = merged["outcomes"].get(outcome, 0) + 1
                if outcome != "rejected":
                    merged["distinct"] += 1
                if v:
                    merged["violations"].append({"sig": v[0], "desc": v[1][:3000] + "\nsource: " + e["source"][:1500], "replay": rep})
                if len(merged["samples"]) < 10 and merged["evaluations"] % 9 == 1:
                    merged["samples"].append({"schema": e["id"], "source": e["source"][:400], "outcome": outcome})
        if mode == "c14":
            for sig, desc in cli_check():
                merged["violations"].append({"sig": sig, "desc": desc, "replay": {"id": "cli", "source": desc}})
            merged["evaluations"] += 8
        merged["rule"] = RULES[mode] % {"total": total}
        merged["parts"] = {mode: {"evaluations": merged["evaluations"], "distinct": merged["distinct"], "states": 0, "transitions": 0, "exhaustive": True, "wall_s": time.time() - t0, "rule": merged["rule"]}}
        return V.finish(prop_, level, tier, seed, merged, [], assumptions, t0)
    return runner


RULES = {
    "c05": "%(total)d schemas of a bounded grammar (every scalar kind as scalar and list across tag classes {1,2,255,256,65535}; any/message fields; imported, aliased and local enum/struct/message references and their lists; nested structs; recursive messages; 10 name classes incl. contextual and Go keywords for fields and struct members; multi-file package; 40-field message; services with every method shape), each compiled and generated by the real pipeline, built with the Go compiler, and every declared message/struct/enum driven by the reflective checker with value sets {all-zero, all-boundary, all-distinct, one-hot per field}: generated writer -> generated reader, dynamic API by declared tag and wire type, re-open, struct encode/decode inverse, enum<->int32, byte-identical regeneration; distinct_nontrivial = schemas that were generated",
    "c14": "%(total)d schemas: the valid C05 schemas plus one mutation operator per language rule applied at its applicable sites; each goes through the real compile+generate pipeline in-process and every generated package through `go build`: the result must be an error naming the offending element, or code the Go compiler accepts; never a panic; distinct_nontrivial = schemas the compiler accepted",
    "c16": "%(total)d (schema A, schema A') pairs derived by edit sequences of length <=2 {add field of each kind, remove, rename, reorder}; values written with A's generated writer and read with A' (and back); Copy/Merge through A' preserves A's unknown fields",
}


def cli_check():
    """the real CLI entry point: exit status must be non-zero after a lexical error or a broken rule, zero for a valid schema."""
    d = os.path.join(V.SCRATCH, "gen", "cli")
    shutil.rmtree(d, ignore_errors=True)
    os.makedirs(d)
    binp = os.path.join(V.SCRATCH, "bin", "spec")
    r = subprocess.run(["go", "build", "-o", binp, "./cmd/spec"], cwd=V.REPO, env=goenv(), capture_output=True, text=True)
    if r.returncode != 0:
        return [("cmd/spec does not build", r.stderr[-1500:])]
    cases = {
        "valid": ("options ( go_package=\"x/valid\" )\nmessage M { a int32 1; }\n", 0),
        "lexerr": ("options ( go_package=\"x/lexerr\" )\nmessage M { a int32 1; }\noptions (\n x=\"abc\n)\n", 1),
        "badchar": ("options ( go_package=\"x/badchar\" )\nmessage M { a int32 1; } @\n", 1),
        "rule": ("options ( go_package=\"x/rule\" )\nmessage M { a int32 0; }\n", 1),
        # lexical errors that leave a token sequence the grammar accepts: the scanner reports them, the parser must not
        # drop the report (the file is valid apart from the error)
        "blockcomment": ("options ( go_package=\"x/blockcomment\" )\nmessage M { a int32 1; }\n/* never closed\n", 1),
        "escape": ("options ( go_package=\"x/escape\" )\noptions ( note=\"a\\qb\" )\nmessage M { a int32 1; }\n", 1),
        "nul": ("options ( go_package=\"x/nul\" )\nmessage M { a int32 1; }\n\x00\nmessage N { b int32 1; }\n", 1),
        "badutf8": ("options ( go_package=\"x/badutf8\" )\n// comment \udcff\nmessage M { a int32 1; }\n", 1),
    }
    out = []
    for name, (text, want_fail) in cases.items():
        sd = os.path.join(d, name)
        os.makedirs(sd)
        with open(os.path.join(sd, "f.spec"), "w", encoding="utf-8", errors="surrogateescape") as f:
            f.write(text)
        r = subprocess.run([binp, "generate", sd, os.path.join(d, "out_" + name)], capture_output=True, text=True, timeout=60)
        failed = r.returncode != 0
        if failed != bool(want_fail):
            out.append(("spec generate exits %s for a %s schema" % ("non-zero" if failed else "zero (success)", name),
                        "cmd/spec generate on:\n%s\nexit=%d stderr=%s" % (text, r.returncode, r.stderr[-600:])))
    shutil.rmtree(d, ignore_errors=True)
    return out
