"""C07: implementation-level BFS + TLC model + edge-by-edge conformance of the TLC state graph with the graph
produced by the real channel objects."""
import json
import os
import re
import shutil
import subprocess
import time

import vcheck as V


def sizes(W):
    return sorted({s for s in (1, W // 2 - 1, W // 2, W // 2 + 1, W - 1, W, W + 1, 2 * W) if s >= 1})


def go_list(xs):
    return "[" + " ".join(str(x) for x in xs) + "]"


def parse_seq(s):
    s = s.strip()
    assert s.startswith("<<") and s.endswith(">>"), s
    body = s[2:-2].strip()
    return [int(x) for x in body.split(",")] if body else []


def state_key(label):
    d = {}
    for part in label.split("\\n"):
        m = re.match(r"/\\\\ (\w+) = (.*)", part)
        if m:
            d[m.group(1)] = m.group(2)
    b = lambda v: "true" if v == "TRUE" else "false"
    return "%s|%s|%s|%s|%s|%s|%s|%s|%s|%s|%s|sent=%s" % (
        d["win"], b(d["opened"]), d["blocked"], d["wake"], go_list(parse_seq(d["dataWire"])), go_list(parse_seq(d["queue"])),
        d["recv"], go_list(parse_seq(d["ackWire"])), b(d["closedS"]), b(d["closedR"]), d["returned"], d["sent"]), d


def run_tlc(W, msgs, workdir, dump):
    os.makedirs(workdir, exist_ok=True)
    shutil.copy(os.path.join(V.VERIF, "tla", "FlowControl.tla"), workdir)
    cfg = os.path.join(workdir, "fc.cfg")
    with open(cfg, "w") as f:
        f.write("CONSTANTS\n  W = %d\n  Sizes = {%s}\n  MaxMsgs = %d\nINIT Init\nNEXT Next\nINVARIANTS NoBadAdmission NoStuckSender ParkedIsJustified WindowAccounting\n"
                % (W, ", ".join(map(str, sizes(W))), msgs))
    cmd = ["tlc", "-deadlock", "-workers", "2", "-metadir", os.path.join(workdir, "meta")]
    if dump:
        cmd += ["-dump", "dot,actionlabels", os.path.join(workdir, "fc.dot")]
    cmd += ["-config", cfg, "FlowControl.tla"]
    r = subprocess.run(cmd, cwd=workdir, capture_output=True, text=True, timeout=1800)
    out = r.stdout + r.stderr
    m = re.search(r"(\d+) states generated, (\d+) distinct states found", out)
    ok = "No error has been found" in out
    inv = re.findall(r"Invariant (\w+) is violated", out)
    return {"W": W, "ok": ok, "generated": int(m.group(1)) if m else 0, "distinct": int(m.group(2)) if m else 0, "violated": inv, "log": out[-3000:]}


def conformance(binary, W, msgs, workdir):
    """returns (n_model_edges, n_impl_edges, problems)"""
    t = run_tlc(W, msgs, workdir, True)
    problems = []
    if not t["ok"]:
        problems.append({"sig": "TLC: invariant %s violated in the flow-control model" % ",".join(t["violated"] or ["?"]),
                         "desc": "W=%d msgs=%d\n%s" % (W, msgs, t["log"][-1500:]), "replay": {"kind": "tlc", "W": W, "msgs": msgs}})
    nodes, medges = {}, set()
    with open(os.path.join(workdir, "fc.dot")) as f:
        for line in f:
            m = re.match(r'(-?\d+) \[label="([^"]*)"', line)
            if m:
                nodes[m.group(1)] = state_key(m.group(2))[0]
                continue
            m = re.match(r'(-?\d+) -> (-?\d+) \[label="([^"]*)"', line)
            if m:
                medges.add((m.group(1), m.group(3), m.group(2)))
    model = set()
    for a, lab, b in medges:
        lab = lab.replace("StartSend", "send").replace("SendClose", "sendclose").replace("Deliver", "deliver").replace("Consume", "consume").replace("Ack", "ack")
        model.add((nodes[a], lab, nodes[b]))
    r = subprocess.run([binary, "c07", "-graph", str(W), "-msgs", str(msgs)], capture_output=True, text=True, timeout=1800)
    if r.returncode != 0:
        raise V.HarnessError("c07 graph dump failed: " + r.stderr[-2000:])
    g = json.loads(r.stdout)
    impl = set((e["from"], e["event"], e["to"]) for e in g["edges"])
    for e in sorted(model - impl)[:3]:
        problems.append({"sig": "model edge not reproduced by the implementation (%s)" % e[1].split("(")[0],
                         "desc": "W=%d: model has %s --%s--> %s but the real channels do not" % (W, e[0], e[1], e[2]), "replay": {"kind": "conformance", "W": W, "edge": list(e)}})
    for e in sorted(impl - model)[:3]:
        problems.append({"sig": "implementation edge missing from the model (%s)" % e[1].split("(")[0],
                         "desc": "W=%d: real channels do %s --%s--> %s, the model does not" % (W, e[0], e[1], e[2]), "replay": {"kind": "conformance", "W": W, "edge": list(e)}})
    shutil.rmtree(workdir, ignore_errors=True)
    return len(model), len(impl), len(set(nodes.values())), t, problems


def check(prop, tier, seed, replay, t0):
    binary = V.build_schedmc()
    if replay:
        art = json.load(open(replay))
        k = art.get("replay", {}).get("kind")
        if k == "c07":
            return subprocess.run([binary, "c07", "-replay", replay]).returncode
        if k in ("conformance", "tlc"):
            W = art["replay"]["W"]
            n1, n2, ns, t, problems = conformance(binary, W, art["replay"].get("msgs", 3), os.path.join(V.SCRATCH, "work", "C07", "replay"))
            print("replay: W=%d model edges=%d impl edges=%d problems=%s" % (W, n1, n2, [p["sig"] for p in problems]))
            return 0
        return subprocess.run([binary, "replay", "-replay", replay]).returncode
    thorough = tier == "thorough"
    budget = 1200 if thorough else 120
    work = os.path.join(V.SCRATCH, "work", "C07")
    shutil.rmtree(work, ignore_errors=True)
    os.makedirs(work)
    jobs = []
    nsh = V.NCPU
    for i in range(nsh):
        jobs.append({"cmd": [binary, "c07", "-tier", tier, "-shard", str(i), "-nshards", str(nsh), "-budget", str(budget)], "name": "bfs_%d" % i})
    # every schedule-exploration scenario registered for C07 (the wake-up race; window updates vs cancelled receives)
    names = subprocess.run([binary, "list", "C07"], capture_output=True, text=True).stdout.split()
    if "c07.wakeup-race" not in names:
        raise V.HarnessError("scenario c07.wakeup-race is not registered")
    for n in names:
        r = subprocess.run([binary, "selftest", "-scenario", n], capture_output=True, text=True, timeout=300)
        if r.returncode != 0:
            V.log(r.stdout[-2000:] + r.stderr[-2000:])
            raise V.HarnessError("determinism self-test failed for " + n)
        for i in range(nsh):
            jobs.append({"cmd": [binary, "explore", "-prop", "C07", "-scenario", n, "-tier", tier, "-shard", str(i), "-nshards", str(nsh), "-budget", str(budget)], "name": "%s_%d" % (n, i)})
        if thorough:
            for i in range(nsh):
                jobs.append({"cmd": [binary, "explore", "-fine", "-prop", "C07", "-scenario", n, "-tier", "quick", "-shard", str(i), "-nshards", str(nsh), "-budget", str(budget // 4)], "name": "%s_fine_%d" % (n, i)})
    results, failures = V.run_jobs(jobs, work, budget * 3 + 120)
    merged = V.merge(results)
    # TLC + conformance
    conf_ws = list(range(1, 9)) if thorough else list(range(1, 6))
    msgs = 3
    traces, model_states = 0, 0
    from concurrent.futures import ThreadPoolExecutor
    with ThreadPoolExecutor(max_workers=max(2, V.NCPU // 3)) as ex:
        outs = list(ex.map(lambda W: conformance(binary, W, msgs, os.path.join(work, "tlc_%d" % W)), conf_ws))
    conf_detail = []
    for W, (n1, n2, ns, t, problems) in zip(conf_ws, outs):
        traces += n1
        model_states += t["distinct"]
        conf_detail.append({"W": W, "model_edges": n1, "impl_edges": n2, "projected_states": ns, "tlc_distinct_states": t["distinct"], "identical": not problems})
        merged["violations"] += problems
    # larger windows: model only (invariants), bound by the conformance above
    big_ws = ([9, 10, 12, 15, 16, 17, 24, 31, 32, 33, 48, 63, 64] if thorough else [9, 12, 16, 17, 32])
    big_msgs = 4 if thorough else 3
    with ThreadPoolExecutor(max_workers=max(2, V.NCPU // 3)) as ex:
        bigs = list(ex.map(lambda W: run_tlc(W, big_msgs, os.path.join(work, "tlcbig_%d" % W), False), big_ws))
    for t in bigs:
        model_states += t["distinct"]
        if not t["ok"]:
            merged["violations"].append({"sig": "TLC: invariant %s violated in the flow-control model" % ",".join(t["violated"] or ["?"]),
                                         "desc": "W=%d\n%s" % (t["W"], t["log"][-1500:]), "replay": {"kind": "tlc", "W": t["W"], "msgs": big_msgs}})
        shutil.rmtree(os.path.join(work, "tlcbig_%d" % t["W"]), ignore_errors=True)
    merged["traces"] = traces
    extra = {
        "traces_validated_against_impl": traces,
        "conformance": conf_detail,
        "tlc_model_only": [{"W": t["W"], "distinct_states": t["distinct"], "ok": t["ok"]} for t in bigs],
        "tlc_states_total": model_states,
        "checker_cmd": "tlc -deadlock -dump dot,actionlabels fc.dot -config fc.cfg FlowControl.tla",
    }
    assumptions = [
        "implementation-level BFS merges states with equal abstraction (window, wires, queue, counters, parked sender): equal abstractions are assumed to have equal futures; the TLA+ model is an independent statement of the same transition rules and its complete state graph for W<=%d is compared edge by edge with the graph produced by the real channel objects" % conf_ws[-1],
        "events are atomic at harness granularity (a Send runs until it returns or parks); finer interleavings of the wake-up path are explored by the c07.wakeup-race scenario under the schedule explorer",
        "for W beyond the conformance range the TLC verdict rests on the model (which is parametric in W) plus the implementation-level BFS for W up to %d and 2^16 (thorough: 2^24)" % (32 if thorough else 16),
    ] + __import__("props").SCHED_ASSUMPTIONS
    return V.finish(prop, "model_checking", tier, seed, merged, failures, assumptions, t0, extra_cov=extra)
