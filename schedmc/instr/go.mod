module verif/instr

go 1.23
