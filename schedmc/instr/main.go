// instr: source-to-source instrumenter that produces go build overlay entries.
//
//	instr -out DIR [-quiet] [-daemon] [-time] [-ids] pkgdir...
//
// prints "orig<TAB>instrumented" per rewritten file. Rewrites:
//
//	import "sync" / "sync/atomic"      -> shim packages vsync(q) / vatomic(q) (same API)
//	go f(a...)                          -> args evaluated eagerly; vsched.Go(func(){ f(a...) })   (-daemon: GoDaemon)
//	select { ... }                      -> channel exprs bound once; switch vsched.Select(ops...) { case i: <comm>; body }
//	<-x, v,ok := <-x, x <- v            -> vsched.Recv / Recv2 / Send
//	time.After/NewTimer/AfterFunc/Sleep/Now/Since (-time) -> vtime
//	rand.IntN(n), bin.Random128() (-ids) -> vsched.Choose(n), deterministic id counter
//
// Any channel construct it cannot rewrite (range over channel, receive in an unhandled expression position) is
// a hard error (exit 2): a stale or partial instrumentation must never go unnoticed.
package main

import (
	"bytes"
	"flag"
	"fmt"
	"go/ast"
	"go/format"
	"go/parser"
	"go/token"
	"os"
	"path/filepath"
	"strconv"
	"strings"
)

var (
	outDir = flag.String("out", "", "output dir")
	shim   = flag.String("shim", "github.com/basecomplextech/spec/zzverif", "shim import prefix")
	quiet  = flag.Bool("quiet", false, "use quiet (non-decision) shims")
	daemon = flag.Bool("daemon", false, "go statements start daemon threads")
	vtime  = flag.Bool("time", false, "rewrite time.After/NewTimer/AfterFunc/Sleep/Now/Since to vtime")
	ids    = flag.Bool("ids", false, "rewrite rand.IntN and bin.Random128 to scheduler-controlled values")
)

func main() {
	flag.Parse()
	for _, dir := range flag.Args() {
		ents, err := os.ReadDir(dir)
		if err != nil {
			fmt.Fprintf(os.Stderr, "instr: %v\n", err)
			os.Exit(2)
		}
		for _, e := range ents {
			n := e.Name()
			if e.IsDir() || !strings.HasSuffix(n, ".go") || strings.HasSuffix(n, "_test.go") || strings.HasPrefix(n, "zz_v") {
				continue
			}
			src := filepath.Join(dir, n)
			dst := filepath.Join(*outDir, strings.ReplaceAll(strings.TrimPrefix(dir, "/"), "/", "_")+"__"+n)
			changed, err := instrument(src, dst)
			if err != nil {
				fmt.Fprintf(os.Stderr, "instr: %s: %v\n", src, err)
				os.Exit(2)
			}
			if changed {
				fmt.Printf("%s\t%s\n", src, dst)
			}
		}
	}
}

type rewriter struct {
	seen    map[ast.Node]bool
	allowed map[ast.Node]bool // receive expressions that are the comm of a rewritten select case
	fset    *token.FileSet
	changed bool
	needVS  bool
	needVT  bool
	tmp     int
	keep    []string // "pkg.Ident" references to keep imports used
}

func q(name string) string {
	if *quiet {
		return name + "Q"
	}
	return name
}

func instrument(src, dst string) (bool, error) {
	fset := token.NewFileSet()
	f, err := parser.ParseFile(fset, src, nil, parser.ParseComments)
	if err != nil {
		return false, err
	}
	r := &rewriter{fset: fset, seen: map[ast.Node]bool{}, allowed: map[ast.Node]bool{}}

	sfx := ""
	if *quiet {
		sfx = "q"
	}
	timeName, randName, binName := "", "", ""
	for _, imp := range f.Imports {
		p, _ := strconv.Unquote(imp.Path.Value)
		local := func(def string) string {
			if imp.Name != nil {
				return imp.Name.Name
			}
			return def
		}
		switch p {
		case "sync":
			imp.Path.Value = strconv.Quote(*shim + "/vsync" + sfx)
			if imp.Name == nil {
				imp.Name = ast.NewIdent("sync")
			}
			r.changed = true
		case "sync/atomic":
			imp.Path.Value = strconv.Quote(*shim + "/vatomic" + sfx)
			if imp.Name == nil {
				imp.Name = ast.NewIdent("atomic")
			}
			r.changed = true
		case "time":
			timeName = local("time")
		case "math/rand/v2", "math/rand":
			randName = local("rand")
		case "github.com/basecomplextech/baselibrary/bin":
			binName = local("bin")
		}
	}

	// range over channel is not supported: detect by type is impossible without type info, so reject any
	// range statement whose operand is a receive-only looking expression is not decidable; instead the build
	// fails later (vsched has no Range). We conservatively scan for `for x := range ch` where ch is an identifier
	// declared as chan in the same file.
	chanIdents := map[string]bool{}
	ast.Inspect(f, func(n ast.Node) bool {
		switch x := n.(type) {
		case *ast.Field:
			if _, ok := x.Type.(*ast.ChanType); ok {
				for _, nm := range x.Names {
					chanIdents[nm.Name] = true
				}
			}
		case *ast.ValueSpec:
			if _, ok := x.Type.(*ast.ChanType); ok {
				for _, nm := range x.Names {
					chanIdents[nm.Name] = true
				}
			}
		}
		return true
	})
	var rangeErr error
	ast.Inspect(f, func(n ast.Node) bool {
		if rs, ok := n.(*ast.RangeStmt); ok {
			if id, ok := rs.X.(*ast.Ident); ok && chanIdents[id.Name] {
				rangeErr = fmt.Errorf("%s: range over channel %s is not supported", fset.Position(rs.Pos()), id.Name)
			}
			if se, ok := rs.X.(*ast.SelectorExpr); ok && chanIdents[se.Sel.Name] {
				rangeErr = fmt.Errorf("%s: range over channel %s is not supported", fset.Position(rs.Pos()), se.Sel.Name)
			}
		}
		return true
	})
	if rangeErr != nil {
		return false, rangeErr
	}

	// statement rewrites
	ast.Inspect(f, func(n ast.Node) bool {
		switch b := n.(type) {
		case *ast.BlockStmt:
			b.List = r.stmts(b.List)
		case *ast.CaseClause:
			b.Body = r.stmts(b.Body)
		case *ast.CommClause:
			b.Body = r.stmts(b.Body)
		}
		return true
	})
	r.rewriteRecvExprs(f)

	// call rewrites (time, rand, ids)
	ast.Inspect(f, func(n ast.Node) bool {
		call, ok := n.(*ast.CallExpr)
		if !ok {
			return true
		}
		// make(chan T[, n]) -> vsched.MakeChan[T]([n]): logical capacity + hand-off to blocked receivers
		if id, isId := call.Fun.(*ast.Ident); isId && id.Name == "make" && id.Obj == nil && len(call.Args) >= 1 {
			if ct, isChan := call.Args[0].(*ast.ChanType); isChan && ct.Dir == ast.SEND|ast.RECV {
				call.Fun = &ast.IndexExpr{X: &ast.SelectorExpr{X: ast.NewIdent("vsched"), Sel: ast.NewIdent("MakeChan")}, Index: ct.Value}
				call.Args = call.Args[1:]
				r.changed, r.needVS = true, true
				return true
			}
		}
		sel, ok := call.Fun.(*ast.SelectorExpr)
		if !ok {
			return true
		}
		pkg, ok := sel.X.(*ast.Ident)
		if !ok || pkg.Obj != nil {
			return true
		}
		switch {
		case *vtime && timeName != "" && pkg.Name == timeName:
			switch sel.Sel.Name {
			case "After", "NewTimer", "AfterFunc", "Sleep", "Now", "Since":
				call.Fun = &ast.SelectorExpr{X: ast.NewIdent("vtime"), Sel: ast.NewIdent(sel.Sel.Name)}
				r.changed, r.needVT = true, true
				r.keep = append(r.keep, timeName+".Second")
			}
		case *ids && randName != "" && pkg.Name == randName && sel.Sel.Name == "IntN":
			call.Fun = &ast.SelectorExpr{X: ast.NewIdent("vsched"), Sel: ast.NewIdent("Choose")}
			call.Args = append(call.Args, &ast.BasicLit{Kind: token.STRING, Value: `"rand.IntN"`})
			r.changed, r.needVS = true, true
			r.keep = append(r.keep, randName+".IntN")
		case *ids && binName != "" && pkg.Name == binName && sel.Sel.Name == "Random128":
			call.Fun = &ast.SelectorExpr{X: ast.NewIdent(binName), Sel: ast.NewIdent("Int128")}
			call.Args = []ast.Expr{&ast.BasicLit{Kind: token.INT, Value: "0"}, &ast.CallExpr{Fun: &ast.SelectorExpr{X: ast.NewIdent("vsched"), Sel: ast.NewIdent("NextID")}}}
			r.changed, r.needVS = true, true
		}
		return true
	})

	// no receive expression may be left unrewritten
	var leftover error
	ast.Inspect(f, func(n ast.Node) bool {
		if u, ok := n.(*ast.UnaryExpr); ok && u.Op == token.ARROW && !r.allowed[u] {
			leftover = fmt.Errorf("%s: receive expression in an unsupported position", fset.Position(u.Pos()))
		}
		if _, ok := n.(*ast.SelectStmt); ok {
			leftover = fmt.Errorf("%s: select statement was not rewritten", fset.Position(n.Pos()))
		}
		if g, ok := n.(*ast.GoStmt); ok {
			leftover = fmt.Errorf("%s: go statement was not rewritten", fset.Position(g.Pos()))
		}
		return true
	})
	if leftover != nil {
		return false, leftover
	}

	if !r.changed {
		return false, nil
	}
	if r.needVS {
		addImport(f, *shim+"/vsched", "vsched")
	}
	if r.needVT {
		addImport(f, *shim+"/vtime", "vtime")
	}
	var buf bytes.Buffer
	if err := format.Node(&buf, fset, f); err != nil {
		return false, err
	}
	seenKeep := map[string]bool{}
	for _, k := range r.keep {
		if !seenKeep[k] {
			seenKeep[k] = true
			fmt.Fprintf(&buf, "\nvar _ = %s\n", k)
		}
	}
	return true, os.WriteFile(dst, buf.Bytes(), 0o644)
}

func addImport(f *ast.File, path, name string) {
	spec := &ast.ImportSpec{Name: ast.NewIdent(name), Path: &ast.BasicLit{Kind: token.STRING, Value: strconv.Quote(path)}}
	decl := &ast.GenDecl{Tok: token.IMPORT, Specs: []ast.Spec{spec}}
	f.Decls = append([]ast.Decl{decl}, f.Decls...)
	f.Imports = append(f.Imports, spec)
}

func (r *rewriter) stmts(list []ast.Stmt) []ast.Stmt {
	var out []ast.Stmt
	for _, s := range list {
		switch st := s.(type) {
		case *ast.GoStmt:
			out = append(out, r.goStmt(st)...)
			continue
		case *ast.SelectStmt:
			if r.seen[st] {
				break
			}
			r.seen[st] = true
			out = append(out, r.selectStmt(st, nil)...)
			continue
		case *ast.LabeledStmt:
			if sel, ok := st.Stmt.(*ast.SelectStmt); ok && !r.seen[sel] {
				r.seen[sel] = true
				out = append(out, r.selectStmt(sel, st)...)
				continue
			}
		case *ast.SendStmt:
			if r.seen[st] {
				break // the communication of a rewritten select case: vsched.Select already decided and booked it
			}
			r.changed, r.needVS = true, true
			out = append(out, &ast.ExprStmt{X: call("vsched", q("Send"), st.Chan, st.Value)})
			continue
		}
		out = append(out, s)
	}
	return out
}

func call(pkg, fn string, args ...ast.Expr) *ast.CallExpr {
	return &ast.CallExpr{Fun: &ast.SelectorExpr{X: ast.NewIdent(pkg), Sel: ast.NewIdent(fn)}, Args: args}
}

func (r *rewriter) newTmp() *ast.Ident {
	r.tmp++
	return ast.NewIdent(fmt.Sprintf("_vs%d", r.tmp))
}

func (r *rewriter) goStmt(g *ast.GoStmt) []ast.Stmt {
	r.changed, r.needVS = true, true
	var pre []ast.Stmt
	c := g.Call
	newArgs := make([]ast.Expr, len(c.Args))
	for i, a := range c.Args {
		t := r.newTmp()
		pre = append(pre, &ast.AssignStmt{Lhs: []ast.Expr{t}, Tok: token.DEFINE, Rhs: []ast.Expr{a}})
		newArgs[i] = t
	}
	var fun ast.Expr = c.Fun
	if _, isLit := c.Fun.(*ast.FuncLit); !isLit {
		t := r.newTmp()
		pre = append(pre, &ast.AssignStmt{Lhs: []ast.Expr{t}, Tok: token.DEFINE, Rhs: []ast.Expr{c.Fun}})
		fun = t
	}
	body := &ast.BlockStmt{List: []ast.Stmt{&ast.ExprStmt{X: &ast.CallExpr{Fun: fun, Args: newArgs, Ellipsis: c.Ellipsis}}}}
	lit := &ast.FuncLit{Type: &ast.FuncType{Params: &ast.FieldList{}}, Body: body}
	fn := "Go"
	if *daemon {
		fn = "GoDaemon"
	}
	pre = append(pre, &ast.ExprStmt{X: call("vsched", fn, lit)})
	return []ast.Stmt{&ast.BlockStmt{List: pre}}
}

func (r *rewriter) selectStmt(sel *ast.SelectStmt, label *ast.LabeledStmt) []ast.Stmt {
	r.changed, r.needVS = true, true
	var pre []ast.Stmt
	var ops []ast.Expr
	var cases []ast.Stmt
	hasDefault := false
	idx := 0
	for _, c := range sel.Body.List {
		cc := c.(*ast.CommClause)
		if cc.Comm == nil {
			hasDefault = true
			cases = append(cases, &ast.CaseClause{List: nil, Body: cc.Body})
			continue
		}
		switch s := cc.Comm.(type) {
		case *ast.ExprStmt:
			u := s.X.(*ast.UnaryExpr)
			t := r.newTmp()
			pre = append(pre, &ast.AssignStmt{Lhs: []ast.Expr{t}, Tok: token.DEFINE, Rhs: []ast.Expr{u.X}})
			u.X = t
			r.allowed[u] = true
			ops = append(ops, call("vsched", "R", t))
		case *ast.AssignStmt:
			u := s.Rhs[0].(*ast.UnaryExpr)
			t := r.newTmp()
			pre = append(pre, &ast.AssignStmt{Lhs: []ast.Expr{t}, Tok: token.DEFINE, Rhs: []ast.Expr{u.X}})
			u.X = t
			r.allowed[u] = true
			ops = append(ops, call("vsched", "R", t))
		case *ast.SendStmt:
			t := r.newTmp()
			pre = append(pre, &ast.AssignStmt{Lhs: []ast.Expr{t}, Tok: token.DEFINE, Rhs: []ast.Expr{s.Chan}})
			s.Chan = t
			r.seen[s] = true
			ops = append(ops, call("vsched", "S_", t))
		}
		body := append([]ast.Stmt{cc.Comm}, cc.Body...)
		cases = append(cases, &ast.CaseClause{
			List: []ast.Expr{&ast.BasicLit{Kind: token.INT, Value: strconv.Itoa(idx)}},
			Body: body,
		})
		idx++
	}
	fn := q("Select")
	if hasDefault {
		fn = q("SelectDefault")
	} else {
		cases = append(cases, &ast.CaseClause{List: nil, Body: []ast.Stmt{&ast.ExprStmt{X: &ast.CallExpr{Fun: ast.NewIdent("panic"), Args: []ast.Expr{&ast.BasicLit{Kind: token.STRING, Value: "\"vsched: bad select index\""}}}}}})
	}
	sw := &ast.SwitchStmt{Tag: call("vsched", fn, ops...), Body: &ast.BlockStmt{List: cases}}
	var inner ast.Stmt = sw
	if label != nil {
		label.Stmt = sw
		inner = label
	}
	pre = append(pre, inner)
	return []ast.Stmt{&ast.BlockStmt{List: pre}}
}

// rewriteRecvExprs rewrites <-X (outside select comm clauses) to vsched.Recv(X).
func (r *rewriter) rewriteRecvExprs(f *ast.File) {
	replace := func(e ast.Expr) ast.Expr {
		u, ok := e.(*ast.UnaryExpr)
		if !ok || u.Op != token.ARROW || r.allowed[u] {
			return e
		}
		r.changed, r.needVS = true, true
		return call("vsched", q("Recv"), u.X)
	}
	ast.Inspect(f, func(n ast.Node) bool {
		switch x := n.(type) {
		case *ast.ExprStmt:
			x.X = replace(x.X)
		case *ast.AssignStmt:
			for i := range x.Rhs {
				if u, ok := x.Rhs[i].(*ast.UnaryExpr); ok && u.Op == token.ARROW && !r.allowed[u] && len(x.Lhs) == 2 && len(x.Rhs) == 1 {
					r.changed, r.needVS = true, true
					fn := q("Recv2")
					if *daemon {
						fn = "Recv2Idle"
					}
					x.Rhs[i] = call("vsched", fn, u.X)
					continue
				}
				x.Rhs[i] = replace(x.Rhs[i])
			}
		case *ast.ReturnStmt:
			for i := range x.Results {
				x.Results[i] = replace(x.Results[i])
			}
		case *ast.CallExpr:
			for i := range x.Args {
				x.Args[i] = replace(x.Args[i])
			}
		case *ast.ValueSpec:
			for i := range x.Values {
				x.Values[i] = replace(x.Values[i])
			}
		}
		return true
	})
}
