package main

import (
	"encoding/json"
	"flag"
	"fmt"
	"os"
	"sort"
	"time"

	"github.com/basecomplextech/spec/mpx"
	"github.com/basecomplextech/spec/zzverif/vsched"
)

// C07 implementation-level search: explicit-state BFS over event sequences (start Send / SendAndClose, deliver
// next data frame, consume one message, deliver next window update) on two real mpx channel objects joined by
// scripted wires. Successor = replay of the event list on fresh channels + one event; states are merged by the
// abstraction key (window, wires, queue, counters, blocked sender).

type c07node struct {
	events []mpx.VFlowEvent
	sent   int
}

type c07edge struct {
	From  string `json:"from"`
	Event string `json:"event"`
	To    string `json:"to"`
}

func c07sizes(W int) []int {
	set := map[int]bool{}
	for _, s := range []int{1, W/2 - 1, W / 2, W/2 + 1, W - 1, W, W + 1, 2 * W} {
		if s >= 1 {
			set[s] = true
		}
	}
	var out []int
	for s := range set {
		out = append(out, s)
	}
	sort.Ints(out)
	return out
}

func c07run(W int, events []mpx.VFlowEvent) (abs mpx.VFlowAbs, sched *vsched.Sched) {
	sched = vsched.Run(vsched.Config{Choose: func(p vsched.PointRec) int { return 0 }, MaxSteps: 100000}, func() {
		abs = mpx.VFlowRun(W, events)
	})
	return
}

func c07key(a mpx.VFlowAbs, sent int) string { return fmt.Sprintf("%s|sent=%d", a.Key(), sent) }

type c07stats struct {
	states, transitions int64
	violations          []violation
	sample              []any
	edges               []c07edge
	keepEdges           bool
}

func c07bfs(W, maxMsgs int, st *c07stats, deadline time.Time) (complete bool) {
	sizes := c07sizes(W)
	init, _ := c07run(W, nil)
	seen := map[string]bool{c07key(init, 0): true}
	st.states++
	frontier := []c07node{{nil, 0}}
	frontAbs := []mpx.VFlowAbs{init}
	viol := func(sig, desc string, events []mpx.VFlowEvent) {
		for _, v := range st.violations {
			if v.Sig == sig {
				return
			}
		}
		st.violations = append(st.violations, violation{Sig: sig, Desc: fmt.Sprintf("W=%d events=%v: %s", W, events, desc), Replay: map[string]any{"kind": "c07", "W": W, "events": events}})
	}
	for len(frontier) > 0 {
		var next []c07node
		var nextAbs []mpx.VFlowAbs
		for i, nd := range frontier {
			a := frontAbs[i]
			var cands []mpx.VFlowEvent
			if a.Blocked == 0 && !a.ClosedS && nd.sent < maxMsgs {
				for _, s := range sizes {
					cands = append(cands, mpx.VFlowEvent{Kind: "send", Size: s})
				}
				for _, s := range sizes {
					cands = append(cands, mpx.VFlowEvent{Kind: "sendclose", Size: s})
				}
			}
			if len(a.DataWire) > 0 {
				cands = append(cands, mpx.VFlowEvent{Kind: "deliver"})
			}
			if len(a.Queue) > 0 {
				cands = append(cands, mpx.VFlowEvent{Kind: "consume"})
			}
			if len(a.AckWire) > 0 {
				cands = append(cands, mpx.VFlowEvent{Kind: "ack"})
			}
			// liveness as safety: everything delivered, consumed and acknowledged, yet a Send is still parked
			if len(a.DataWire) == 0 && len(a.Queue) == 0 && len(a.AckWire) == 0 && a.Blocked != 0 {
				viol("both sides wait forever: sender parked with nothing in flight", fmt.Sprintf("Send(%d) is blocked, window=%d, all frames delivered, queue consumed, no acknowledgement pending", a.Blocked, a.Win), nd.events)
			}
			for _, ev := range cands {
				if !deadline.IsZero() && time.Now().After(deadline) {
					return false
				}
				evs := append(append([]mpx.VFlowEvent{}, nd.events...), ev)
				b, sc := c07run(W, evs)
				st.transitions++
				sent := nd.sent
				if ev.Kind == "send" || ev.Kind == "sendclose" {
					sent++
				}
				if sc.Deadlock {
					viol("harness execution deadlocked", fmt.Sprintf("blocked: %v", sc.Blocked), evs)
				}
				for _, p := range sc.Panics {
					viol("panic: "+firstLine(p), p, evs)
				}
				for _, p := range b.Problems {
					viol(sigNorm(p), p, evs)
				}
				k := c07key(b, sent)
				if st.keepEdges {
					st.edges = append(st.edges, c07edge{c07key(a, nd.sent), ev.String(), k})
				}
				if seen[k] {
					continue
				}
				seen[k] = true
				st.states++
				if st.states%97 == 1 && len(st.sample) < 8 {
					st.sample = append(st.sample, map[string]any{"W": W, "events": fmt.Sprint(evs), "state": b})
				}
				next = append(next, c07node{evs, sent})
				nextAbs = append(nextAbs, b)
			}
		}
		frontier, frontAbs = next, nextAbs
	}
	return true
}

func firstLine(s string) string {
	for i, c := range s {
		if c == '\n' {
			return s[:i]
		}
	}
	return s
}

func sigNorm(s string) string {
	out := make([]byte, 0, len(s))
	last := false
	for i := 0; i < len(s); i++ {
		c := s[i]
		if c >= '0' && c <= '9' || c == '-' && i+1 < len(s) && s[i+1] >= '0' && s[i+1] <= '9' {
			if !last {
				out = append(out, '#')
			}
			last = true
			continue
		}
		last = false
		out = append(out, c)
	}
	return string(out)
}

func c07cmd(args []string) {
	fs := flag.NewFlagSet("c07", flag.ExitOnError)
	tier := fs.String("tier", "quick", "")
	shard := fs.Int("shard", 0, "")
	nshards := fs.Int("nshards", 1, "")
	out := fs.String("out", "", "")
	budget := fs.Float64("budget", 0, "")
	graphW := fs.Int("graph", 0, "dump the implementation graph for this W (conformance with the TLA+ model)")
	msgs := fs.Int("msgs", 0, "")
	replayF := fs.String("replay", "", "")
	fs.Int64("seed", 0, "")
	fs.Parse(args)
	start := time.Now()
	if *replayF != "" {
		b, _ := os.ReadFile(*replayF)
		var art struct {
			Replay struct {
				W      int              `json:"W"`
				Events []mpx.VFlowEvent `json:"events"`
			} `json:"replay"`
		}
		json.Unmarshal(b, &art)
		a, sc := c07run(art.Replay.W, art.Replay.Events)
		fmt.Printf("replay: W=%d events=%v\nstate=%+v\ndeadlock=%v panics=%v\n", art.Replay.W, art.Replay.Events, a, sc.Deadlock, sc.Panics)
		return
	}
	if *graphW > 0 {
		st := &c07stats{keepEdges: true}
		c07bfs(*graphW, *msgs, st, time.Time{})
		json.NewEncoder(os.Stdout).Encode(map[string]any{"W": *graphW, "msgs": *msgs, "states": st.states, "edges": st.edges, "violations": st.violations})
		return
	}
	thorough := *tier == "thorough"
	var ws []int
	maxMsgs := 3
	if thorough {
		maxMsgs = 4
		for w := 1; w <= 32; w++ {
			ws = append(ws, w)
		}
		ws = append(ws, 1<<16, 1<<24)
	} else {
		for w := 1; w <= 16; w++ {
			ws = append(ws, w)
		}
		ws = append(ws, 1<<16)
	}
	res := &result{Property: "C07", Part: "impl-bfs", Shard: *shard, NShards: *nshards, Exhaustive: true, Bounds: map[string]any{}, Outcomes: map[string]int64{}}
	var deadline time.Time
	if *budget > 0 {
		deadline = start.Add(time.Duration(*budget * float64(time.Second)))
	}
	var done []int
	for i, W := range ws {
		if i%*nshards != *shard {
			continue
		}
		st := &c07stats{}
		mm := maxMsgs
		if W >= 1<<16 {
			mm = 3 // megabyte payloads: one message fewer
		}
		if W >= 1<<24 {
			mm = 2
		}
		complete := c07bfs(W, mm, st, deadline)
		res.States += st.states
		res.Transitions += st.transitions
		res.Evaluations += st.transitions
		res.Distinct += st.states
		res.Violations = append(res.Violations, st.violations...)
		res.ViolationsN += int64(len(st.violations))
		for _, s := range st.sample {
			if len(res.Samples) < 6 {
				res.Samples = append(res.Samples, s)
			}
		}
		if !complete {
			res.Exhaustive = false
			res.Notes = append(res.Notes, fmt.Sprintf("W=%d: budget exhausted before the graph was finished", W))
		} else {
			done = append(done, W)
		}
		res.Outcomes[fmt.Sprintf("W=%d states", W)] = st.states
	}
	res.Bounds["windows_completed_by_this_shard"] = done
	res.Bounds["max_messages"] = maxMsgs
	res.Rule = fmt.Sprintf("explicit-state BFS over event sequences {Send(s), SendAndClose(s), deliver data/close frame, consume, deliver window update} on two real channel objects joined by scripted wires, for every window W in 1..%d and 65536 (thorough: also 16777216), sizes {1, W/2-1, W/2, W/2+1, W-1, W, W+1, 2W}, up to %d messages (3 resp. 2 for the two huge windows); states = distinct abstractions (window, wires, queue, counters, parked sender); every admission is checked against free>=min(size,W/2) and outstanding<=max(W, W-floor(W/2)+size); terminal states must not have a parked sender", map[bool]int{true: 32, false: 16}[thorough], maxMsgs)
	res.Wall = time.Since(start).Seconds()
	if res.Samples == nil {
		res.Samples = []any{}
	}
	if res.Violations == nil {
		res.Violations = []violation{}
	}
	b, _ := json.Marshal(res)
	if *out == "" {
		os.Stdout.Write(b)
	} else {
		os.WriteFile(*out+".tmp", b, 0o644)
		os.Rename(*out+".tmp", *out)
	}
}
