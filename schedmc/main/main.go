// schedmc: Engine B driver — explores schedules of registered scenarios of the real mpx/rpc code.
package main

import (
	"encoding/json"
	"flag"
	"fmt"
	"os"
	"runtime/pprof"
	"sort"
	"strings"
	"time"

	_ "github.com/basecomplextech/spec/mpx"
	_ "github.com/basecomplextech/spec/rpc"
	_ "github.com/basecomplextech/spec/zzverif/c18w"
	"github.com/basecomplextech/spec/zzverif/vexp"
	"github.com/basecomplextech/spec/zzverif/vsched"
)

type result struct {
	Property    string           `json:"property"`
	Part        string           `json:"part"`
	Shard       int              `json:"shard"`
	NShards     int              `json:"nshards"`
	Evaluations int64            `json:"evaluations"`
	Distinct    int64            `json:"distinct"`
	States      int64            `json:"states"`
	Transitions int64            `json:"transitions"`
	Traces      int64            `json:"traces"`
	Exhaustive  bool             `json:"exhaustive"`
	Rule        string           `json:"rule"`
	Bounds      map[string]any   `json:"bounds"`
	Outcomes    map[string]int64 `json:"outcomes"`
	Samples     []any            `json:"samples"`
	Notes       []string         `json:"notes"`
	Violations  []violation      `json:"violations"`
	ViolationsN int64            `json:"violations_total"`
	Wall        float64          `json:"wall_s"`
}

type violation struct {
	Sig    string `json:"sig"`
	Desc   string `json:"desc"`
	Replay any    `json:"replay"`
}

func main() {
	if len(os.Args) < 2 {
		fmt.Fprintln(os.Stderr, "usage: schedmc explore|replay|list ...")
		os.Exit(2)
	}
	if pf := os.Getenv("VERIF_PROF"); pf != "" {
		f, _ := os.Create(pf)
		pprof.StartCPUProfile(f)
		defer pprof.StopCPUProfile()
	}
	switch os.Args[1] {
	case "explore":
		explore(os.Args[2:])
	case "replay":
		replay(os.Args[2:])
	case "selftest":
		selftest(os.Args[2:])
	case "trace":
		sc := vexp.Get(os.Args[2])
		cfg := map[string]int{}
		if sc.Configs != nil && len(os.Args) < 5 {
			cfg = sc.Configs(false)[0]
		}
		for _, kv := range os.Args[4:] { // trace <scenario> <maxsteps> [name=value ...]
			if i := strings.IndexByte(kv, '='); i > 0 {
				var v int
				fmt.Sscan(kv[i+1:], &v)
				cfg[kv[:i]] = v
			}
		}
		var n int
		fmt.Sscan(os.Args[3], &n)
		sc.MaxSteps = n
		x := vexp.RunOnce(sc, cfg, nil, true)
		for _, l := range x.Trace {
			fmt.Println(l)
		}
		fmt.Println("horizon", x.Horizon, "deadlock", x.Deadlock, x.Blocked, "outcome", x.Ctx.Outcome, x.Ctx.Findings)
	case "c07":
		c07cmd(os.Args[2:])
	case "list":
		for _, sc := range vexp.ByProp(os.Args[2]) {
			fmt.Println(sc.Name)
		}
	default:
		fmt.Fprintln(os.Stderr, "unknown command", os.Args[1])
		os.Exit(2)
	}
}

func cfgName(p map[string]int) string {
	var ks []string
	for k := range p {
		ks = append(ks, k)
	}
	sort.Strings(ks)
	var sb strings.Builder
	for _, k := range ks {
		fmt.Fprintf(&sb, "%s=%d ", k, p[k])
	}
	return strings.TrimSpace(sb.String())
}

func explore(args []string) {
	fs := flag.NewFlagSet("explore", flag.ExitOnError)
	prop := fs.String("prop", "", "property id")
	scn := fs.String("scenario", "", "only this scenario")
	tier := fs.String("tier", "quick", "tier")
	shard := fs.Int("shard", 0, "")
	nshards := fs.Int("nshards", 1, "")
	out := fs.String("out", "", "")
	seed := fs.Int64("seed", 0, "")
	budget := fs.Float64("budget", 0, "wall-clock budget in seconds for this worker (0: none); on expiry the result is marked incomplete")
	debug := fs.Bool("debug", false, "verify goroutine identity at every shim call")
	fine := fs.Bool("fine", false, "fine-mode sweep: run the scenario with the baselibrary primitives' own locks and atomics as decision points (scenarios that are fine by themselves are skipped)")
	fs.Parse(args)
	_ = seed
	if *fine {
		vexp.SetForceFine(true)
	}
	vexp.SetDebug(*debug)
	thorough := *tier == "thorough"
	start := time.Now()
	partName := *scn
	if *fine {
		partName += "~fine"
	}
	res := &result{Property: *prop, Part: partName, Shard: *shard, NShards: *nshards, Exhaustive: true, Bounds: map[string]any{}, Outcomes: map[string]int64{}}
	var scs []*vexp.Scenario
	if *scn != "" {
		if s := vexp.Get(*scn); s != nil {
			scs = []*vexp.Scenario{s}
		}
	} else {
		scs = vexp.ByProp(*prop)
	}
	if len(scs) == 0 {
		fmt.Fprintln(os.Stderr, "schedmc: no scenarios for", *prop, *scn)
		os.Exit(2)
	}
	var deadline time.Time
	if *budget > 0 {
		deadline = start.Add(time.Duration(*budget * float64(time.Second)))
	}
	var rules []string
	nondet := false
	for _, sc := range scs {
		label := sc.Name
		if vexp.ForceFine() {
			if sc.Fine {
				continue
			}
			label += "~fine"
		}
		cfgs := []map[string]int{{}}
		if sc.Configs != nil {
			cfgs = sc.Configs(thorough)
		}
		b := vexp.Bounds{P: 2, F: -1, E: 1}
		if sc.Bounds != nil {
			b = sc.Bounds(thorough)
		}
		var scExec, scPoints int64
		minLayers := -1
		scOutcomes := map[string]bool{}
		complete := true
		byConfig := len(cfgs) >= 2**nshards // many configurations: distribute configurations, not subtrees
		for ci, cfg := range cfgs {
			if byConfig && ci%*nshards != *shard {
				continue
			}
			vexp.RunOnce(sc, cfg, nil, false) // warm-up: lazily initialised globals (type-keyed pools, heaps) must exist before exploring
			// the remaining budget is divided evenly over the configurations still to run (time a configuration does not
			// use passes on to the later ones), so that every configuration completes at least its first layers
			cfgDeadline := deadline
			if !deadline.IsZero() {
				left := 0
				for cj := ci; cj < len(cfgs); cj++ {
					if !byConfig || cj%*nshards == *shard {
						left++
					}
				}
				if rem := time.Until(deadline); rem > 0 && left > 1 {
					share := rem / time.Duration(left)
					if floor := min(rem, 10*time.Second); share < floor {
						share = floor // many small configurations: none is cut short while time remains
					}
					cfgDeadline = time.Now().Add(share)
				}
			}
			ex := &vexp.Explorer{Sc: sc, Params: cfg, B: b, Shard: *shard, NShards: *nshards, Split: 2, Deadline: cfgDeadline}
			if byConfig {
				ex.Shard, ex.NShards = 0, 1
			}
			ex.Explore()
			st := ex.St
			scExec += st.Executions
			res.Outcomes["~runs incl. shared levels: "+label] += st.Runs
			scPoints += st.Points
			res.Evaluations += st.Executions
			res.Transitions += st.Steps
			res.States += st.Points
			for k, v := range st.Outcomes {
				res.Outcomes[label+": "+k] += v
				scOutcomes[k] = true
			}
			if !st.Complete {
				complete = false
				res.Exhaustive = false
			}
			if minLayers < 0 || st.Layers < minLayers {
				minLayers = st.Layers
			}
			if st.Horizon > 0 {
				res.Notes = append(res.Notes, fmt.Sprintf("%s [%s]: %d executions hit the step horizon (incomplete)", label, cfgName(cfg), st.Horizon))
				res.Exhaustive = false
			}
			for _, n := range st.Nondet {
				nondet = true
				fmt.Fprintln(os.Stderr, "NONDETERMINISM:", n)
			}
			res.ViolationsN += st.ViolationsN
			for _, v := range st.Violations {
				res.Violations = append(res.Violations, violation{Sig: label + ": " + v.Sig, Desc: fmt.Sprintf("scenario %s [%s] bounds %s, %d choices: %s", label, cfgName(cfg), b, len(v.Choices), v.Desc), Replay: v})
			}
			if len(res.Samples) < 6 && st.Executions > 0 {
				x := vexp.RunOnce(sc, cfg, nil, true)
				tr := x.Trace
				if len(tr) > 40 {
					tr = append(tr[:40], fmt.Sprintf("... %d more steps", len(x.Trace)-40))
				}
				res.Samples = append(res.Samples, map[string]any{"scenario": label, "config": cfgName(cfg), "default_schedule_steps": x.Steps, "decision_points": len(x.Points), "outcome": x.Ctx.Outcome, "trace": tr})
			}
		}
		res.Distinct += int64(len(scOutcomes))
		rules = append(rules, fmt.Sprintf("%s: %s; %d config(s); bounds %s; complete=%v", label, sc.Doc, len(cfgs), b, complete))
		res.Bounds[label] = map[string]any{"bounds": b.String(), "configs": len(cfgs), "executions": scExec, "complete": complete, "complete_layers": minLayers}
	}
	res.Rule = "stateless DFS over ALL schedules of each scenario within (preemptions p, free switches f, environment deviations e) bounds, real mpx/rpc code under the cooperative scheduler; evaluations = complete executions; states = decision points visited; transitions = scheduler steps; distinct_nontrivial = distinct (scenario, outcome) pairs. " + strings.Join(rules, " | ")
	res.Wall = time.Since(start).Seconds()
	if res.Samples == nil {
		res.Samples = []any{}
	}
	if res.Violations == nil {
		res.Violations = []violation{}
	}
	b, _ := json.Marshal(res)
	if *out == "" {
		os.Stdout.Write(b)
	} else {
		os.WriteFile(*out+".tmp", b, 0o644)
		os.Rename(*out+".tmp", *out)
	}
	if nondet {
		os.Exit(3)
	}
}

func replay(args []string) {
	fs := flag.NewFlagSet("replay", flag.ExitOnError)
	file := fs.String("replay", "", "violation artefact")
	fs.String("tier", "", "")
	fs.Parse(args)
	b, err := os.ReadFile(*file)
	if err != nil {
		fmt.Fprintln(os.Stderr, err)
		os.Exit(2)
	}
	var art struct {
		Replay vexp.Violation `json:"replay"`
	}
	if err := json.Unmarshal(b, &art); err != nil {
		fmt.Fprintln(os.Stderr, err)
		os.Exit(2)
	}
	v := art.Replay
	sc := vexp.Get(v.Scn)
	if sc == nil {
		fmt.Fprintln(os.Stderr, "unknown scenario", v.Scn)
		os.Exit(2)
	}
	if v.Fine {
		vexp.SetForceFine(true)
	}
	x := vexp.RunOnce(sc, v.Params, v.Choices, true)
	for _, l := range x.Trace {
		fmt.Println("  ", l)
	}
	fmt.Printf("replay: scenario=%s params=%v choices=%d steps=%d deadlock=%v blocked=%v\n", v.Scn, v.Params, len(v.Choices), x.Steps, x.Deadlock, x.Blocked)
	fmt.Printf("replay: outcome=%q\n", x.Ctx.Outcome)
	for _, f := range x.Ctx.Findings {
		fmt.Printf("replay: FINDING %s | %s\n", f.Sig, f.Desc)
	}
	for _, p := range x.Panics {
		fmt.Printf("replay: UNCAUGHT PANIC %s\n", p)
	}
}

// selftest: the default schedule and one deep schedule of a scenario are run twice; traces must be identical.
func selftest(args []string) {
	fs := flag.NewFlagSet("selftest", flag.ExitOnError)
	scn := fs.String("scenario", "", "")
	fine := fs.Bool("fine", false, "self-test the scenario as the fine-mode sweep runs it")
	fs.Parse(args)
	if *fine {
		vexp.SetForceFine(true)
	}
	vexp.SetDebug(true)
	sc := vexp.Get(*scn)
	if sc == nil {
		fmt.Fprintln(os.Stderr, "unknown scenario", *scn)
		os.Exit(2)
	}
	cfg := map[string]int{}
	if sc.Configs != nil {
		cfg = sc.Configs(false)[0]
	}
	deep := func(i int, p vsched.PointRec) int {
		if i%3 == 2 {
			return p.N - 1
		}
		return 0
	}
	vexp.RunOnce(sc, cfg, nil, false) // warm-up (see explore)
	for k, policy := range []func(int, vsched.PointRec) int{nil, deep} {
		_ = k
		x := vexp.RunPolicy(sc, cfg, nil, policy, true)
		y := vexp.RunOnce(sc, cfg, x.Choices, true)
		if strings.Join(x.Trace, "\n") != strings.Join(y.Trace, "\n") || x.Ctx.Outcome != y.Ctx.Outcome {
			fmt.Println("SELFTEST FAILED: traces differ for scenario", *scn)
			for i := range x.Trace {
				if i >= len(y.Trace) || x.Trace[i] != y.Trace[i] {
					fmt.Println(" first difference at step", i, ":", x.Trace[i])
					if i < len(y.Trace) {
						fmt.Println("                         vs:", y.Trace[i])
					}
					break
				}
			}
			os.Exit(1)
		}
		fmt.Printf("selftest %s: %d steps, %d points, outcome=%q deterministic\n", *scn, x.Steps, len(x.Points), x.Ctx.Outcome)
	}
}
