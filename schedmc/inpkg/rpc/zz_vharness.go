package rpc

// Verification harness for rpc (injected by overlay): the real rpc client on a real mpx client with a
// scheduler-controlled connector; the server side is the real rpc server handler attached to real server conns.

import (
	"encoding/binary"
	"fmt"
	"strings"

	"github.com/basecomplextech/baselibrary/alloc"
	"github.com/basecomplextech/baselibrary/async"
	"github.com/basecomplextech/baselibrary/ref"
	"github.com/basecomplextech/baselibrary/status"
	"github.com/basecomplextech/spec"
	"github.com/basecomplextech/spec/mpx"
	"github.com/basecomplextech/spec/proto/pmpx"
	"github.com/basecomplextech/spec/proto/prpc"
	"github.com/basecomplextech/spec/zzverif/vexp"
	"github.com/basecomplextech/spec/zzverif/vsched"
)

// C04 — every RPC call gets its own handler run, result and status.

var c04kinds = []string{"ok", "code", "panic", "oneway", "cstream", "sstream", "early", "sfail", "send", "zero"}

func c04request(kind string, id int) prpc.Request {
	w := prpc.NewRequestWriter()
	calls := w.Calls()
	call := calls.Add()
	call.Method(kind)
	input := call.Input()
	input.Field(1).Int32(int32(id))
	must(input.End())
	must(call.End())
	must(calls.End())
	r, err := w.Build()
	must(err)
	return r
}

func must(err error) {
	if err != nil {
		panic(err)
	}
}

func valueBytes(s string) ref.R[[]byte] {
	buf := alloc.AcquireBuffer()
	w := spec.NewValueWriterBuffer(buf)
	w.String(s)
	b, err := w.Build()
	must(err)
	return ref.NewFreer(b, buf)
}

type c04server struct {
	invoked map[int]int
	streams map[int][]string

	bgStarted, bgDone int
	bgPanics          []string
	bgSts             []string
}

// handler implements every call kind; everything it does is a function of the call id inside the request.
func (h *c04server) handle(ctx Context, ch ServerChannel) (ref.R[[]byte], status.Status) {
	req, st := ch.Request(ctx)
	if !st.OK() {
		return nil, st
	}
	call := req.Calls().Get(0)
	kind := call.Method().Unwrap()
	if i := strings.IndexByte(kind, '/'); i >= 0 {
		kind = kind[:i] // "send/skip": the part after the slash is the CLIENT's reading mode
	}
	id := int(call.Input().Int32(1))
	h.invoked[id]++
	rctx := async.NoContext()
	switch kind {
	case "ok":
		return valueBytes(fmt.Sprintf("res-%d", id)), status.OK
	case "code":
		return nil, status.New(status.Code(fmt.Sprintf("my_code_%d", id)), fmt.Sprintf("msg %d", id))
	case "zero":
		// the zero status (empty code) with a message and a result: not OK, the caller must see it as it is
		return valueBytes(fmt.Sprintf("res-%d", id)), status.Status{Message: fmt.Sprintf("msg %d", id)}
	case "panic":
		panic(fmt.Sprintf("handler panic %d", id))
	case "oneway":
		return nil, SkipResponse
	case "cstream":
		var got []string
		for {
			m, st := ch.Receive(rctx)
			if st.Code == status.CodeEnd {
				break
			}
			if !st.OK() {
				return nil, st
			}
			got = append(got, string(m))
		}
		h.streams[id] = got
		return valueBytes(fmt.Sprintf("res-%d:%s", id, strings.Join(got, ","))), status.OK
	case "sstream":
		for i := 0; i < 2; i++ {
			if st := ch.Send(rctx, []byte(fmt.Sprintf("s%d-%d", id, i))); !st.OK() {
				return nil, st
			}
		}
		return valueBytes(fmt.Sprintf("res-%d", id)), status.OK
	case "early":
		// responds without reading the client's stream
		return valueBytes(fmt.Sprintf("res-%d", id)), status.OK
	case "send":
		// streams, ends its stream explicitly, then responds
		for i := 0; i < 2; i++ {
			if st := ch.Send(rctx, []byte(fmt.Sprintf("s%d-%d", id, i))); !st.OK() {
				return nil, st
			}
		}
		if st := ch.SendEnd(rctx); !st.OK() {
			return nil, st
		}
		return valueBytes(fmt.Sprintf("res-%d", id)), status.OK
	case "sfail":
		// streams, then fails with an application status: the response message itself ends the stream
		for i := 0; i < 2; i++ {
			if st := ch.Send(rctx, []byte(fmt.Sprintf("s%d-%d", id, i))); !st.OK() {
				return nil, st
			}
		}
		return nil, status.New(status.Code(fmt.Sprintf("my_code_%d", id)), fmt.Sprintf("msg %d", id))
	case "bg":
		// a helper goroutine of the handler sends on the call's channel; the handler does not wait for it, so the helper
		// may still be inside Send when the server frees the call (a late operation must get a closed status or finish
		// on ITS call, never touch the recycled state's next owner)
		h.bgStarted++
		vsched.GoNamed(fmt.Sprintf("bg-helper-%d", id), func() {
			defer func() {
				if e := recover(); e != nil {
					h.bgPanics = append(h.bgPanics, fmt.Sprint(e))
				}
				h.bgDone++
			}()
			for i := 0; i < 2; i++ {
				st := ch.Send(rctx, []byte(fmt.Sprintf("bg%d-%d", id, i)))
				h.bgSts = append(h.bgSts, string(st.Code))
			}
		})
		return valueBytes(fmt.Sprintf("res-%d", id)), status.OK
	case "slow":
		// never answers on its own: waits until the caller gives up (channel closed / connection lost)
		for {
			if _, st := ch.Receive(rctx); !st.OK() {
				return nil, st
			}
		}
	}
	return nil, status.Errorf("unknown kind %q", kind)
}

type c04result struct {
	kind     string
	id       int
	st       status.Status
	result   string
	stream   []string
	streamSt status.Status
	done     bool
	note     string
}

// c04call runs one call of the given kind through the public client API.
func c04call(c Client, kind string, id int, r *c04result) {
	defer func() { r.done = true }()
	ctx := async.NoContext()
	req := c04request(kind, id)
	switch kind {
	case "ok", "code", "panic", "zero":
		res, st := c.Request(ctx, req)
		r.st = st
		if st.OK() {
			r.result = res.Unwrap().String().Clone()
			res.Release()
		}
	case "oneway":
		r.st = c.RequestOneway(ctx, req)
	case "cstream", "early":
		ch, st := c.Channel(ctx, req)
		if !st.OK() {
			r.st = st
			return
		}
		defer ch.Free()
		for i := 0; i < 2; i++ {
			if st := ch.Send(ctx, []byte(fmt.Sprintf("c%d-%d", id, i))); !st.OK() {
				r.note = "send:" + string(st.Code)
				break
			}
		}
		if st := ch.SendEnd(ctx); !st.OK() {
			r.note += " end:" + string(st.Code)
		}
		res, st := ch.Response(ctx)
		r.st = st
		if st.OK() {
			r.result = res.String().Clone()
		}
	case "sstream/skip", "send/skip", "sfail/skip", "sstream/part", "send/part", "sfail/part":
		// the caller asks for the response without having read the stream (or after one message of it): Response
		// skips what is left of the stream, including the end marker
		ch, st := c.Channel(ctx, req)
		if !st.OK() {
			r.st = st
			return
		}
		defer ch.Free()
		if strings.HasSuffix(kind, "/part") {
			m, st := ch.Receive(ctx)
			if !st.OK() {
				r.streamSt = st
			} else {
				r.stream = append(r.stream, string(m))
			}
		}
		res, st := ch.Response(ctx)
		r.st = st
		if st.OK() {
			r.result = res.String().Clone()
		}
	case "sstream", "sfail", "send":
		ch, st := c.Channel(ctx, req)
		if !st.OK() {
			r.st = st
			return
		}
		defer ch.Free()
		for {
			m, st := ch.Receive(ctx)
			if !st.OK() {
				r.streamSt = st
				break
			}
			r.stream = append(r.stream, string(m))
		}
		res, st := ch.Response(ctx)
		r.st = st
		if st.OK() {
			r.result = res.String().Clone()
		}
	}
}

// c04check compares what the caller observed with the sequential specification of the call.
func c04check(x *vexp.Ctx, r *c04result, h *c04server, faulty bool) {
	name := fmt.Sprintf("%s#%d", r.kind, r.id)
	if n := h.invoked[r.id]; n > 1 {
		x.Fail("handler invoked more than once for one request", "%s: %d invocations", name, n)
	}
	if faulty && !r.st.OK() {
		return // a lost connection may fail any call; it must only never turn into a wrong success
	}
	if h.invoked[r.id] == 0 && r.st.OK() && r.kind != "oneway" {
		x.Fail("call reports OK although the handler never ran", "%s", name)
	}
	switch r.kind {
	case "ok", "early":
		if !r.st.OK() || r.result != fmt.Sprintf("res-%d", r.id) {
			x.Fail("unary call: wrong result or status", "%s: status=%v result=%q want res-%d", name, r.st, r.result, r.id)
		}
	case "code":
		if string(r.st.Code) != fmt.Sprintf("my_code_%d", r.id) || r.st.Message != fmt.Sprintf("msg %d", r.id) {
			x.Fail("application status code/message not propagated to its caller", "%s: got code=%q message=%q", name, r.st.Code, r.st.Message)
		}
	case "zero":
		if r.st.OK() || r.st.Code != "" || r.st.Message != fmt.Sprintf("msg %d", r.id) {
			x.Fail("a handler's status with an empty code is not delivered as it is (an OK response is observed only if the server sent OK)", "%s: got code=%q message=%q result=%q", name, r.st.Code, r.st.Message, r.result)
		}
	case "panic":
		if r.st.OK() {
			x.Fail("handler panic surfaces as OK", "%s: result=%q", name, r.result)
		}
	case "oneway":
		if !r.st.OK() && !faulty {
			x.Fail("oneway request fails on a healthy connection", "%s: %v", name, r.st)
		}
	case "cstream":
		want := fmt.Sprintf("res-%d:c%d-0,c%d-1", r.id, r.id, r.id)
		if !r.st.OK() || r.result != want {
			x.Fail("client-streaming call: stream not delivered in order before the end marker", "%s: status=%v result=%q want %q note=%s", name, r.st, r.result, want, r.note)
		}
	case "sfail":
		want := fmt.Sprintf("[s%d-0 s%d-1]", r.id, r.id)
		if string(r.st.Code) != fmt.Sprintf("my_code_%d", r.id) || r.st.Message != fmt.Sprintf("msg %d", r.id) || fmt.Sprint(r.stream) != want || r.streamSt.Code != status.CodeEnd {
			x.Fail("streaming call that fails after streaming: application status or stream not delivered to its caller", "%s: got code=%q message=%q stream=%v streamEnd=%v", name, r.st.Code, r.st.Message, r.stream, r.streamSt.Code)
		}
	case "sstream/skip", "send/skip", "sstream/part", "send/part", "sfail/skip", "sfail/part":
		wantStream := "[]"
		if strings.HasSuffix(r.kind, "/part") {
			wantStream = fmt.Sprintf("[s%d-0]", r.id)
		}
		if strings.HasPrefix(r.kind, "sfail") {
			if string(r.st.Code) != fmt.Sprintf("my_code_%d", r.id) || r.st.Message != fmt.Sprintf("msg %d", r.id) || fmt.Sprint(r.stream) != wantStream {
				x.Fail("Response before the stream was read: application status not delivered to its caller", "%s: got code=%q message=%q stream=%v", name, r.st.Code, r.st.Message, r.stream)
			}
		} else if !r.st.OK() || r.result != fmt.Sprintf("res-%d", r.id) || fmt.Sprint(r.stream) != wantStream {
			x.Fail("Response before the stream was read: result or status wrong", "%s: status=%v result=%q stream=%v want res-%d", name, r.st, r.result, r.stream, r.id)
		}
	case "sstream", "send":
		want := fmt.Sprintf("[s%d-0 s%d-1]", r.id, r.id)
		if !r.st.OK() || r.result != fmt.Sprintf("res-%d", r.id) || fmt.Sprint(r.stream) != want || r.streamSt.Code != status.CodeEnd {
			x.Fail("server-streaming call: messages/response wrong or out of order", "%s: status=%v result=%q stream=%v streamEnd=%v", name, r.st, r.result, r.stream, r.streamSt.Code)
		}
	}
}

// countResponses parses the mpx frames a server connection wrote and counts rpc response messages.
func countResponses(b []byte) (n int) {
	i := len(mpx.ProtocolLine)
	if len(b) < i {
		return 0
	}
	for i+4 <= len(b) {
		sz := int(binary.BigEndian.Uint32(b[i:]))
		i += 4
		if i+sz > len(b) {
			break
		}
		m, _, err := pmpx.ParseMessage(b[i : i+sz])
		i += sz
		if err != nil {
			continue
		}
		var datas [][]byte
		collect := func(m pmpx.Message) {
			switch m.Code() {
			case pmpx.Code_ChannelOpen:
				datas = append(datas, m.ChannelOpen().Data())
			case pmpx.Code_ChannelData:
				datas = append(datas, m.ChannelData().Data())
			case pmpx.Code_ChannelClose:
				datas = append(datas, m.ChannelClose().Data())
			}
		}
		if m.Code() == pmpx.Code_Batch {
			l := m.Batch().List()
			for k := 0; k < l.Len(); k++ {
				collect(l.Get(k))
			}
		} else {
			collect(m)
		}
		for _, d := range datas {
			if len(d) == 0 {
				continue
			}
			if pm, _, err := prpc.ParseMessage(d); err == nil && pm.Type() == prpc.MessageType_Response {
				n++
			}
		}
	}
	return n
}

func init() {
	// S1: pairs (quick) / triples (thorough) of concurrent calls of every kind over shared connections.
	vexp.Register(&vexp.Scenario{
		Name: "c04.S1.concurrent-calls", Prop: "C04", MaxSteps: 100000,
		Bounds: func(thorough bool) vexp.Bounds {
			if thorough {
				return vexp.Bounds{P: 1, F: 1, E: 1}
			}
			return vexp.Bounds{P: 1, F: 0, E: 0}
		},
		Configs: func(thorough bool) []map[string]int {
			var out []map[string]int
			n := len(c04kinds)
			for a := 0; a < n; a++ {
				for b := 0; b < n; b++ {
					if thorough {
						for _, c := range []int{0, 1, 4, 5} {
							out = append(out, map[string]int{"k0": a, "k1": b, "k2": c, "maxconns": 1 + (a+b)%2, "target": 1})
						}
					} else {
						out = append(out, map[string]int{"k0": a, "k1": b, "k2": -1, "maxconns": 1 + (a+b)%2, "target": 1})
					}
				}
			}
			return out
		},
		Doc: "real rpc client over a real mpx client (scheduler-controlled connector), real rpc server handler: every ordered pair (thorough: triples) of concurrent calls from {unary ok, application code+message, handler panic, oneway, client-streaming, server-streaming, early response, server-streaming that ends with an application status, server-streaming with an explicit SendEnd, unary with the zero status (empty code) and a result}, MaxConns 1 or 2; every caller is checked against the sequential specification of its own call id; rpc response frames on the wire are counted",
		Body: func(x *vexp.Ctx) {
			h := &c04server{invoked: map[int]int{}, streams: map[int][]string{}}
			srv := &server{handler: HandleFunc(h.handle)}
			vc := mpx.VNewClient(x, srv, false, nil)
			srv.logger = vc.Logger()
			vc.RecordNext()
			c := newClient(vc.Client, vc.Logger())
			var rs []*c04result
			for i, k := range []string{"k0", "k1", "k2"} {
				if ki := x.P(k, -1); ki >= 0 {
					rs = append(rs, &c04result{kind: c04kinds[ki], id: 10 + i})
				}
			}
			for _, r := range rs {
				r := r
				vsched.GoNamed("call-"+r.kind, func() { c04call(c, r.kind, r.id, r) })
			}
			vsched.Join("calls returned", func() bool {
				for _, r := range rs {
					if !r.done {
						return false
					}
				}
				return true
			})
			vsched.WaitIdle("quiesce")
			wantResp := 0
			for _, r := range rs {
				c04check(x, r, h, false)
				if r.kind != "oneway" {
					wantResp++
				}
				if h.invoked[r.id] != 1 {
					x.Fail("handler not invoked exactly once for a delivered request", "%s#%d: %d invocations", r.kind, r.id, h.invoked[r.id])
				}
			}
			// second round on recycled call states (pools are LIFO): a call after the concurrent ones
			late := &c04result{kind: rs[0].kind, id: 30}
			vsched.GoNamed("late-call", func() { c04call(c, late.kind, late.id, late) })
			vsched.Join("late call returned", func() bool { return late.done })
			vsched.WaitIdle("quiesce")
			c04check(x, late, h, false)
			if late.kind != "oneway" {
				wantResp++
			}
			got := 0
			for i := 0; i < vc.ServerConns(); i++ {
				got += countResponses(vc.Written(i, 1))
			}
			if vc.ServerConns() == 1 && got != wantResp {
				x.Fail("number of rpc response frames on the wire differs from the number of non-oneway calls", "responses=%d want %d (a oneway request must yield no response)", got, wantResp)
			}
			c.Close()
			vsched.WaitIdle("quiesce")
			x.Outcome = fmt.Sprintf("conns=%d responses=%d", vc.ServerConns(), got)
		},
	})

	// S5: the caller asks for the response before it has read the server's stream.
	vexp.Register(&vexp.Scenario{
		Name: "c04.S5.response-before-stream-is-read", Prop: "C04", MaxSteps: 100000,
		Bounds: func(thorough bool) vexp.Bounds {
			if thorough {
				return vexp.Bounds{P: 1, F: 1, E: 0}
			}
			return vexp.Bounds{P: 1, F: 0, E: 0}
		},
		Configs: func(thorough bool) []map[string]int {
			var out []map[string]int
			for k := 0; k < 6; k++ {
				out = append(out, map[string]int{"kind": k})
			}
			return out
		},
		Doc: "a server-streaming call (plain, with an explicit SendEnd, ending with an application status) whose caller calls Response at once or after one stream message, next to a concurrent unary call, then a late call of the same kind on the recycled call state: Response must skip the rest of the stream and the end marker and return the caller's own result / status, in every interleaving of the server's sends with the caller",
		Body: func(x *vexp.Ctx) {
			kinds := []string{"sstream/skip", "send/skip", "sfail/skip", "sstream/part", "send/part", "sfail/part"}
			h := &c04server{invoked: map[int]int{}, streams: map[int][]string{}}
			srv := &server{handler: HandleFunc(h.handle)}
			vc := mpx.VNewClient(x, srv, false, nil)
			srv.logger = vc.Logger()
			c := newClient(vc.Client, vc.Logger())
			rs := []*c04result{{kind: kinds[x.P("kind", 0)], id: 41}, {kind: "ok", id: 42}}
			for _, r := range rs {
				r := r
				vsched.GoNamed("call-"+r.kind, func() { c04call(c, r.kind, r.id, r) })
			}
			vsched.Join("calls returned", func() bool { return rs[0].done && rs[1].done })
			vsched.WaitIdle("quiesce")
			for _, r := range rs {
				c04check(x, r, h, false)
			}
			late := &c04result{kind: rs[0].kind, id: 43}
			vsched.GoNamed("late-call", func() { c04call(c, late.kind, late.id, late) })
			vsched.Join("late call returned", func() bool { return late.done })
			vsched.WaitIdle("quiesce")
			c04check(x, late, h, false)
			c.Close()
			vsched.WaitIdle("quiesce")
			x.Outcome = fmt.Sprintf("st=%s/%s late=%s", rs[0].st.Code, rs[1].st.Code, late.st.Code)
		},
	})

	// C18, rpc call states: an operation still in flight on a call when the call is freed.
	vexp.Register(&vexp.Scenario{
		Name: "c18.rpc.free-while-operation-in-flight", Prop: "C18", Also: []string{"C04"}, MaxSteps: 200000,
		Bounds: func(thorough bool) vexp.Bounds {
			if thorough {
				return vexp.Bounds{P: 2, F: 1, E: 0}
			}
			return vexp.Bounds{P: 1, F: 1, E: 0}
		},
		Configs: func(thorough bool) []map[string]int {
			return []map[string]int{{"side": 0}, {"side": 1}}
		},
		Doc: "side=0: the server handler of call A starts a helper goroutine that sends two stream messages and returns without waiting for it, so the helper can be inside Send when the server frees A's pooled call state; side=1: the client frees call A from one goroutine while another is inside Receive on it. Then call B (server-streaming) runs on the recycled state. The late operation must not touch a state that is not its own (no nil-state panic; mpx's deliberate 'acquire of freed channel' report is tolerated) and otherwise ends with OK / a closed status, B must receive exactly its own stream and result, A's caller its own result",
		Body: func(x *vexp.Ctx) {
			h := &c04server{invoked: map[int]int{}, streams: map[int][]string{}}
			srv := &server{handler: HandleFunc(h.handle)}
			x.Params["maxconns"] = 1
			vc := mpx.VNewClient(x, srv, false, nil)
			srv.logger = vc.Logger()
			c := newClient(vc.Client, vc.Logger())
			ctx := async.NoContext()
			var aStream []string
			var aSt status.Status
			aRes, aDone := "", false
			recvPanic, recvDone := "", true
			if x.P("side", 0) == 0 {
				vsched.GoNamed("call-A", func() {
					defer func() { aDone = true }()
					ch, st := c.Channel(ctx, c04request("bg", 51))
					if !st.OK() {
						aSt = st
						return
					}
					defer ch.Free()
					for {
						m, st := ch.Receive(ctx)
						if !st.OK() {
							break
						}
						aStream = append(aStream, string(m))
					}
					res, st := ch.Response(ctx)
					aSt = st
					if st.OK() {
						aRes = res.String().Clone()
					}
				})
			} else {
				recvDone = false
				vsched.GoNamed("call-A", func() {
					defer func() { aDone = true }()
					ch, st := c.Channel(ctx, c04request("slow", 51))
					if !st.OK() {
						aSt = st
						return
					}
					vsched.GoNamed("A-receiver", func() {
						defer func() {
							if e := recover(); e != nil {
								recvPanic = fmt.Sprint(e)
							}
							recvDone = true
						}()
						for {
							if _, st := ch.Receive(ctx); !st.OK() {
								return
							}
						}
					})
					ch.Free() // the owner gives the call up while the receiver may be inside Receive
					aSt = status.OK
					aRes = "res-51"
				})
			}
			vsched.Join("call A returned", func() bool { return aDone })
			late := &c04result{kind: "sstream", id: 52}
			vsched.GoNamed("call-B", func() { c04call(c, late.kind, late.id, late) })
			vsched.Join("call B returned", func() bool { return late.done })
			vsched.WaitIdle("quiesce")
			c04check(x, late, h, false)
			if x.P("side", 0) == 0 {
				if !aSt.OK() || aRes != "res-51" {
					x.Fail("call whose handler leaves a helper goroutine behind: wrong result or status", "status=%v result=%q", aSt, aRes)
				}
				for _, m := range aStream {
					if !strings.HasPrefix(m, "bg51-") {
						x.Fail("a call received a stream message of another call", "call 51 got %q", m)
					}
				}
				if h.bgStarted != h.bgDone {
					x.Fail("an operation in flight when its call was freed never returns", "helpers started %d, returned %d", h.bgStarted, h.bgDone)
				}
				for _, pn := range h.bgPanics {
					if strings.Contains(pn, "acquire of freed channel") {
						// mpx's deliberate use-after-free report: the helper outlived the handler, the mpx channel under
						// the call is gone. The statement does not promise a status here; what it forbids is touching a
						// state that belongs to somebody else (nil state, another call's channel).
						continue
					}
					x.Fail("an operation in flight when its call was freed panics: "+errSigRPC(pn), "%s", pn)
				}
				for _, code := range h.bgSts {
					if code != string(status.CodeOK) && code != string(status.CodeClosed) && code != string(status.CodeEnd) && code != string(status.CodeCancelled) {
						x.Fail("a late operation on a freed call ends with an unexpected status", "Send returned %q", code)
					}
				}
			} else {
				if !recvDone {
					x.Fail("a Receive in flight when its call was freed never returns", "receiver still blocked")
				}
				if recvPanic != "" && !strings.Contains(recvPanic, "acquire of freed channel") {
					x.Fail("an operation in flight when its call was freed panics: "+errSigRPC(recvPanic), "%s", recvPanic)
				}
			}
			c.Close()
			vsched.WaitIdle("quiesce")
			x.Outcome = fmt.Sprintf("a=%s bg=%v b=%s", aSt.Code, h.bgSts, late.st.Code)
		},
	})

	// S2: a scripted server answers with malformed replies: never OK.
	vexp.Register(&vexp.Scenario{
		Name: "c04.S2.malformed-reply", Prop: "C04", Also: []string{"C18"}, MaxSteps: 100000,
		Bounds: func(thorough bool) vexp.Bounds { return vexp.Bounds{P: 1, F: 1, E: 0} },
		Configs: func(thorough bool) []map[string]int {
			var out []map[string]int
			for r := 0; r < 7; r++ {
				for k := 0; k < 2; k++ {
					out = append(out, map[string]int{"reply": r, "kind": k})
				}
			}
			return out
		},
		Doc: "mpx-level scripted server replies to a unary / server-streaming call with: garbage bytes, an rpc request message, a stream message then close without response, an empty close, a response without status, a parser-hostile payload, a truncated response: the caller must see a non-OK status, never OK and never a panic; a follow-up call on the recycled (LIFO-pooled) call state gets a well-formed reply and must see exactly it",
		Body: func(x *vexp.Ctx) {
			reply := x.P("reply", 0)
			handler := mpx.HandleFunc(func(ctx mpx.Context, ch mpx.Channel) status.Status {
				rctx := async.NoContext()
				reqb, st := ch.Receive(rctx)
				if !st.OK() {
					return st
				}
				if pm, _, err := prpc.ParseMessage(reqb); err == nil && pm.Type() == prpc.MessageType_Request &&
					pm.Req().Calls().Len() == 1 && pm.Req().Calls().Get(0).Input().Int32(1) == 8 {
					// the follow-up call gets a well-formed response
					b := alloc.NewBuffer()
					res := valueBytes("res-8")
					defer res.Release()
					m, err := newBuilder().buildResponse(b, res.Unwrap(), status.OK)
					must(err)
					return ch.SendAndClose(rctx, m.Unwrap().Raw())
				}
				switch reply {
				case 0:
					return ch.SendAndClose(rctx, []byte{0xff, 0xfe, 0xfd, 0x01})
				case 1:
					b := alloc.NewBuffer()
					m, _ := newBuilder().buildRequest(b, c04request("ok", 1))
					return ch.SendAndClose(rctx, m.Unwrap().Raw())
				case 2:
					b := alloc.NewBuffer()
					m, _ := newBuilder().buildMessage(b, []byte("x"))
					ch.Send(rctx, m.Unwrap().Raw())
					return status.OK // handler exit closes the channel without a response
				case 3:
					return ch.SendAndClose(rctx, nil)
				case 4:
					w := prpc.NewMessageWriter()
					w.Type(prpc.MessageType_Response)
					m, _ := w.Build()
					return ch.SendAndClose(rctx, m.Unwrap().Raw())
				case 5:
					return ch.SendAndClose(rctx, []byte{0xc8, 0x5a})
				default:
					b := alloc.NewBuffer()
					m, _ := newBuilder().buildResponse(b, nil, status.OK)
					raw := m.Unwrap().Raw()
					return ch.SendAndClose(rctx, raw[:len(raw)/2])
				}
			})
			vc := mpx.VNewClient(x, handler, false, nil)
			c := newClient(vc.Client, vc.Logger())
			r := &c04result{kind: []string{"ok", "sstream"}[x.P("kind", 0)], id: 7}
			panicked := ""
			done := false
			vsched.GoNamed("call", func() {
				defer func() {
					if e := recover(); e != nil {
						panicked = fmt.Sprint(e)
					}
					done = true
				}()
				c04call(c, r.kind, r.id, r)
			})
			vsched.Join("call returned", func() bool { return done })
			if panicked != "" {
				x.Fail("client panics on a malformed reply", "reply variant %d: %s", reply, panicked)
			}
			if r.st.OK() {
				x.Fail("malformed reply surfaces as OK", "reply variant %d kind %s: result=%q", reply, r.kind, r.result)
			}
			// follow-up call on the recycled call state (pools are LIFO): a well-formed reply must be seen as such
			vsched.WaitIdle("quiesce")
			late := &c04result{kind: "ok", id: 8}
			ldone := false
			vsched.GoNamed("late-call", func() { c04call(c, late.kind, late.id, late); ldone = true })
			vsched.Join("late call returned", func() bool { return ldone })
			if !late.st.OK() || late.result != "res-8" {
				x.Fail("call after a failed call does not get its own result", "after reply variant %d (%s call, status %v): follow-up status=%v result=%q want OK res-8", reply, r.kind, r.st.Code, late.st, late.result)
			}
			c.Close()
			vsched.WaitIdle("quiesce")
			x.Outcome = fmt.Sprintf("reply=%d st=%s", reply, r.st.Code)
		},
	})

	// S3: connection cut at every byte offset while a unary and a server-streaming call are in flight.
	vexp.Register(&vexp.Scenario{
		Name: "c04.S3.connection-lost-mid-call", Prop: "C04", Also: []string{"C09"}, MaxSteps: 200000,
		Bounds: func(thorough bool) vexp.Bounds {
			if thorough {
				return vexp.Bounds{P: 1, F: 0, E: 0}
			}
			return vexp.Bounds{P: 0, F: 1, E: 0}
		},
		Configs: func(thorough bool) []map[string]int {
			sc := vexp.Get("c04.S3.connection-lost-mid-call")
			vexp.RunOnce(sc, map[string]int{"dir": -1}, nil, false)
			var out []map[string]int
			for dir := 0; dir < 2; dir++ {
				for k := 0; k < c04lens[dir]; k++ {
					out = append(out, map[string]int{"dir": dir, "k": k, "mode": k % 2})
				}
			}
			return out
		},
		Doc: "unary + server-streaming call in flight on one connection; the transport is cut / half-closed after EVERY byte offset of either direction: every call returns; a call that reports OK carries exactly the data its own handler invocation produced; nothing panics; once the faulty connection is gone, follow-up calls (unary + streaming) on the on-demand client dial a healthy connection and succeed with their own results",
		Body: func(x *vexp.Ctx) {
			h := &c04server{invoked: map[int]int{}, streams: map[int][]string{}}
			srv := &server{handler: HandleFunc(h.handle)}
			x.Params["maxconns"] = 1
			vc := mpx.VNewClient(x, srv, false, nil)
			srv.logger = vc.Logger()
			dir := x.P("dir", -1)
			if dir < 0 {
				vc.RecordNext()
			} else {
				vc.FaultAfter(dir, int64(x.P("k", 0)), x.P("mode", 0))
			}
			c := newClient(vc.Client, vc.Logger())
			rs := []*c04result{{kind: "ok", id: 21}, {kind: "sstream", id: 22}}
			panicked := ""
			for _, r := range rs {
				r := r
				vsched.GoNamed("call-"+r.kind, func() {
					defer func() {
						if e := recover(); e != nil {
							panicked = fmt.Sprint(e)
							r.done = true
						}
					}()
					c04call(c, r.kind, r.id, r)
				})
			}
			vsched.Join("calls returned", func() bool { return rs[0].done && rs[1].done })
			vsched.WaitIdle("quiesce")
			if dir < 0 {
				c04lens = [2]int{len(vc.Written(0, 0)), len(vc.Written(0, 1))}
			}
			if panicked != "" {
				x.Fail("client call panics when the connection is lost", "%s", panicked)
			}
			for _, r := range rs {
				c04check(x, r, h, dir >= 0)
			}
			// follow-up calls on recycled call states: once the faulty connection is gone the client dials a
			// healthy one, and the new calls must see only their own results
			lateOK := "-"
			if dir >= 0 && vc.Live() == 0 {
				late := []*c04result{{kind: "ok", id: 31}, {kind: "sstream", id: 32}}
				for _, r := range late {
					r := r
					vsched.GoNamed("late-"+r.kind, func() { c04call(c, r.kind, r.id, r) })
				}
				vsched.Join("late calls returned", func() bool { return late[0].done && late[1].done })
				vsched.WaitIdle("quiesce")
				for _, r := range late {
					c04check(x, r, h, false)
				}
				lateOK = fmt.Sprintf("%v/%v", late[0].st.OK(), late[1].st.OK())
			}
			for _, e := range vc.Errors() {
				if strings.Contains(e, "panic") {
					x.Fail("panic logged: "+e[:min(len(e), 60)], "%s", e)
				}
			}
			c.Close()
			vsched.WaitIdle("quiesce")
			x.Outcome = fmt.Sprintf("ok=%v/%v late=%s", rs[0].st.OK(), rs[1].st.OK(), lateOK)
		},
	})

	// S4: a caller gives up (context cancelled) while waiting; later calls reuse its pooled state.
	vexp.Register(&vexp.Scenario{
		Name: "c04.S4.call-after-cancelled-call", Prop: "C04", Also: []string{"C18"}, MaxSteps: 200000,
		Bounds: func(thorough bool) vexp.Bounds {
			if thorough {
				return vexp.Bounds{P: 2, F: 1, E: 0}
			}
			return vexp.Bounds{P: 1, F: 1, E: 0}
		},
		Configs: func(thorough bool) []map[string]int {
			var out []map[string]int
			for first := 0; first < 2; first++ {
				for k := range c04kinds {
					for when := 0; when < 2; when++ {
						out = append(out, map[string]int{"first": first, "late": k, "when": when})
					}
				}
			}
			return out
		},
		Doc: "a unary / server-streaming call to a handler that never answers is abandoned by cancelling its context from another goroutine (when=0: every interleaving of the cancel with the call; when=1: after the handler has started and blocked); afterwards a call of every kind runs on the recycled call state and must obtain exactly its own result; the abandoned call must report a non-OK status and its handler must be released",
		Body: func(x *vexp.Ctx) {
			h := &c04server{invoked: map[int]int{}, streams: map[int][]string{}}
			srv := &server{handler: HandleFunc(h.handle)}
			x.Params["maxconns"] = 1
			vc := mpx.VNewClient(x, srv, false, nil)
			srv.logger = vc.Logger()
			c := newClient(vc.Client, vc.Logger())
			ctx := async.NewContext()
			defer ctx.Free()
			var st1 status.Status
			done := false
			vsched.GoNamed("slow-call", func() {
				defer func() { done = true }()
				req := c04request("slow", 41)
				if x.P("first", 0) == 0 {
					res, st := c.Request(ctx, req)
					st1 = st
					if st.OK() {
						res.Release()
					}
					return
				}
				ch, st := c.Channel(ctx, req)
				if !st.OK() {
					st1 = st
					return
				}
				defer ch.Free()
				if _, st := ch.Receive(ctx); !st.OK() {
					st1 = st
					return
				}
				_, st1 = ch.Response(ctx)
			})
			if x.P("when", 0) == 1 {
				vsched.WaitIdle("handler waiting") // the handler is running and blocked; the caller waits for it
			}
			vsched.GoNamed("cancel", func() { ctx.Cancel() })
			vsched.Join("abandoned call returned", func() bool { return done })
			vsched.WaitIdle("quiesce")
			if st1.OK() {
				x.Fail("abandoned call reports OK although its handler never answered", "status=%v", st1)
			}
			late := &c04result{kind: c04kinds[x.P("late", 0)], id: 42}
			vsched.GoNamed("late-call", func() { c04call(c, late.kind, late.id, late) })
			vsched.Join("late call returned", func() bool { return late.done })
			vsched.WaitIdle("quiesce")
			c04check(x, late, h, false)
			if h.invoked[42] != 1 {
				x.Fail("handler not invoked exactly once for a delivered request", "%s#42: %d invocations", late.kind, h.invoked[42])
			}
			c.Close()
			vsched.WaitIdle("quiesce")
			x.Outcome = fmt.Sprintf("first=%s slowran=%d late=%v", st1.Code, h.invoked[41], late.st.OK())
		},
	})
}

var c04lens [2]int

// errSigRPC shortens a panic text to its stable part.
func errSigRPC(s string) string {
	if i := strings.IndexByte(s, '\n'); i >= 0 {
		s = s[:i]
	}
	if len(s) > 80 {
		s = s[:80]
	}
	return s
}
