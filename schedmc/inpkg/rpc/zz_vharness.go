package rpc

// Verification harness for rpc (injected by overlay).
