package mpx

import (
	"fmt"

	"github.com/basecomplextech/baselibrary/async"
	"github.com/basecomplextech/baselibrary/status"
	"github.com/basecomplextech/spec/zzverif/vexp"
	"github.com/basecomplextech/spec/zzverif/vsched"
)

// C18 (mpx part) — recycled channel states never carry state from their previous use.

// vFreshState reports how a channel state differs from a freshly constructed one (nil: identical).
func vFreshState(s *channelState, W int32, wantOpened bool, queued int) []string {
	var d []string
	if s == nil {
		return []string{"state is nil"}
	}
	if got := s.sendWindow.Load(); got != W {
		d = append(d, fmt.Sprintf("sendWindow=%d want %d", got, W))
	}
	if got := s.recvBytes.Load(); got != 0 {
		d = append(d, fmt.Sprintf("recvBytes=%d want 0", got))
	}
	if n := len(s.sendWindowWait); n != 0 {
		d = append(d, fmt.Sprintf("wake-up slot holds %d token(s)", n))
	}
	if s.closed.Load() {
		d = append(d, "closed flag set")
	}
	if s.closedUser.Load() {
		d = append(d, "closedUser flag set")
	}
	if s.opened.Load() != wantOpened {
		d = append(d, fmt.Sprintf("opened=%v want %v", s.opened.Load(), wantOpened))
	}
	if s.ctx == nil || s.ctx.Done() {
		d = append(d, "context missing or already cancelled")
	}
	if s.recvQueue.Closed() {
		d = append(d, "receive queue closed")
	}
	if s.initWindow != W {
		d = append(d, fmt.Sprintf("initWindow=%d want %d", s.initWindow, W))
	}
	return d
}

func init() {
	vexp.Register(&vexp.Scenario{
		Name: "c18.mpx.channel-recycle", Prop: "C18", MaxSteps: 200000,
		Bounds: func(thorough bool) vexp.Bounds {
			if thorough {
				return vexp.Bounds{P: 2, F: 1, E: 1}
			}
			return vexp.Bounds{P: 1, F: 1, E: 0}
		},
		Configs: func(thorough bool) []map[string]int {
			return []map[string]int{{"window": 4, "rounds": 2, "threads": 2}, {"window": 16 << 20, "rounds": 2, "threads": 2}, {"window": 16 << 20, "rounds": 2, "threads": 2, "herr": 1}}
		},
		Doc: "one connection; G threads each run 'open channel, send with window traffic (blocked Send woken by a window update), receive the echo, close' for several rounds, so channel states go through the LIFO pool between users; every newly acquired state (client side and server side) must equal a fresh one (window, counters, wake-up slot, flags, queue, context); every echo must be the caller's own message; with herr=1 every handler run returns its own application error, which the pooled handler object must log exactly once and unchanged",
		Body: func(x *vexp.Ctx) {
			W := int32(x.P("window", 4))
			herr := x.P("herr", 0) == 1
			var wantErrs []string
			var problems []string
			handler := HandleFunc(func(ctx Context, ch Channel) status.Status {
				s := ch.(*channel).unwrap()
				queued := 1
				if d := vFreshStateServer(s, W); len(d) > 0 {
					problems = append(problems, fmt.Sprintf("server-side state recycled dirty: %v", d))
				}
				_ = queued
				rctx := async.NoContext()
				var first []byte
				for {
					m, st := ch.Receive(rctx)
					if !st.OK() {
						if herr {
							// every handler run ends with its OWN application error: the pooled handler object must
							// log exactly this status through its own connection, once
							want := "handler failed " + string(first)
							wantErrs = append(wantErrs, "Channel error: error: "+want)
							return status.Errorf("%s", want)
						}
						return status.OK
					}
					if first == nil {
						first = append([]byte{}, m...)
					}
					if st := ch.Send(rctx, m); !st.OK() {
						return status.OK
					}
				}
			})
			w := newWide(x, handler)
			G, rounds := x.P("threads", 2), x.P("rounds", 2)
			done := 0
			for g := 0; g < G; g++ {
				g := g
				vsched.GoNamed(fmt.Sprintf("user%d", g), func() {
					defer func() { done++ }()
					ctx := async.NoContext()
					for r := 0; r < rounds; r++ {
						ch, st := w.cli.Channel(ctx)
						if !st.OK() {
							problems = append(problems, "Channel: "+st.String())
							return
						}
						if d := vFreshState(ch.(*channel).unwrap(), W, false, 0); len(d) > 0 {
							problems = append(problems, fmt.Sprintf("client-side state recycled dirty: %v", d))
						}
						for k := 0; k < 2; k++ {
							size := 3
							if W > 64 {
								size = 20
							}
							p := vPayload(g, r, k, size)
							if st := ch.Send(ctx, p); !st.OK() {
								problems = append(problems, "Send: "+st.String())
								break
							}
							m, st := ch.Receive(ctx)
							if !st.OK() || string(m) != string(p) {
								problems = append(problems, fmt.Sprintf("user %d round %d: echo %q for %q (%v)", g, r, clipB(m), clipB(p), st))
								break
							}
						}
						ch.Free()
					}
				})
			}
			vsched.Join("users done", func() bool { return done == G })
			vsched.WaitIdle("quiesce")
			for _, p := range problems {
				x.Fail(errSig(p), "%s", p)
			}
			logged := w.log.bad()
			if herr {
				// multiset equality: every handler's own error exactly once, nothing else
				rest := append([]string{}, logged...)
				for _, want := range wantErrs {
					found := false
					for i, e := range rest {
						if e == want {
							rest = append(rest[:i], rest[i+1:]...)
							found = true
							break
						}
					}
					if !found {
						x.Fail("a handler's error status was not logged as such (pooled handler object used after release?)", "missing %q; logged: %q", want, logged)
					}
				}
				logged = rest
			}
			for _, e := range logged {
				x.Fail("error logged: "+errSig(e), "%s", e)
			}
			x.Outcome = fmt.Sprintf("problems=%d handler-errors=%d", len(problems), len(wantErrs))
			w.shutdown()
		},
	})
}

// vFreshStateServer: a server-side state is created by an open frame: opened, window from the frame, the open
// payload (if any) already queued.
func vFreshStateServer(s *channelState, W int32) []string {
	var d []string
	for _, p := range vFreshState(s, W, true, 1) {
		d = append(d, p)
	}
	return d
}
