package mpx

import (
	"fmt"

	"github.com/basecomplextech/baselibrary/async"
	"github.com/basecomplextech/baselibrary/bin"
	"github.com/basecomplextech/baselibrary/status"
	"github.com/basecomplextech/spec/proto/pmpx"
	"github.com/basecomplextech/spec/zzverif/vexp"
	"github.com/basecomplextech/spec/zzverif/vsched"
)

// C07 — flow control bounds unacknowledged data and never deadlocks.
//
// Two REAL channel objects (sender side / receiver side) joined by scripted wires: a fake internalConn records
// the frames each side emits; the harness delivers them one event at a time.

type vWireConn struct {
	ctx    *connContext
	closed async.MutFlag
	frames []vFrame
	onSend func(f vFrame)
}

type vFrame struct {
	Code  pmpx.Code
	Size  int   // payload size (open/data/close)
	Delta int32 // window delta
	raw   []byte
}

func newWireConn() *vWireConn {
	w := &vWireConn{closed: async.UnsetFlag()}
	w.ctx = newConnContext(w)
	return w
}

func (w *vWireConn) Context() ConnContext              { return w.ctx }
func (w *vWireConn) Close() status.Status              { return status.OK }
func (w *vWireConn) Closed() async.Flag                { return w.closed }
func (w *vWireConn) OnClosed(fn func()) (func(), bool) { return func() {}, true }
func (w *vWireConn) Channel(ctx async.Context) (Channel, status.Status) {
	return nil, status.Errorf("unsupported")
}
func (w *vWireConn) Free()              {}
func (w *vWireConn) run() status.Status { return status.OK }

func (w *vWireConn) send(ctx async.Context, msg pmpx.Message) status.Status {
	raw := append([]byte{}, msg.Unwrap().Raw()...)
	m, err := pmpx.OpenMessageErr(raw)
	if err != nil {
		panic(err)
	}
	f := vFrame{Code: m.Code(), raw: raw}
	switch f.Code {
	case pmpx.Code_ChannelOpen:
		f.Size = len(m.ChannelOpen().Data())
	case pmpx.Code_ChannelData:
		f.Size = len(m.ChannelData().Data())
	case pmpx.Code_ChannelClose:
		f.Size = len(m.ChannelClose().Data())
	case pmpx.Code_ChannelWindow:
		f.Delta = m.ChannelWindow().Delta()
	case pmpx.Code_Batch:
		// open+close batch: split into its frames
		l := m.Batch().List()
		for i := 0; i < l.Len(); i++ {
			m1 := l.Get(i)
			w.send(ctx, m1)
		}
		return status.OK
	}
	w.frames = append(w.frames, f)
	if w.onSend != nil {
		w.onSend(f)
	}
	return status.OK
}

type VFlowEvent struct {
	Kind string `json:"k"` // send | sendclose | deliver | consume | ack
	Size int    `json:"s,omitempty"`
}

func (e VFlowEvent) String() string {
	if e.Kind == "send" || e.Kind == "sendclose" {
		return fmt.Sprintf("%s(%d)", e.Kind, e.Size)
	}
	return e.Kind
}

// VFlowAbs is the abstraction of the joint state (also the state key of the search and the TLA+ state).
type VFlowAbs struct {
	Win         int32    `json:"win"`
	Opened      bool     `json:"opened"`
	Blocked     int      `json:"blocked"` // size of the Send that is waiting, 0 if none
	Wake        int      `json:"wake"`
	DataWire    []int    `json:"dataWire"` // payload sizes; a closing frame is size+1000000
	Queue       []int    `json:"queue"`
	Recv        int32    `json:"recv"`
	AckWire     []int32  `json:"ackWire"`
	ClosedS     bool     `json:"closedS"`
	ClosedR     bool     `json:"closedR"`
	Returned    int      `json:"returned"` // number of Send/SendAndClose calls that returned
	LastSt      string   `json:"lastSt,omitempty"`
	Problems    []string `json:"problems,omitempty"`
	Outstanding int      `json:"outstanding"`
}

func (a VFlowAbs) Key() string {
	return fmt.Sprintf("%d|%v|%d|%d|%v|%v|%d|%v|%v|%v|%d", a.Win, a.Opened, a.Blocked, a.Wake, a.DataWire, a.Queue, a.Recv, a.AckWire, a.ClosedS, a.ClosedR, a.Returned)
}

const closeMark = 1000000

// VFlowRun executes the event list on fresh real channels (must be called inside a scheduler execution).
func VFlowRun(W int, events []VFlowEvent) (abs VFlowAbs) {
	vFreshGlobals()
	id := bin.Int128(0, 9)
	cs, cr := newWireConn(), newWireConn()
	chS := newChannel(cs, true, id, int32(W))
	var chR *channel
	ctx := async.NoContext()
	outstanding := 0
	returned := 0
	blocked := 0
	lastSt := ""
	var problems []string
	half := W / 2
	cs.onSend = func(f vFrame) {
		if f.Code != pmpx.Code_ChannelOpen && f.Code != pmpx.Code_ChannelData {
			return
		}
		s := f.Size
		free := W - outstanding
		need := s
		if half < need {
			need = half
		}
		if free < need {
			problems = append(problems, fmt.Sprintf("message of size %d admitted with free window %d < min(size, W/2)=%d (W=%d)", s, free, need, W))
		}
		outstanding += s
		limit := W
		if W-half+s > limit {
			limit = W - half + s
		}
		if outstanding > limit {
			problems = append(problems, fmt.Sprintf("outstanding %d exceeds max(W, W-floor(W/2)+size)=%d after admitting size %d (W=%d)", outstanding, limit, s, W))
		}
	}
	var queue []int
	sendDone := true
	for i, ev := range events {
		switch ev.Kind {
		case "send", "sendclose":
			if !sendDone {
				problems = append(problems, fmt.Sprintf("harness: event %d starts a send while one is in flight", i))
				continue
			}
			sendDone = false
			blocked = ev.Size
			ev := ev
			vsched.GoNamed("sender", func() {
				data := make([]byte, ev.Size)
				var st status.Status
				if ev.Kind == "send" {
					st = chS.Send(ctx, data)
				} else {
					st = chS.SendAndClose(ctx, data)
				}
				lastSt = string(st.Code)
				returned++
				blocked = 0
				sendDone = true
			})
			vsched.WaitIdle("settle")
		case "deliver":
			if len(cs.frames) == 0 {
				problems = append(problems, "harness: deliver with an empty wire")
				continue
			}
			f := cs.frames[0]
			cs.frames = cs.frames[1:]
			m, _ := pmpx.OpenMessageErr(f.raw)
			switch f.Code {
			case pmpx.Code_ChannelOpen:
				chR = vOpenChannel(cr, false, m.ChannelOpen())
			default:
				if chR == nil {
					problems = append(problems, "harness: frame before open")
					continue
				}
				if st := chR.receive(m); !st.OK() {
					problems = append(problems, "receiver rejects a frame: "+st.String())
				}
			}
			if f.Size > 0 {
				queue = append(queue, f.Size)
			}
		case "consume":
			if chR == nil || len(queue) == 0 {
				problems = append(problems, "harness: consume with an empty queue")
				continue
			}
			data, ok, st := chR.ReceiveAsync(ctx)
			if !ok || !st.OK() || len(data) != queue[0] {
				problems = append(problems, fmt.Sprintf("receiver: ReceiveAsync returned ok=%v st=%v len=%d, want a message of %d bytes", ok, st, len(data), queue[0]))
			}
			queue = queue[1:]
		case "ack":
			if len(cr.frames) == 0 {
				problems = append(problems, "harness: ack with an empty wire")
				continue
			}
			f := cr.frames[0]
			cr.frames = cr.frames[1:]
			if f.Code != pmpx.Code_ChannelWindow {
				problems = append(problems, fmt.Sprintf("receiver emitted an unexpected frame code %v", f.Code))
				continue
			}
			if f.Delta <= 0 {
				problems = append(problems, fmt.Sprintf("non-positive window delta %d", f.Delta))
			}
			outstanding -= int(f.Delta)
			m, _ := pmpx.OpenMessageErr(f.raw)
			if st := chS.receive(m); !st.OK() {
				problems = append(problems, "sender rejects a window frame: "+st.String())
			}
			vsched.WaitIdle("settle")
		}
	}
	ss := chS.unwrap()
	abs = VFlowAbs{Win: ss.sendWindow.Load(), Opened: ss.opened.Load(), Blocked: blocked, Wake: len(ss.sendWindowWait), ClosedS: ss.closed.Load(),
		Returned: returned, LastSt: lastSt, Problems: problems, Outstanding: outstanding, Queue: queue}
	for _, f := range cs.frames {
		sz := f.Size
		if f.Code == pmpx.Code_ChannelClose {
			sz += closeMark
		}
		abs.DataWire = append(abs.DataWire, sz)
	}
	for _, f := range cr.frames {
		abs.AckWire = append(abs.AckWire, f.Delta)
	}
	if chR != nil {
		rs := chR.unwrap()
		abs.Recv = rs.recvBytes.Load()
		abs.ClosedR = rs.closed.Load()
	}
	// a blocked sender must really be below the admission threshold (else it sleeps although it could go: lost wake-up)
	if blocked > 0 && abs.Wake == 0 && !abs.ClosedS {
		need := blocked
		if half < need {
			need = half
		}
		if int(abs.Win) >= need {
			problems = append(problems, fmt.Sprintf("Send(%d) is parked although the free window %d >= min(size, W/2)=%d and no wake-up is pending (W=%d)", blocked, abs.Win, need, W))
			abs.Problems = problems
		}
	}
	// unblock a parked sender so the execution can end (channel context cancel)
	if !sendDone {
		ss.ctx.Cancel()
		vsched.WaitIdle("settle")
	}
	return abs
}

func init() {
	// wake-up race at schedule granularity: a blocked Send races with the window frame that should wake it.
	vexp.Register(&vexp.Scenario{
		Name: "c07.wakeup-race", Prop: "C07",
		Bounds: func(thorough bool) vexp.Bounds {
			if thorough {
				return vexp.Bounds{P: 4, F: -1, E: 2}
			}
			return vexp.Bounds{P: 3, F: -1, E: 1}
		},
		Configs: func(thorough bool) []map[string]int {
			return []map[string]int{{"W": 4, "first": 4, "second": 2, "acks": 1}, {"W": 4, "first": 4, "second": 2, "acks": 2}, {"W": 5, "first": 3, "second": 3, "acks": 2},
				{"W": 1, "first": 1, "second": 1, "acks": 1}, {"W": 8, "first": 8, "second": 16, "acks": 1}, {"W": 8, "first": 8, "second": 16, "acks": 2}}
		},
		Doc: "sender: Send(first) then Send(second) which must wait || receiver side delivers two window updates: every schedule must end with the second Send admitted (no lost wake-up, no deadlock) and with the free send window equal to W - outstanding (no lost update of the window counter)",
		Body: func(x *vexp.Ctx) {
			vFreshGlobals()
			W, first, second := x.P("W", 4), x.P("first", 4), x.P("second", 2)
			cs := newWireConn()
			chS := newChannel(cs, true, bin.Int128(0, 9), int32(W))
			ctx := async.NoContext()
			done := false
			var st2 status.Status
			vsched.GoNamed("sender", func() {
				chS.Send(ctx, make([]byte, first))
				st2 = chS.Send(ctx, make([]byte, second))
				done = true
			})
			acked := false
			vsched.GoNamed("acks", func() {
				// the receiver acknowledges everything in two updates
				a := first / 2
				if x.P("acks", 2) == 1 {
					a = 0 // a single update: nothing later can rescue a lost wake-up
				}
				if a > 0 {
					chS.receive(vWindow(bin.Int128(0, 9), int32(a)))
				}
				chS.receive(vWindow(bin.Int128(0, 9), int32(first-a)))
				acked = true
			})
			joinAll("acks delivered", &acked)
			// after all acknowledgements the window is full again: the second Send must get through
			vsched.Join("second send admitted", func() bool { return done })
			if !st2.OK() {
				x.Fail("Send fails", "%v", st2)
			}
			// conservation: everything of the first message was acknowledged, the second is outstanding, so the
			// sender's free window is exactly W - second whatever the interleaving of Send and window frames
			if got, want := int(chS.unwrap().sendWindow.Load()), W-second; got != want {
				x.Fail("send window accounting diverges under concurrent Send and window update", "W=%d first=%d (fully acknowledged) second=%d outstanding: free window %d, want %d", W, first, second, got, want)
			}
			x.Outcome = fmt.Sprintf("done=%v frames=%d", done, len(cs.frames))
		},
	})
}

// L1: a window update that has to wait for the receiver's write queue while the Receive that triggers it is given a
// context which is cancelled at that moment. The message is returned to the caller, the receiver keeps consuming with a
// live context afterwards: the sender must still be admitted ("whenever the receiver keeps consuming, every blocked Send
// is eventually admitted").
func init() {
	vexp.Register(&vexp.Scenario{
		Name: "c07.L1.window-update-vs-cancelled-receive", Prop: "C07", MaxSteps: 200000,
		Bounds: func(thorough bool) vexp.Bounds {
			if thorough {
				return vexp.Bounds{P: 2, F: 1, E: 0}
			}
			return vexp.Bounds{P: 1, F: 1, E: 0}
		},
		Configs: func(thorough bool) []map[string]int {
			var out []map[string]int
			for _, size := range []int{4096, 2048} {
				for when := 0; when < 2; when++ {
					out = append(out, map[string]int{"window": 4096, "writeq": 64, "rbuf": 4096, "wbuf": 4096, "size": size, "when": when})
				}
			}
			return out
		},
		Doc: "real client and server connections, window 4096, write queues of 64 bytes. Channel A: the server handler sends three messages of `size` bytes (each needs the window the previous one used). The client reads the first one with a context that another thread cancels (every interleaving), everything else with a live context; meanwhile the client sends 2000-byte messages on channel B, so the window update for A may have to wait for space in the client's write queue just when that context is cancelled. All three messages and the end status must arrive; nobody may wait forever",
		Body: func(x *vexp.Ctx) {
			size := x.P("size", 4096)
			var got [][]byte
			var sent [][]byte
			hDone, bDone := false, false
			handler := HandleFunc(func(ctx Context, ch Channel) status.Status {
				msg, st := ch.Receive(async.NoContext())
				if !st.OK() {
					return st
				}
				if string(msg) != "A" {
					// channel B: drain
					for {
						if _, st := ch.Receive(async.NoContext()); !st.OK() {
							bDone = true
							return status.OK
						}
					}
				}
				defer func() { hDone = true }()
				for k := 0; k < 3; k++ {
					p := vPayload(1, 0, k, size)
					if st := ch.Send(async.NoContext(), p); !st.OK() {
						return st
					}
					sent = append(sent, p)
				}
				return status.OK
			})
			w := newWide(x, handler)
			live := async.NoContext()
			cctx := async.NewContext()
			defer cctx.Free()
			aDone, fDone, cDone := false, false, false
			drained := false
			firstSt := ""
			vsched.GoNamed("client.A", func() {
				defer func() { aDone = true }()
				ch, st := w.cli.Channel(live)
				if !st.OK() {
					return
				}
				defer ch.Free()
				if st := ch.Send(live, []byte("A")); !st.OK() {
					return
				}
				// first message with the cancellable context
				msg, st := ch.Receive(cctx)
				firstSt = string(st.Code)
				if st.OK() {
					got = append(got, append([]byte{}, msg...))
				}
				for {
					msg, st := ch.Receive(live)
					if !st.OK() {
						drained = st.Code == status.CodeEnd
						return
					}
					got = append(got, append([]byte{}, msg...))
				}
			})
			vsched.GoNamed("client.B", func() {
				defer func() { fDone = true }()
				ch, st := w.cli.Channel(live)
				if !st.OK() {
					return
				}
				for k := 0; k < 2; k++ {
					ch.Send(live, vPayload(0, 1, k, 2000))
				}
				ch.Free()
			})
			vsched.GoNamed("cancel", func() {
				if x.P("when", 0) == 1 {
					// not before the handler has queued its first message: the cancel then races with the delivery of the
					// message, the Receive that reads it and the window update that Receive sends
					vsched.Join("first message sent", func() bool { return len(sent) >= 1 || hDone })
				}
				cctx.Cancel()
				cDone = true
			})
			vsched.Join("all done", func() bool { return aDone && fDone && cDone && hDone && bDone })
			if !drained {
				x.Fail("receiver did not observe the end status", "first Receive: %s, got %d messages", firstSt, len(got))
			}
			if len(got) != len(sent) || len(sent) != 3 {
				x.Fail("messages missing although the receiver kept consuming", "sent %d, received %d (first Receive: %s)", len(sent), len(got), firstSt)
			}
			for i := range got {
				if i < len(sent) && string(got[i]) != string(sent[i]) {
					x.Fail("message corrupted or reordered", "message %d", i)
				}
			}
			for _, e := range w.log.bad() {
				x.Fail("error logged: "+errSig(e), "%s", e)
			}
			x.Outcome = fmt.Sprintf("first=%s got=%d", firstSt, len(got))
			w.shutdown()
		},
	})
}

// L2: the same clause with the write queue full for certain: the window update of a Receive waits for queue space (the
// peer's socket is not being read) when the context given to that Receive is cancelled.
func init() {
	vexp.Register(&vexp.Scenario{
		Name: "c07.L2.window-update-waits-for-write-queue-when-receive-context-is-cancelled", Prop: "C07", MaxSteps: 200000,
		Bounds: func(thorough bool) vexp.Bounds {
			if thorough {
				return vexp.Bounds{P: 1, F: 1, E: 0}
			}
			return vexp.Bounds{P: 1, F: 0, E: 0}
		},
		Configs: func(thorough bool) []map[string]int {
			return []map[string]int{{"window": 4096, "writeq": 64, "rbuf": 16, "wbuf": 16, "size": 4096}, {"window": 4096, "writeq": 64, "rbuf": 16, "wbuf": 16, "size": 2048}}
		},
		Doc: "real client and server connections, window 4096. The server handler of channel A sends one message of `size` bytes, later a second and a third one (which need the window the first ones used). The server stops reading its socket, the client's sibling channel B fills the 64-byte write queue until its Send blocks. Now the client reads A's first message with a cancellable context: the message is consumed and its window update has to wait for queue space; the context is cancelled, Receive returns the message. The server reads again and the client keeps consuming with a live context: all messages and the end status must arrive (the window the consumed message freed must reach the sender)",
		Body: func(x *vexp.Ctx) {
			size := x.P("size", 4096)
			release := false
			var sent, got [][]byte
			hDone, bEnd := false, false
			handler := HandleFunc(func(ctx Context, ch Channel) status.Status {
				msg, st := ch.Receive(async.NoContext())
				if !st.OK() {
					return st
				}
				if string(msg) != "A" {
					for {
						if _, st := ch.Receive(async.NoContext()); !st.OK() {
							bEnd = true
							return status.OK
						}
					}
				}
				defer func() { hDone = true }()
				for k := 0; k < 3; k++ {
					if k == 1 {
						vsched.Join("released", func() bool { return release })
					}
					p := vPayload(1, 0, k, size)
					if st := ch.Send(async.NoContext(), p); !st.OK() {
						return st
					}
					sent = append(sent, p)
				}
				return status.OK
			})
			w := newWide(x, handler)
			live := async.NoContext()
			chA, st := w.cli.Channel(live)
			if !st.OK() {
				x.Fail("Channel fails on a healthy connection", "%v", st)
				return
			}
			chB, st := w.cli.Channel(live)
			if !st.OK() {
				x.Fail("Channel fails on a healthy connection", "%v", st)
				return
			}
			chA.Send(live, []byte("A"))
			chB.Send(live, []byte("b"))
			vsched.WaitIdle("first message of A delivered")
			w.b.StallAfterRead(0, nil)
			w.a.SetWriteCapacity(32)
			bDone := false
			vsched.GoNamed("client.B", func() {
				for k := 0; k < 3; k++ {
					if st := chB.Send(live, vPayload(0, 1, k, 1995)); !st.OK() {
						break
					}
				}
				chB.Free()
				bDone = true
			})
			vsched.WaitIdle("write queue full, B blocked")
			cctx := async.NewContext()
			defer cctx.Free()
			aDone, drained := false, false
			firstSt := ""
			vsched.GoNamed("client.A", func() {
				defer func() { aDone = true }()
				defer chA.Free()
				msg, st := chA.Receive(cctx)
				firstSt = string(st.Code)
				if st.OK() {
					got = append(got, append([]byte{}, msg...))
				}
				for {
					msg, st := chA.Receive(live)
					if !st.OK() {
						drained = st.Code == status.CodeEnd
						return
					}
					got = append(got, append([]byte{}, msg...))
				}
			})
			vsched.WaitIdle("A's window update waits for the write queue")
			cctx.Cancel()
			vsched.WaitIdle("first Receive returned")
			release = true
			w.b.Unstall()
			vsched.Join("all done", func() bool { return aDone && bDone && hDone && bEnd })
			if !drained {
				x.Fail("receiver did not observe the end status", "first Receive: %s, got %d messages", firstSt, len(got))
			}
			if len(got) != 3 || len(sent) != 3 {
				x.Fail("messages missing although the receiver kept consuming", "sent %d, received %d (first Receive: %s)", len(sent), len(got), firstSt)
			}
			for i := range got {
				if i < len(sent) && string(got[i]) != string(sent[i]) {
					x.Fail("message corrupted or reordered", "message %d", i)
				}
			}
			for _, e := range w.log.bad() {
				x.Fail("error logged: "+errSig(e), "%s", e)
			}
			x.Outcome = fmt.Sprintf("first=%s got=%d", firstSt, len(got))
			w.shutdown()
		},
	})
}

// L3: the sending side of the same clause: a Send whose context is cancelled while its frame waits for space in the
// write queue has already taken its bytes out of the send window.
func init() {
	vexp.Register(&vexp.Scenario{
		Name: "c07.L3.send-cancelled-while-waiting-for-write-queue", Prop: "C07", MaxSteps: 200000,
		Bounds: func(thorough bool) vexp.Bounds {
			if thorough {
				return vexp.Bounds{P: 1, F: 1, E: 0}
			}
			return vexp.Bounds{P: 1, F: 0, E: 0}
		},
		Configs: func(thorough bool) []map[string]int {
			return []map[string]int{{"window": 4096, "writeq": 64, "rbuf": 16, "wbuf": 16, "size": 4096, "first": 0}, {"window": 4096, "writeq": 64, "rbuf": 16, "wbuf": 16, "size": 2048, "first": 0},
				{"window": 4096, "writeq": 64, "rbuf": 16, "wbuf": 16, "size": 2048, "first": 1}}
		},
		Doc: "real client and server connections, window 4096. The server stops reading, the client's sibling channel B fills the 64-byte write queue until its Send blocks. The client then calls Send(ctx, m1) on channel A (first=0: A is open already; first=1: m1 is the message that opens A): the message is admitted by the window and waits for queue space; ctx is cancelled and Send fails. The server reads again and the client sends m2, m3 of the same size with a live context and ends the channel; the server's handler consumes everything: the later Sends must be admitted and delivered in order, the handler must see the end (the bytes of the message that was never sent must not stay charged to the window, a channel whose opening message failed must still be opened for its peer)",
		Body: func(x *vexp.Ctx) {
			size := x.P("size", 4096)
			first := x.P("first", 0) == 1
			var got [][]byte
			aEnd, bEnd := false, false
			handler := HandleFunc(func(ctx Context, ch Channel) status.Status {
				msg, st := ch.Receive(async.NoContext())
				if !st.OK() {
					return st
				}
				if string(msg) == "b" {
					for {
						if _, st := ch.Receive(async.NoContext()); !st.OK() {
							bEnd = true
							return status.OK
						}
					}
				}
				if string(msg) != "A" {
					got = append(got, append([]byte{}, msg...))
				}
				for {
					m, st := ch.Receive(async.NoContext())
					if !st.OK() {
						aEnd = st.Code == status.CodeEnd
						return status.OK
					}
					got = append(got, append([]byte{}, m...))
				}
			})
			w := newWide(x, handler)
			live := async.NoContext()
			chA, st := w.cli.Channel(live)
			if !st.OK() {
				x.Fail("Channel fails on a healthy connection", "%v", st)
				return
			}
			chB, st := w.cli.Channel(live)
			if !st.OK() {
				x.Fail("Channel fails on a healthy connection", "%v", st)
				return
			}
			if !first {
				chA.Send(live, []byte("A"))
			}
			chB.Send(live, []byte("b"))
			vsched.WaitIdle("channels open")
			w.b.StallAfterRead(0, nil)
			w.a.SetWriteCapacity(32)
			bDone := false
			vsched.GoNamed("client.B", func() {
				for k := 0; k < 3; k++ {
					if st := chB.Send(live, vPayload(0, 1, k, 1995)); !st.OK() {
						break
					}
				}
				chB.Free()
				bDone = true
			})
			vsched.WaitIdle("write queue full, B blocked")
			cctx := async.NewContext()
			defer cctx.Free()
			aDone := false
			var sts []string
			var sent [][]byte
			step := 0
			vsched.GoNamed("client.A", func() {
				defer func() { aDone = true }()
				defer chA.Free()
				m1 := vPayload(0, 0, 0, size)
				st := chA.Send(cctx, m1)
				sts = append(sts, string(st.Code))
				if st.OK() {
					sent = append(sent, m1)
				}
				step = 1
				vsched.Join("server reads again", func() bool { return step == 2 })
				for k := 1; k < 3; k++ {
					m := vPayload(0, 0, k, size)
					st := chA.Send(live, m)
					sts = append(sts, string(st.Code))
					if st.OK() {
						sent = append(sent, m)
					}
				}
			})
			vsched.WaitIdle("A's first Send waits for the write queue")
			cctx.Cancel()
			vsched.Join("first Send returned", func() bool { return step == 1 })
			w.b.Unstall()
			step = 2
			vsched.Join("all done", func() bool { return aDone && bDone && bEnd && (aEnd || len(sent) == 0) })
			for k := 1; k < len(sts); k++ {
				if sts[k] != string(status.CodeOK) {
					x.Fail("Send with a live context fails on a healthy connection after an earlier Send was cancelled", "statuses %v", sts)
				}
			}
			// what arrived must be the sent messages in order (the cancelled one may or may not be among them)
			j := 0
			for _, g := range got {
				for j < len(sent) && string(sent[j]) != string(g) {
					j++
				}
				if j == len(sent) {
					x.Fail("the receiver got a message that was not sent, or out of order", "got %d messages, sent OK %d, statuses %v", len(got), len(sent), sts)
					break
				}
				j++
			}
			if len(got) < len(sent) {
				x.Fail("messages whose Send returned OK are missing although the receiver consumed to the end", "sent OK %d, received %d, statuses %v", len(sent), len(got), sts)
			}
			for _, e := range w.log.bad() {
				x.Fail("error logged: "+errSig(e), "%s", e)
			}
			x.Outcome = fmt.Sprintf("sts=%v got=%d end=%v", sts, len(got), aEnd)
			w.shutdown()
		},
	})
}

// A1: the two ends are configured with different window options. The window of a channel is the one its opener
// announced in the open frame; both directions must keep flowing while the receivers consume.
func init() {
	vexp.Register(&vexp.Scenario{
		Name: "c07.A1.different-window-options-on-the-two-ends", Prop: "C07", Also: []string{"C03"}, MaxSteps: 400000,
		Bounds: func(thorough bool) vexp.Bounds {
			if thorough {
				return vexp.Bounds{P: 1, F: 1, E: 0}
			}
			return vexp.Bounds{P: 1, F: 0, E: 0}
		},
		Configs: func(thorough bool) []map[string]int {
			return []map[string]int{
				{"window": 4096, "srvwindow": 512, "size": 500, "n": 12},
				{"window": 512, "srvwindow": 4096, "size": 500, "n": 12},
				{"window": 4096, "srvwindow": 1024, "size": 3000, "n": 4},
				{"window": 1024, "srvwindow": 65536, "size": 700, "n": 8}}
		},
		Doc: "real client and server connections whose options differ: client window `window`, server window `srvwindow`. The client opens a channel (the open frame announces the client's window), sends n messages of `size` bytes and the handler streams n messages of `size` bytes back, several windows' worth in each direction, while both sides keep consuming: every Send must be admitted, all messages arrive in order, both ends observe the end (a side that sizes its send window or its acknowledgement threshold from its OWN option instead of the announced window stalls in one direction)",
		Body: func(x *vexp.Ctx) {
			size, n := x.P("size", 500), x.P("n", 12)
			var srvGot, cliGot [][]byte
			hDone, sendDone := false, false
			handler := HandleFunc(func(ctx Context, ch Channel) status.Status {
				defer func() { hDone = true }()
				sd := false
				vsched.GoNamed("srv.sender", func() {
					defer func() { sd = true }()
					for k := 0; k < n; k++ {
						if st := ch.Send(async.NoContext(), vPayload(1, 0, k, size)); !st.OK() {
							return
						}
					}
				})
				for len(srvGot) < n {
					m, st := ch.Receive(async.NoContext())
					if !st.OK() {
						break
					}
					srvGot = append(srvGot, append([]byte{}, m...))
				}
				vsched.Join("server sender done", func() bool { return sd })
				sendDone = true
				return status.OK
			})
			w := newWide(x, handler)
			live := async.NoContext()
			ch, st := w.cli.Channel(live)
			if !st.OK() {
				x.Fail("Channel fails on a healthy connection", "%v", st)
				return
			}
			cSend, cRecv, ended := false, false, false
			vsched.GoNamed("cli.sender", func() {
				defer func() { cSend = true }()
				for k := 0; k < n; k++ {
					if st := ch.Send(live, vPayload(0, 0, k, size)); !st.OK() {
						x.Fail("Send fails on a healthy connection", "%v", st)
						return
					}
				}
			})
			vsched.GoNamed("cli.receiver", func() {
				defer func() { cRecv = true }()
				for {
					m, st := ch.Receive(live)
					if !st.OK() {
						ended = st.Code == status.CodeEnd
						return
					}
					cliGot = append(cliGot, append([]byte{}, m...))
				}
			})
			vsched.Join("both directions complete", func() bool { return cSend && cRecv && hDone })
			ch.Free()
			if len(srvGot) != n || len(cliGot) != n || !ended || !sendDone {
				x.Fail("messages missing although both sides kept consuming", "server got %d, client got %d of %d, end seen %v", len(srvGot), len(cliGot), n, ended)
			}
			for k := range srvGot {
				if string(srvGot[k]) != string(vPayload(0, 0, k, size)) {
					x.Fail("message corrupted or reordered", "client->server message %d", k)
				}
			}
			for k := range cliGot {
				if string(cliGot[k]) != string(vPayload(1, 0, k, size)) {
					x.Fail("message corrupted or reordered", "server->client message %d", k)
				}
			}
			for _, e := range w.log.bad() {
				x.Fail("error logged: "+errSig(e), "%s", e)
			}
			x.Outcome = fmt.Sprintf("srv=%d cli=%d end=%v", len(srvGot), len(cliGot), ended)
			w.shutdown()
		},
	})
}
