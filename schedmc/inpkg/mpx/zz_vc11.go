package mpx

import (
	"bytes"
	"encoding/binary"
	"fmt"
	"github.com/basecomplextech/spec"
	"io"
	"strings"

	"github.com/basecomplextech/baselibrary/alloc"
	"github.com/basecomplextech/baselibrary/async"
	"github.com/basecomplextech/baselibrary/bin"
	"github.com/basecomplextech/baselibrary/status"
	"github.com/basecomplextech/spec/proto/pmpx"
	"github.com/basecomplextech/spec/zzverif/vexp"
	"github.com/basecomplextech/spec/zzverif/vnet"
	"github.com/basecomplextech/spec/zzverif/vsched"
)

// C11 — server serves only negotiated connections and survives hostile peers.
//
// A scripted raw peer writes bytes to a fake connection that is handed to the real server.handle; a well-behaved
// real client runs on a second connection of the same server at the same time.

func vFrame4(payload []byte) []byte {
	b := make([]byte, 4, 4+len(payload))
	binary.BigEndian.PutUint32(b, uint32(len(payload)))
	return append(b, payload...)
}

func vMsgBytes(m pmpx.Message) []byte { return append([]byte{}, m.Unwrap().Raw()...) }

func vConnectReq(versions []pmpx.Version, comps []pmpx.ConnectCompression) []byte {
	m, err := pmpx.BuildConnectRequest(pmpx.ConnectInput{Versions: versions, Compressions: comps})
	if err != nil {
		panic(err)
	}
	return vFrame4(vMsgBytes(m))
}

type c11hs struct {
	name       string
	bytes      func() []byte
	negotiated bool
	refusal    bool // the server must answer with a refusing ConnectResponse
	slowRead   bool // deliver one byte per read
}

var c11handshakes = []c11hs{
	{"correct", func() []byte { return append([]byte(ProtocolLine), vConnectReq([]pmpx.Version{10}, nil)...) }, true, false, false},
	{"correct-split-reads", func() []byte { return append([]byte(ProtocolLine), vConnectReq([]pmpx.Version{10}, nil)...) }, true, false, true},
	{"versions-99-10", func() []byte { return append([]byte(ProtocolLine), vConnectReq([]pmpx.Version{99, 10}, nil)...) }, true, false, false},
	{"unknown-compression", func() []byte {
		return append([]byte(ProtocolLine), vConnectReq([]pmpx.Version{10}, []pmpx.ConnectCompression{7})...)
	}, true, false, false}, // unknown algorithms are ignored: negotiated without compression
	{"no-versions", func() []byte { return append([]byte(ProtocolLine), vConnectReq(nil, nil)...) }, false, true, false},
	{"version-99", func() []byte { return append([]byte(ProtocolLine), vConnectReq([]pmpx.Version{99}, nil)...) }, false, true, false},
	{"no-line", func() []byte { return vConnectReq([]pmpx.Version{10}, nil) }, false, false, false},
	{"wrong-line", func() []byte { return append([]byte("HTTP/1.1 200\n"), vConnectReq([]pmpx.Version{10}, nil)...) }, false, false, false},
	{"line-without-newline", func() []byte { return []byte("SpecMPX/1") }, false, false, false},
	{"first-frame-response", func() []byte {
		m, _ := pmpx.BuildConnectResponse(10, 0)
		return append([]byte(ProtocolLine), vFrame4(vMsgBytes(m))...)
	}, false, false, false},
	{"first-frame-open", func() []byte {
		return append([]byte(ProtocolLine), vFrame4(vMsgBytes(vOpen(bin.Int128(0, 5), []byte("hx"), 1024)))...)
	}, false, false, false},
	{"first-frame-garbage", func() []byte { return append([]byte(ProtocolLine), vFrame4([]byte{0xff, 0xfe, 0x01, 0x50})...) }, false, false, false},
	// near misses of the protocol line
	{"line-crlf", func() []byte {
		return append([]byte(ProtocolLine[:len(ProtocolLine)-1]+"\r\n"), vConnectReq([]pmpx.Version{10}, nil)...)
	}, false, false, false},
	{"line-trailing-space", func() []byte {
		return append([]byte(ProtocolLine[:len(ProtocolLine)-1]+" \n"), vConnectReq([]pmpx.Version{10}, nil)...)
	}, false, false, false},
	{"line-leading-space", func() []byte { return append([]byte(" "+ProtocolLine), vConnectReq([]pmpx.Version{10}, nil)...) }, false, false, false},
	{"line-lower-case", func() []byte {
		return append([]byte(strings.ToLower(ProtocolLine)), vConnectReq([]pmpx.Version{10}, nil)...)
	}, false, false, false},
	{"line-empty-then-line", func() []byte { return append([]byte("\n"+ProtocolLine), vConnectReq([]pmpx.Version{10}, nil)...) }, false, false, false},
	{"line-with-nul", func() []byte {
		return append([]byte(ProtocolLine[:len(ProtocolLine)-1]+"\x00\n"), vConnectReq([]pmpx.Version{10}, nil)...)
	}, false, false, false},
	// a well-formed connect_request sub-message under another message code: still "anything else first"
	{"request-under-code-open", func() []byte { return append([]byte(ProtocolLine), vConnectReqCode(pmpx.Code_ChannelOpen, true)...) }, false, false, false},
	{"request-under-code-response", func() []byte {
		return append([]byte(ProtocolLine), vConnectReqCode(pmpx.Code_ConnectResponse, true)...)
	}, false, false, false},
	{"request-under-code-batch", func() []byte { return append([]byte(ProtocolLine), vConnectReqCode(pmpx.Code_Batch, true)...) }, false, false, false},
	{"request-under-code-undefined", func() []byte { return append([]byte(ProtocolLine), vConnectReqCode(pmpx.Code_Undefined, true)...) }, false, false, false},
	{"request-under-unknown-code-77", func() []byte { return append([]byte(ProtocolLine), vConnectReqCode(pmpx.Code(77), true)...) }, false, false, false},
	{"request-without-code-field", func() []byte { return append([]byte(ProtocolLine), vConnectReqCode(0, false)...) }, false, false, false},
	{"request-code-without-request-field", func() []byte {
		w := spec.NewMessageWriter()
		w.Field(1).Int32(int32(pmpx.Code_ConnectRequest))
		b, err := w.Build()
		if err != nil {
			panic(err)
		}
		return append([]byte(ProtocolLine), vFrame4(append([]byte{}, b...))...)
	}, false, false, false},
}

// vConnectReqCode: a message whose field 2 is a valid connect_request (version 1.0) but whose code field is c
// (or absent).
func vConnectReqCode(c pmpx.Code, withCode bool) []byte {
	valid, err := pmpx.BuildConnectRequest(pmpx.ConnectInput{Versions: []pmpx.Version{10}})
	if err != nil {
		panic(err)
	}
	w := spec.NewMessageWriter()
	if withCode {
		w.Field(1).Int32(int32(c))
	}
	if err := w.Field(2).Any(valid.Unwrap().FieldRaw(2)); err != nil {
		panic(err)
	}
	b, err := w.Build()
	if err != nil {
		panic(err)
	}
	return vFrame4(append([]byte{}, b...))
}

type c11frame struct {
	name  string
	bytes func() []byte
	// effect on the reference model of a negotiated connection
	kind string // open:<id> | use:<id> | close:<id> | batchopenclose:<id> | ignore | error
}

func c11frames() []c11frame {
	id1, id2 := bin.Int128(0, 1), bin.Int128(0, 2)
	nested := func() []byte {
		inner := alloc.NewBuffer()
		b := pmpx.NewBatchBuilder(inner)
		b, _ = b.Data(id1, []byte("x"))
		m, _ := b.Build()
		// a batch whose list holds a batch
		outer := pmpx.NewMessageWriter()
		outer.Code(pmpx.Code_Batch)
		w1 := outer.Batch()
		w2 := w1.List()
		w2.Copy(m)
		w2.End()
		w1.End()
		om, err := outer.Build()
		if err != nil {
			panic(err)
		}
		return vFrame4(vMsgBytes(om))
	}
	unknownCode := func() []byte {
		w := pmpx.NewMessageWriter()
		w.Code(pmpx.Code(77))
		m, err := w.Build()
		if err != nil {
			panic(err)
		}
		return vFrame4(vMsgBytes(m))
	}
	return []c11frame{
		{"open-1", func() []byte { return vFrame4(vMsgBytes(vOpen(id1, []byte("h1"), 1024))) }, "open:1"},
		{"open-2", func() []byte { return vFrame4(vMsgBytes(vOpen(id2, []byte("h2"), 1024))) }, "open:2"},
		{"data-1", func() []byte { return vFrame4(vMsgBytes(vData(id1, []byte("d")))) }, "use:1"},
		{"window-1", func() []byte { return vFrame4(vMsgBytes(vWindow(id1, 9))) }, "use:1"},
		{"close-1", func() []byte { return vFrame4(vMsgBytes(vClose(id1, nil))) }, "close:1"},
		{"batch-open-close-2", func() []byte { return vFrame4(vMsgBytes(vBatchOpenClose(id2, []byte("h2")))) }, "batchopenclose:2"},
		{"nested-batch", nested, "error"},
		{"unknown-code", unknownCode, "error"},
		{"connect-request-again", func() []byte { return vConnectReq([]pmpx.Version{10}, nil) }, "error"},
		{"garbage-payload", func() []byte { return vFrame4([]byte{0x03, 0x5a, 0xff, 0x01, 0x46}) }, "error"},
		{"hostile-struct-size", func() []byte { return vFrame4([]byte{0xc8, 0x5a}) }, "error"},
		{"empty-frame", func() []byte { return vFrame4(nil) }, "error"},
		{"truncated-frame", func() []byte { return vFrame4(vMsgBytes(vData(id1, []byte("dddd"))))[:9] }, "truncated"},
		{"length-70000-no-body", func() []byte { return []byte{0, 1, 0x11, 0x70} }, "truncated"},
		{"length-16M-no-body", func() []byte { return []byte{1, 0, 0, 0, 1, 2, 3} }, "truncated"},
	}
}

func init() {
	frames := c11frames()
	vexp.Register(&vexp.Scenario{
		Name: "c11.hostile-peer", Prop: "C11", MaxSteps: 60000,
		Bounds: func(thorough bool) vexp.Bounds {
			if thorough {
				return vexp.Bounds{P: 1, F: 1, E: 1}
			}
			return vexp.Bounds{P: 1, F: 0, E: 0}
		},
		Configs: func(thorough bool) []map[string]int {
			var out []map[string]int
			n := len(frames)
			for h := range c11handshakes {
				if !c11handshakes[h].negotiated {
					// non-negotiated: followed by a valid open (must not be served) and by nothing
					out = append(out, map[string]int{"hs": h, "f1": 0, "f2": -1, "f3": -1}, map[string]int{"hs": h, "f1": -1, "f2": -1, "f3": -1})
					continue
				}
				if h > 0 {
					out = append(out, map[string]int{"hs": h, "f1": 0, "f2": 2, "f3": -1})
					continue
				}
				out = append(out, map[string]int{"hs": h, "f1": -1, "f2": -1, "f3": -1})
				trunc := func(i int) bool { return frames[i].kind == "truncated" } // only meaningful as the last frame
				for a := 0; a < n; a++ {
					out = append(out, map[string]int{"hs": h, "f1": a, "f2": -1, "f3": -1})
					for b := 0; b < n && !trunc(a); b++ {
						out = append(out, map[string]int{"hs": h, "f1": a, "f2": b, "f3": -1})
						if thorough && !trunc(b) {
							for c := 0; c < n; c++ {
								out = append(out, map[string]int{"hs": h, "f1": a, "f2": b, "f3": c})
							}
						}
					}
				}
			}
			return out
		},
		Doc: "scripted raw peer (12 handshake variants; after a correct handshake every sequence of <=2 (quick) / <=3 (thorough) frames from a 15-frame alphabet: valid open/data/window/close, open+close batch, nested batch, unknown code, repeated connect request, garbage and parser-hostile payloads, empty, truncated and oversized frames) against the real server.handle, concurrently with a well-behaved real client on a second connection",
		Body: func(x *vexp.Ctx) {
			vFreshGlobals()
			hs := c11handshakes[x.P("hs", 0)]
			var seq []c11frame
			for _, k := range []string{"f1", "f2", "f3"} {
				if i := x.P(k, -1); i >= 0 {
					seq = append(seq, frames[i])
				}
			}
			// reference model of what a negotiated connection must do with the frame sequence
			wantCalls := map[string]int{}
			if hs.negotiated {
				open := map[string]bool{}
				alive := true
				for _, f := range seq {
					if !alive {
						break
					}
					var k, id string
					fmt.Sscanf(f.kind, "%s", &k)
					if i := bytes.IndexByte([]byte(f.kind), ':'); i >= 0 {
						k, id = f.kind[:i], f.kind[i+1:]
					}
					switch k {
					case "open":
						if open[id] {
							alive = false // duplicate id: connection error
						} else {
							open[id] = true
							wantCalls["h"+id]++
						}
					case "batchopenclose":
						if open[id] {
							alive = false
						} else {
							wantCalls["h"+id]++
						}
					case "close":
						delete(open, id)
					case "error", "truncated":
						alive = false
					}
				}
			}
			calls := map[string]int{}
			goodGot := []string{}
			handler := HandleFunc(func(ctx Context, ch Channel) status.Status {
				rctx := async.NoContext()
				first, _, _ := ch.ReceiveAsync(rctx)
				calls[string(first)]++
				if string(first) == "good0" {
					goodGot = append(goodGot, "good0")
					for {
						m, st := ch.Receive(rctx)
						if !st.OK() {
							return status.OK
						}
						goodGot = append(goodGot, string(m))
						if st := ch.Send(rctx, append([]byte("re:"), m...)); !st.OK() {
							return status.OK
						}
					}
				}
				// hostile channels stay open until their context is cancelled (peer close / connection end), so that
				// "the id is still open" is well defined for the duplicate-open frames of the alphabet
				vsched.Recv(ctx.Wait())
				return status.OK
			})
			log := newVLogger()
			opts := vOpts(x)
			srv := newServer("vnet", handler, log, opts)

			// hostile connection
			peer, sconn := vnet.Pair("peer", "srv-hostile")
			peer.Decisions, sconn.Decisions = false, false
			if hs.slowRead {
				sconn.MaxRead = 1
			}
			script := hs.bytes()
			for _, f := range seq {
				script = append(script, f.bytes()...)
			}
			peer.Write(script)
			srv.handle(sconn)

			// legitimate client on a second connection
			ca, cb := vnet.Pair("cli", "srv-good")
			ca.Decisions, cb.Decisions = false, false
			srv.handle(cb)
			good := newConn(ca, true, noopConnDelegate{}, nil, log, opts)
			gDone := false
			var gSt status.Status
			vsched.GoNamed("good.run", func() { gSt = good.run(); gDone = true })
			var replies []string
			cDone := false
			goodErr := ""
			vsched.GoNamed("good.client", func() {
				defer func() { cDone = true }()
				ctx := async.NoContext()
				ch, st := good.Channel(ctx)
				if !st.OK() {
					goodErr = "channel: " + st.String()
					return
				}
				for i := 0; i < 2; i++ {
					msg := fmt.Sprintf("good%d", i)
					if st := ch.Send(ctx, []byte(msg)); !st.OK() {
						goodErr = "send: " + st.String()
						return
					}
					if i == 0 {
						continue // the first message only opens the channel (no reply)
					}
					r, st := ch.Receive(ctx)
					if !st.OK() {
						goodErr = "receive: " + st.String()
						return
					}
					replies = append(replies, string(r))
				}
				ch.Free()
			})
			vsched.Join("good client done", func() bool { return cDone })
			// the hostile peer finishes: half-close its side; then read everything the server wrote until EOF
			peerDone := false
			var peerRead []byte
			peerEOF := false
			vsched.GoNamed("peer.read", func() {
				defer func() { peerDone = true }()
				buf := make([]byte, 256)
				for {
					n, err := peer.Read(buf)
					peerRead = append(peerRead, buf[:n]...)
					if err == io.EOF {
						peerEOF = true
						return
					}
					if err != nil {
						return
					}
				}
			})
			// let the server consume the whole script; a connection that must be refused has to be closed by the
			// server on its own (the peer reads EOF) unless the server is legitimately waiting for more bytes
			vsched.WaitIdle("server consumed the script")
			closedByServer := peerEOF || peerDone
			waitingForBytes := hs.name == "line-without-newline"
			if !peerDone {
				peer.Close() // the peer gives up
			}
			vsched.Join("peer read to the end", func() bool { return peerDone })
			vsched.WaitIdle("quiesce")
			expectClosedByServer := !hs.negotiated && !waitingForBytes
			peerEOF = closedByServer

			// ---- oracle ----
			for k, n := range calls {
				if k == "good0" {
					continue
				}
				if !hs.negotiated {
					x.Fail("handler invoked on a connection whose handshake did not complete ("+hs.name+")", "first payload %q: %d invocation(s); the peer's handshake was: %s", k, n, hs.name)
				} else if n != wantCalls[k] {
					x.Fail("handler invocations differ from the valid opens of the session", "payload %q: %d invocations, want %d; frames=%v", k, n, wantCalls[k], c11names(seq))
				}
			}
			for k, n := range wantCalls {
				if calls[k] != n {
					x.Fail("handler invocations differ from the valid opens of the session", "payload %q: %d invocations, want %d; frames=%v", k, calls[k], n, c11names(seq))
				}
			}
			if hs.refusal {
				// line, then a refusing ConnectResponse, then EOF
				ok := bytes.HasPrefix(peerRead, []byte(ProtocolLine))
				refused := false
				if ok {
					rest := peerRead[len(ProtocolLine):]
					if len(rest) >= 4 {
						n := int(binary.BigEndian.Uint32(rest))
						if 4+n <= len(rest) {
							if m, _, err := pmpx.ParseMessage(rest[4 : 4+n]); err == nil && m.Code() == pmpx.Code_ConnectResponse && !m.ConnectResponse().Ok() {
								refused = true
								if len(rest) > 4+n {
									x.Fail("server keeps talking after the refusal", "%d extra bytes after the refusing response", len(rest)-4-n)
								}
							}
						}
					}
				}
				if !refused {
					x.Fail("refused peer did not read a refusing connect response", "peer read %d bytes: %q", len(peerRead), clipB(peerRead))
				}
			}
			if expectClosedByServer && !peerEOF && !hs.negotiated {
				x.Fail("non-negotiated connection not closed by the server", "handshake %s: the peer did not read EOF", hs.name)
			}
			// the good client is unaffected
			if goodErr != "" {
				x.Fail("well-behaved client on a second connection fails: "+errSig(goodErr), "%s (hostile handshake %s frames %v)", goodErr, hs.name, c11names(seq))
			} else if fmt.Sprint(replies) != "[re:good1]" || fmt.Sprint(goodGot) != "[good0 good1]" {
				x.Fail("well-behaved client's traffic disturbed", "replies=%v serverGot=%v", replies, goodGot)
			}
			for _, e := range log.Errors {
				if contains(e, "panic") {
					x.Fail("panic logged: "+errSig(e), "%s", e)
				}
			}
			x.Outcome = fmt.Sprintf("hs-negotiated=%v calls=%d closedByServer=%v", hs.negotiated, len(calls)-1, peerEOF)
			good.Close()
			vsched.Join("good conn exits", func() bool { return gDone })
			_ = gSt
		},
	})
}

func c11names(fs []c11frame) []string {
	var out []string
	for _, f := range fs {
		out = append(out, f.name)
	}
	return out
}
