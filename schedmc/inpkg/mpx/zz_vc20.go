package mpx

import (
	"fmt"

	"github.com/basecomplextech/baselibrary/alloc"
	"github.com/basecomplextech/baselibrary/async"
	"github.com/basecomplextech/baselibrary/bin"
	"github.com/basecomplextech/baselibrary/status"
	"github.com/basecomplextech/spec/proto/pmpx"
	"github.com/basecomplextech/spec/zzverif/vexp"
	"github.com/basecomplextech/spec/zzverif/vnet"
	"github.com/basecomplextech/spec/zzverif/vsched"
)

// C20 — handlers and close listeners fire exactly once.

func c20Bounds(thorough bool) vexp.Bounds {
	if thorough {
		return vexp.Bounds{P: 3, F: -1, E: 1}
	}
	return vexp.Bounds{P: 2, F: -1, E: 1}
}

type c20listener struct {
	name        string
	ok          bool // registration reported success
	registered  bool // registration call returned
	calls       int
	closedInFn  bool // Closed().IsSet() observed inside the listener
	unsubDone   bool
	unsubBefore bool // unsub returned before close began
}

func (l *c20listener) check(x *vexp.Ctx, closeDone bool) {
	switch {
	case !l.registered:
		return
	case !l.ok:
		if l.calls != 0 {
			x.Fail("listener called although registration reported 'already closed'", "%s: calls=%d", l.name, l.calls)
		}
	case l.unsubBefore:
		if l.calls != 0 {
			x.Fail("listener called although it was unsubscribed before the close began", "%s: calls=%d", l.name, l.calls)
		}
	case l.unsubDone:
		if l.calls > 1 {
			x.Fail("listener called more than once", "%s: calls=%d", l.name, l.calls)
		}
	default:
		if closeDone && l.calls != 1 {
			x.Fail(fmt.Sprintf("registered listener called %d times after close (want exactly once)", l.calls), "%s: registration ok, never unsubscribed, connection closed", l.name)
		}
	}
	if l.calls > 0 && !l.closedInFn {
		x.Fail("closed flag not observable inside the listener", "%s ran while Closed().IsSet() was false", l.name)
	}
}

func vBatchOpenClose(id bin.Bin128, data []byte) pmpx.Message {
	b := pmpx.NewBatchBuilder(alloc.NewBuffer())
	b, err := b.Open(id, data, 1024)
	if err != nil {
		panic(err)
	}
	b, err = b.Close(id, nil)
	if err != nil {
		panic(err)
	}
	m, err := b.Build()
	if err != nil {
		panic(err)
	}
	return m
}

// X1: the exported closed context (what rpc hands out from Channel.Context() after the channel was freed).
func init() {
	vexp.Register(&vexp.Scenario{
		Name: "c20.X1.closed-context-listener", Prop: "C20",
		Bounds: func(bool) vexp.Bounds { return vexp.Bounds{} },
		Doc:    "ClosedContext(): Conn() must answer, a disconnect listener registered on it must be refused (registration reports 'already closed') and never run, the disconnected flag must be set, nothing panics",
		Body: func(x *vexp.Ctx) {
			calls := 0
			pn, _ := func() (p any, _ int) {
				defer func() { p = recover() }()
				cc := ClosedContext().Conn()
				_, ok := cc.OnDisconnected(func() { calls++ })
				if ok {
					x.Fail("a listener registered on the closed context is accepted", "registration reported success")
				}
				if !cc.Disconnected().IsSet() {
					x.Fail("the closed context does not report Disconnected", "flag unset although OnDisconnected says already closed")
				}
				return nil, 0
			}()
			if pn != nil {
				x.Fail("registering a disconnect listener on the closed context panics", "%v", pn)
			}
			if calls != 0 {
				x.Fail("listener called although registration reported 'already closed'", "calls=%d", calls)
			}
			x.Outcome = fmt.Sprintf("panic=%v", pn != nil)
		},
	})
}

// O1: open frames still sitting in the read buffer when the connection is torn down because the SEND loop failed
// first (the peer sent a burst of opens and went away; the first handler's reply hits a dead socket).
func init() {
	vexp.Register(&vexp.Scenario{
		Name: "c20.O1.opens-buffered-when-send-loop-fails", Prop: "C20", Also: []string{"C09"}, MaxSteps: 200000,
		Bounds: func(thorough bool) vexp.Bounds {
			if thorough {
				return vexp.Bounds{P: 2, F: -1, E: 0}
			}
			return vexp.Bounds{P: 1, F: -1, E: 0}
		},
		Configs: func(thorough bool) []map[string]int {
			return []map[string]int{{"opens": 2, "rbuf": 4096}, {"opens": 3, "rbuf": 4096}, {"opens": 3, "rbuf": 16}}
		},
		Doc: "real server connection (server.handle) against a scripted peer: handshake, then a burst of 2..3 channel opens in one write, then the peer closes its socket; the first handler replies at once, so the send loop fails on the dead socket and the connection is torn down while the receive loop may still be parsing opens from its buffer: every handler that was started must see its context cancelled and return, each exactly once",
		Body: func(x *vexp.Ctx) {
			vFreshGlobals()
			nopen := x.P("opens", 2)
			started := map[uint64]int{}
			returned := map[uint64]int{}
			var ctxs []Context
			handler := HandleFunc(func(ctx Context, ch Channel) status.Status {
				id := ch.(*channel).unwrap().id[1].Uint64()
				started[id]++
				ctxs = append(ctxs, ctx)
				defer func() { returned[id]++ }()
				if id == 1 {
					ch.Send(ctx, []byte("reply")) // reaches the dead socket
				}
				vsched.Recv(ctx.Wait())
				return status.OK
			})
			log := newVLogger()
			srv := newServer("vnet", handler, log, vOpts(x))
			peer, sconn := vnet.Pair("peer", "srv")
			peer.Decisions, sconn.Decisions = false, false
			peer.Write(append([]byte(ProtocolLine), vConnectReq([]pmpx.Version{10}, nil)...))
			srv.handle(sconn)
			vsched.WaitIdle("handshake done")
			var burst []byte
			for i := 1; i <= nopen; i++ {
				burst = append(burst, vFrame4(vMsgBytes(vOpen(bin.Int128(0, int64(i)), []byte("x"), 1024)))...)
			}
			peer.Write(burst)
			peer.Close()
			vsched.WaitIdle("connection torn down")
			for id, n := range started {
				if n != 1 {
					x.Fail("handler invoked more than once for one channel", "channel %d: %d invocations", id, n)
				}
				if returned[id] != 1 {
					x.Fail("handler not released after the connection was lost", "channel %d: started %d, returned %d", id, n, returned[id])
				}
			}
			for i, c := range ctxs {
				if !c.Done() {
					x.Fail("handler context not cancelled after the connection was lost", "handler #%d of %d", i, len(ctxs))
				}
			}
			for _, e := range log.Errors {
				if contains(e, "panic") {
					x.Fail("panic logged: "+errSig(e), "%s", e)
				}
			}
			x.Outcome = fmt.Sprintf("handlers-started=%d", len(started))
		},
	})
}

func init() {
	id7 := bin.Int128(0, 7)

	mkListener := func(s *vSeam, name string) (*c20listener, func()) {
		l := &c20listener{name: name}
		return l, func() {
			l.calls++
			if s.c.Closed().IsSet() {
				l.closedInFn = true
			}
		}
	}

	// L1/L2/L3: registration (and unsubscription) racing with close.
	for _, variant := range []string{"L1.register", "L2.register-unsub", "L3.two-registrations", "L4.conncontext-ondisconnected"} {
		variant := variant
		vexp.Register(&vexp.Scenario{
			Name: "c20." + variant + "-vs-close", Prop: "C20", Bounds: c20Bounds, Fine: true,
			Doc: "conn: " + variant + " || conn.close(); flag and listener-map operations are decision points (fine mode)",
			Body: func(x *vexp.Ctx) {
				s := newSeam(x, false, HandleFunc(func(ctx Context, ch Channel) status.Status { return status.OK }))
				l1, f1 := mkListener(s, "listener1")
				l2, f2 := mkListener(s, "listener2")
				closeBegan, closeDone, r1Done, r2Done := false, false, false, true
				vsched.GoNamed("registrar1", func() {
					var unsub func()
					if variant == "L4.conncontext-ondisconnected" {
						unsub, l1.ok = s.c.Context().OnDisconnected(f1)
					} else {
						unsub, l1.ok = s.c.OnClosed(f1)
					}
					l1.registered = true
					if variant == "L2.register-unsub" && l1.ok {
						unsub()
						l1.unsubBefore = !closeBegan
						l1.unsubDone = true
					}
					r1Done = true
				})
				if variant == "L3.two-registrations" {
					r2Done = false
					vsched.GoNamed("registrar2", func() {
						_, l2.ok = s.c.OnClosed(f2)
						l2.registered = true
						r2Done = true
					})
				}
				vsched.GoNamed("closer", func() {
					closeBegan = true
					s.c.close()
					closeDone = true
				})
				joinAll("join", &r1Done, &r2Done, &closeDone)
				l1.check(x, closeDone)
				l2.check(x, closeDone)
				// a second close must not notify again
				s.c.close()
				if l1.calls > 1 || l2.calls > 1 {
					x.Fail("listener called again by a repeated close", "calls=%d/%d", l1.calls, l2.calls)
				}
				x.Outcome = fmt.Sprintf("ok=%v/%v calls=%d/%d unsubBefore=%v", l1.ok, l2.ok, l1.calls, l2.calls, l1.unsubBefore)
			},
		})
	}

	// L5: a listener registered long ago (id 1) and a late registration whose id falls into the same bucket of the
	// listener map (id 17: sixteen registrations later) racing with close. The late registration adds and, seeing the
	// closed flag, removes its entry while notifyClosed walks the map.
	vexp.Register(&vexp.Scenario{
		Name: "c20.L5.old-listener-vs-late-registration-vs-close", Prop: "C20", Bounds: c20Bounds, Fine: true,
		Configs: func(thorough bool) []map[string]int {
			return []map[string]int{{"seq": 16}, {"seq": 1}, {"seq": 32}}
		},
		Doc: "conn: listener1 registered (id 1); the id sequence is advanced to `seq` (earlier listeners came and went); then OnClosed(listener2) || conn.close(): listener1 must be called exactly once whatever the late registration does; the map's atomics are decision points (fine mode)",
		Body: func(x *vexp.Ctx) {
			s := newSeam(x, false, HandleFunc(func(ctx Context, ch Channel) status.Status { return status.OK }))
			l1, f1 := mkListener(s, "listener1")
			l2, f2 := mkListener(s, "listener2")
			_, l1.ok = s.c.OnClosed(f1)
			l1.registered = true
			s.c.closedListenerSeq.Store(int64(x.P("seq", 16)))
			closeDone, r2Done := false, false
			vsched.GoNamed("registrar2", func() {
				_, l2.ok = s.c.OnClosed(f2)
				l2.registered = true
				r2Done = true
			})
			vsched.GoNamed("closer", func() {
				s.c.close()
				closeDone = true
			})
			joinAll("join", &r2Done, &closeDone)
			l1.check(x, closeDone)
			l2.check(x, closeDone)
			x.Outcome = fmt.Sprintf("ok=%v/%v calls=%d/%d", l1.ok, l2.ok, l1.calls, l2.calls)
		},
	})

	// H1..H4: each accepted open is handed to the handler exactly once; its context is cancelled exactly when the
	// channel ends or the connection is lost.
	type hcase struct {
		name, doc string
		frames    func() []pmpx.Message
		wantCalls int
		wantErr   bool // the receive path reports a connection error (duplicate id)
		connLoss  bool
	}
	cases := []hcase{
		{"H1.open-then-close", "receive(open A+data, close A) || handler waits for its context || send loop",
			func() []pmpx.Message { return []pmpx.Message{vOpen(id7, []byte("p"), 1024), vClose(id7, nil)} }, 1, false, false},
		{"H2.open-close-batch", "receive(batch(open A+data, close A)) || handler || send loop",
			func() []pmpx.Message { return []pmpx.Message{vBatchOpenClose(id7, []byte("p"))} }, 1, false, false},
		{"H3.duplicate-open", "receive(open A, open A again): the duplicate is a connection error and must not start a second handler",
			func() []pmpx.Message {
				return []pmpx.Message{vOpen(id7, []byte("p"), 1024), vOpen(id7, []byte("q"), 1024)}
			}, 1, true, true},
		{"H4.conn-loss", "receive(open A) || handler waits for its context || connection closes",
			func() []pmpx.Message { return []pmpx.Message{vOpen(id7, []byte("p"), 1024)} }, 1, false, true},
	}
	for _, hc := range cases {
		hc := hc
		vexp.Register(&vexp.Scenario{
			Name: "c20." + hc.name, Prop: "C20", Bounds: c20Bounds,
			Doc: "server conn: " + hc.doc,
			Body: func(x *vexp.Ctx) {
				calls := map[string]int{}
				early := ""
				exits := 0
				var s *vSeam
				handler := HandleFunc(func(ctx Context, ch Channel) status.Status {
					first, _, _ := ch.ReceiveAsync(ctx)
					calls[string(first)]++
					// not cancelled before the channel ended / the connection was lost
					if ctx.Done() {
						st := ch.(*channel).unwrap()
						if st != nil && !st.closed.Load() && !s.c.closed.IsSet() {
							early = "handler context already cancelled although neither the channel ended nor the connection closed"
						}
					}
					vsched.Recv(ctx.Wait()) // returns only when the context is cancelled
					exits++
					return status.OK
				})
				s = newSeam(x, false, handler)
				s.startSendLoop()
				var rst status.Status
				rDone := false
				vsched.GoNamed("receive", func() {
					rst = s.receive(hc.frames()...)
					rDone = true
				})
				joinAll("join receive", &rDone)
				if hc.connLoss {
					s.teardown(x) // connection lost: every handler context must be cancelled
				}
				// all handlers must come back (their contexts are cancelled); otherwise the explorer reports the deadlock
				vsched.Join("handlers return", func() bool {
					n := 0
					for _, c := range calls {
						n += c
					}
					return exits == n && n >= 1
				})
				total := 0
				for k, c := range calls {
					total += c
					if c != 1 {
						x.Fail("handler invoked more than once for one open frame", "payload %q: %d invocations", k, c)
					}
				}
				if total != hc.wantCalls {
					x.Fail(fmt.Sprintf("handler invocations = %d, want %d", total, hc.wantCalls), "calls by first payload: %v", calls)
				}
				if early != "" {
					x.Fail("handler context cancelled too early", "%s", early)
				}
				if hc.wantErr == rst.OK() && s.rPanic == "" {
					x.Fail(fmt.Sprintf("receive path status OK=%v, want error=%v", rst.OK(), hc.wantErr), "%v", rst)
				}
				if s.rPanic != "" {
					x.Fail("receive path panics: "+errSig(s.rPanic), "%s", s.rPanic)
				}
				x.Outcome = fmt.Sprintf("calls=%d exits=%d recvOK=%v", total, exits, rst.OK())
				if !hc.connLoss {
					s.teardown(x)
				}
			},
		})
	}
}

// X2: the channel ends on the client side with a SendAndClose whose (caller-owned) context is cancelled while the close
// frame waits for space in the connection write queue, followed by Free. The channel has ended from the client side;
// the server handler's context must be cancelled / its Receive must end while the connection stays healthy.
func init() {
	vexp.Register(&vexp.Scenario{
		Name: "c20.X2.sendandclose-cancelled-while-waiting-then-free", Prop: "C20", Also: []string{"C06"}, MaxSteps: 200000,
		Bounds: func(thorough bool) vexp.Bounds {
			if thorough {
				return vexp.Bounds{P: 1, F: 1, E: 0}
			}
			return vexp.Bounds{P: 1, F: 0, E: 0}
		},
		Configs: func(thorough bool) []map[string]int {
			return []map[string]int{{"window": 4096, "writeq": 64, "rbuf": 16, "wbuf": 16, "size": 100, "first": 0},
				{"window": 4096, "writeq": 64, "rbuf": 16, "wbuf": 16, "size": 0, "first": 0},
				{"window": 4096, "writeq": 64, "rbuf": 16, "wbuf": 16, "size": 100, "first": 1}}
		},
		Doc: "real client and server connections. The server stops reading, the client's sibling channel B fills the 64-byte write queue until its Send blocks. The client then calls SendAndClose(ctx, m) on channel A (first=0: A is open and its handler is waiting in Receive; first=1: m would also open A): the frame waits for queue space, ctx is cancelled, SendAndClose fails; the client Frees A. The server reads again. A has ended from the client side: the server's handler of A (if the peer ever learnt of A) must see its context cancelled and its Receive end, exactly once, while the connection stays open and B is delivered completely",
		Body: func(x *vexp.Ctx) {
			size := x.P("size", 100)
			first := x.P("first", 0) == 1
			aStarted, aCancelled, aRuns := false, false, 0
			bEnd, bGot := false, 0
			aGot := 0
			handler := HandleFunc(func(ctx Context, ch Channel) status.Status {
				msg, st := ch.Receive(async.NoContext())
				if !st.OK() {
					return st
				}
				if string(msg) == "b" {
					for {
						if _, st := ch.Receive(async.NoContext()); !st.OK() {
							bEnd = st.Code == status.CodeEnd
							return status.OK
						}
						bGot++
					}
				}
				aStarted = true
				aRuns++
				if string(msg) != "A" {
					aGot++
				}
				for {
					if _, st := ch.Receive(async.NoContext()); !st.OK() {
						break
					}
					aGot++
				}
				aCancelled = ctx.Done()
				return status.OK
			})
			w := newWide(x, handler)
			live := async.NoContext()
			chA, st := w.cli.Channel(live)
			if !st.OK() {
				x.Fail("Channel fails on a healthy connection", "%v", st)
				return
			}
			chB, st := w.cli.Channel(live)
			if !st.OK() {
				x.Fail("Channel fails on a healthy connection", "%v", st)
				return
			}
			if !first {
				chA.Send(live, []byte("A"))
			}
			chB.Send(live, []byte("b"))
			vsched.WaitIdle("channels open")
			w.b.StallAfterRead(0, nil)
			w.a.SetWriteCapacity(32)
			bDone, bSent := false, 0
			vsched.GoNamed("client.B", func() {
				for k := 0; k < 3; k++ {
					if st := chB.Send(live, vPayload(0, 1, k, 1995)); !st.OK() {
						break
					}
					bSent++
				}
				chB.Free()
				bDone = true
			})
			vsched.WaitIdle("write queue full, B blocked")
			cctx := async.NewContext()
			defer cctx.Free()
			aDone := false
			sacSt := ""
			vsched.GoNamed("client.A", func() {
				defer func() { aDone = true }()
				var m []byte
				if size > 0 {
					m = vPayload(0, 0, 0, size)
				}
				st := chA.SendAndClose(cctx, m)
				sacSt = string(st.Code)
				chA.Free()
			})
			vsched.WaitIdle("A's SendAndClose waits for the write queue")
			cctx.Cancel()
			vsched.WaitIdle("SendAndClose returned, Free called or waiting")
			w.b.Unstall()
			vsched.Join("client done", func() bool { return aDone && bDone && bEnd })
			// the server must learn of A's end if it ever learnt of A
			vsched.WaitIdle("server settles")
			if aStarted && !aCancelled {
				x.Fail("channel ended by its client (SendAndClose "+sacSt+", then Free) but the server handler is never cancelled", "handler of A still waits in Receive on a healthy connection; SendAndClose returned %s", sacSt)
			}
			if aRuns > 1 {
				x.Fail("handler invoked more than once for one channel", "%d", aRuns)
			}
			if bGot != bSent || bSent != 3 {
				x.Fail("sibling channel lost messages", "sent %d received %d", bSent, bGot)
			}
			if w.cli.closed.IsSet() || w.srv.closed.IsSet() {
				x.Fail("connection closed by the end of a channel", "")
			}
			for _, e := range w.log.bad() {
				x.Fail("error logged: "+errSig(e), "%s", e)
			}
			x.Outcome = fmt.Sprintf("sac=%s started=%v cancelled=%v aGot=%d", sacSt, aStarted, aCancelled, aGot)
			w.shutdown()
		},
	})
}
