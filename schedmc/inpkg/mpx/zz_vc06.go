package mpx

import (
	"fmt"

	"github.com/basecomplextech/baselibrary/async"
	"github.com/basecomplextech/baselibrary/bin"
	"github.com/basecomplextech/baselibrary/status"
	"github.com/basecomplextech/spec/proto/pmpx"
	"github.com/basecomplextech/spec/zzverif/vexp"
	"github.com/basecomplextech/spec/zzverif/vsched"
)

// C06 — ending one channel never disturbs the connection or other channels.
//
// Narrow seams: a real conn (handshake done) whose receive path, send loop, handler and user calls are separate
// threads; frames are injected through the real dispatch function conn.receiveMessage.

func c06Bounds(thorough bool) vexp.Bounds {
	if thorough {
		return vexp.Bounds{P: 3, F: -1, E: 1}
	}
	return vexp.Bounds{P: 2, F: -1, E: 1}
}

// c06Check is the common oracle: the connection is still open, nothing panicked, no error was logged.
func c06Check(x *vexp.Ctx, s *vSeam, recvSt status.Status) {
	if s.rPanic != "" {
		x.Fail("receive path panics: "+errSig(s.rPanic), "the receive loop would panic with %q and tear down the connection", s.rPanic)
	} else if !recvSt.OK() {
		x.Fail("receive path returns an error for a frame of an ended channel: "+errSig(shortSt(recvSt)), "status %v (a connection error closes the connection)", recvSt)
	}
	if s.c.closed.IsSet() {
		x.Fail("connection closed", "Conn.Closed() is set after a channel ended")
	}
	if s.sDone {
		x.Fail("send loop exited: "+errSig(shortSt(s.sSt)), "send loop returned %v although only a channel ended", s.sSt)
	}
	for _, e := range s.log.bad() {
		x.Fail("error logged: "+errSig(e), "logger error record: %s", e)
	}
}

func init() {
	id7 := bin.Int128(0, 7)
	id8 := bin.Int128(0, 8)

	// N1: peer data frames race with the handler returning (Free) and with the send loop writing the close frame.
	vexp.Register(&vexp.Scenario{
		Name: "c06.N1.data-vs-handler-exit", Prop: "C06", Bounds: c06Bounds, Boundary: true,
		Doc: "server conn: receive(open A, data A, data A) || handler returns at once (Free -> close frame) || send loop",
		Body: func(x *vexp.Ctx) {
			handler := HandleFunc(func(ctx Context, ch Channel) status.Status { return status.OK })
			s := newSeam(x, false, handler)
			s.startSendLoop()
			var rst status.Status
			rDone := false
			vsched.GoNamed("receive", func() {
				rst = s.receive(vOpen(id7, nil, 1024), vData(id7, []byte("a1")), vData(id7, []byte("a2")))
				rDone = true
			})
			joinAll("join receive", &rDone)
			c06Check(x, s, rst)
			x.Outcome = fmt.Sprintf("panic=%v recv=%v", s.rPanic != "", rst.OK())
			s.teardown(x)
		},
	})

	// N7: a sibling channel keeps its delivery guarantee while channel A ends under traffic.
	vexp.Register(&vexp.Scenario{
		Name: "c06.N7.sibling-delivery", Prop: "C06",
		Bounds: func(thorough bool) vexp.Bounds {
			if thorough {
				return vexp.Bounds{P: 2, F: 2, E: 1}
			}
			return vexp.Bounds{P: 1, F: 1, E: 1}
		},
		Doc: "server conn: receive(open A, open B+b0, data A, data B b1, data A, close B+b2) || handler A returns at once || handler B drains || send loop: B must receive exactly b0,b1,b2",
		Body: func(x *vexp.Ctx) {
			var bGot []string
			bDone := false
			handler := HandleFunc(func(ctx Context, ch Channel) status.Status {
				// the reader uses a context of its own: with the channel's context a blocked Receive may legitimately
				// return Cancelled (not the end status) when the peer's close cancels that context
				rctx := async.NoContext()
				first, st := ch.Receive(rctx)
				if !st.OK() || string(first) != "b0" {
					return status.OK // channel A (no payload / ended): handler exits immediately
				}
				bGot = append(bGot, string(first))
				for {
					msg, st := ch.Receive(rctx)
					if !st.OK() {
						bDone = true
						return status.OK
					}
					bGot = append(bGot, string(msg))
				}
			})
			s := newSeam(x, false, handler)
			s.startSendLoop()
			var rst status.Status
			rDone := false
			vsched.GoNamed("receive", func() {
				rst = s.receive(vOpen(id7, []byte("a0"), 1024), vOpen(id8, []byte("b0"), 1024), vData(id7, []byte("a1")), vData(id8, []byte("b1")), vData(id7, []byte("a2")), vClose(id8, []byte("b2")))
				rDone = true
			})
			joinAll("join receive", &rDone)
			if s.rPanic == "" && rst.OK() {
				vsched.Join("handler B drained", func() bool { return bDone || s.c.closed.IsSet() })
			}
			c06Check(x, s, rst)
			if s.rPanic == "" && rst.OK() && !s.c.closed.IsSet() && fmt.Sprint(bGot) != "[b0 b1 b2]" {
				x.Fail("sibling channel delivery broken", "channel B received %v, want [b0 b1 b2]", bGot)
			}
			x.Outcome = fmt.Sprintf("panic=%v recv=%v B=%d", s.rPanic != "", rst.OK(), len(bGot))
			s.teardown(x)
		},
	})

	// N2: same with window frames (receiveWindow path).
	vexp.Register(&vexp.Scenario{
		Name: "c06.N2.window-vs-handler-exit", Prop: "C06", Bounds: c06Bounds, Boundary: true,
		Doc: "server conn: receive(open A, window A, window A) || handler returns at once || send loop",
		Body: func(x *vexp.Ctx) {
			handler := HandleFunc(func(ctx Context, ch Channel) status.Status { return status.OK })
			s := newSeam(x, false, handler)
			s.startSendLoop()
			var rst status.Status
			rDone := false
			vsched.GoNamed("receive", func() {
				rst = s.receive(vOpen(id7, nil, 1024), vWindow(id7, 10), vWindow(id7, 20))
				rDone = true
			})
			joinAll("join receive", &rDone)
			c06Check(x, s, rst)
			x.Outcome = fmt.Sprintf("panic=%v recv=%v", s.rPanic != "", rst.OK())
			s.teardown(x)
		},
	})

	// N3: peer close frame races with the user's Free and the send loop.
	vexp.Register(&vexp.Scenario{
		Name: "c06.N3.peerclose-vs-userfree", Prop: "C06", Bounds: c06Bounds, Boundary: true,
		Doc: "client conn: user opens channel, sends, Free || peer data+close frames || send loop",
		Body: func(x *vexp.Ctx) {
			s := newSeam(x, true, nil)
			s.startSendLoop()
			ctx := s.c.ctx
			ch, st := s.c.Channel(ctx)
			if !st.OK() {
				x.Fail("harness: channel", "%v", st)
				return
			}
			id := ch.(*channel).unwrap().id
			if st := ch.Send(ctx, []byte("hello")); !st.OK() {
				x.Fail("Send fails on a fresh channel: "+errSig(shortSt(st)), "%v", st)
			}
			var rst status.Status
			rDone, uDone := false, false
			userPanic := ""
			vsched.GoNamed("receive", func() {
				rst = s.receive(vData(id, []byte("r1")), vClose(id, []byte("bye")), vData(id, []byte("late")), vWindow(id, 5))
				rDone = true
			})
			vsched.GoNamed("user", func() {
				defer func() {
					if e := recover(); e != nil {
						userPanic = fmt.Sprint(e)
					}
					uDone = true
				}()
				ch.Receive(ctx)
				ch.Free()
			})
			joinAll("join", &rDone, &uDone)
			if userPanic != "" {
				x.Fail("user call panics: "+errSig(userPanic), "Receive/Free panicked: %s", userPanic)
			}
			c06Check(x, s, rst)
			x.Outcome = fmt.Sprintf("panic=%v/%v recv=%v", s.rPanic != "", userPanic != "", rst.OK())
			s.teardown(x)
		},
	})

	// N4: SendAndClose races with peer data and window frames.
	vexp.Register(&vexp.Scenario{
		Name: "c06.N4.sendandclose-vs-peerdata", Prop: "C06", Bounds: c06Bounds, Boundary: true,
		Doc: "client conn: user SendAndClose then Free || peer data, window, data frames || send loop",
		Body: func(x *vexp.Ctx) {
			s := newSeam(x, true, nil)
			s.startSendLoop()
			ctx := s.c.ctx
			ch, st := s.c.Channel(ctx)
			if !st.OK() {
				x.Fail("harness: channel", "%v", st)
				return
			}
			id := ch.(*channel).unwrap().id
			ch.Send(ctx, []byte("m0"))
			var rst status.Status
			rDone, uDone := false, false
			userPanic := ""
			vsched.GoNamed("receive", func() {
				rst = s.receive(vData(id, []byte("r1")), vWindow(id, 7), vData(id, []byte("r2")))
				rDone = true
			})
			vsched.GoNamed("user", func() {
				defer func() {
					if e := recover(); e != nil {
						userPanic = fmt.Sprint(e)
					}
					uDone = true
				}()
				ch.SendAndClose(ctx, []byte("last"))
				ch.Free()
			})
			joinAll("join", &rDone, &uDone)
			if userPanic != "" {
				x.Fail("user call panics: "+errSig(userPanic), "SendAndClose/Free panicked: %s", userPanic)
			}
			c06Check(x, s, rst)
			x.Outcome = fmt.Sprintf("panic=%v/%v recv=%v", s.rPanic != "", userPanic != "", rst.OK())
			s.teardown(x)
		},
	})

	// N5: handler error / handler panic exits while the peer keeps sending.
	for _, mode := range []string{"error", "panic"} {
		mode := mode
		vexp.Register(&vexp.Scenario{
			Name: "c06.N5.handler-" + mode, Prop: "C06", Bounds: c06Bounds, Boundary: true,
			Doc: "server conn: handler " + mode + "s || peer data, window, data frames || send loop; only the handler's own " + mode + " record may be logged",
			Body: func(x *vexp.Ctx) {
				handler := HandleFunc(func(ctx Context, ch Channel) status.Status {
					if mode == "error" {
						return status.Errorf("handler failed")
					}
					panic("handler boom")
				})
				s := newSeam(x, false, handler)
				s.startSendLoop()
				var rst status.Status
				rDone := false
				vsched.GoNamed("receive", func() {
					rst = s.receive(vOpen(id7, nil, 1024), vData(id7, []byte("a1")), vWindow(id7, 3), vData(id7, []byte("a2")))
					rDone = true
				})
				joinAll("join receive", &rDone)
				// the handler's own failure is legitimately logged (whenever the handler thread gets there); anything else
				// is a violation
				s.log.allow = func(e string) bool {
					return e == "Channel error: error: handler failed" || (len(e) > 14 && e[:14] == "Channel panic:" && contains(e, "handler boom"))
				}
				c06Check(x, s, rst)
				x.Outcome = fmt.Sprintf("panic=%v recv=%v", s.rPanic != "", rst.OK())
				s.teardown(x)
			},
		})
	}

	// N6: user Free (close frame queued) races with conn.close() and the send loop.
	vexp.Register(&vexp.Scenario{
		Name: "c06.N6.userfree-vs-connclose", Prop: "C06", Bounds: c06Bounds, Boundary: true,
		Doc: "client conn: user Free queues a close frame || connection closes (closeChannels) || send loop drains the queue: the library must not panic",
		Body: func(x *vexp.Ctx) {
			s := newSeam(x, true, nil)
			ctx := s.c.ctx
			ch, st := s.c.Channel(ctx)
			if !st.OK() {
				x.Fail("harness: channel", "%v", st)
				return
			}
			ch.Send(ctx, []byte("m0"))
			s.startSendLoop()
			uDone, cDone := false, false
			userPanic, closePanic := "", ""
			vsched.GoNamed("user", func() {
				defer func() {
					if e := recover(); e != nil {
						userPanic = fmt.Sprint(e)
					}
					uDone = true
				}()
				ch.Free()
			})
			vsched.GoNamed("closer", func() {
				defer func() {
					if e := recover(); e != nil {
						closePanic = fmt.Sprint(e)
					}
					cDone = true
				}()
				s.c.close()
			})
			joinAll("join", &uDone, &cDone)
			vsched.Join("send loop exits", func() bool { return s.sDone })
			if userPanic != "" {
				x.Fail("user Free panics: "+errSig(userPanic), "%s", userPanic)
			}
			if closePanic != "" {
				x.Fail("conn.close panics: "+errSig(closePanic), "%s", closePanic)
			}
			for _, e := range s.log.bad() {
				x.Fail("error logged: "+errSig(e), "logger error record: %s", e)
			}
			x.Outcome = fmt.Sprintf("user=%v close=%v sendloop=%s", userPanic != "", closePanic != "", errSig(shortSt(s.sSt)))
			s.sctx.Cancel()
		},
	})
	_ = pmpx.Code_Batch
}

func contains(s, sub string) bool {
	for i := 0; i+len(sub) <= len(s); i++ {
		if s[i:i+len(sub)] == sub {
			return true
		}
	}
	return false
}

// M1: the connection's channel map itself: a lookup of a live channel while sibling channels of the same map bucket
// are added and removed (createChannel / the send loop's Delete on a close frame). Fine mode: the atomics of the
// map implementation are decision points.
func init() {
	vexp.Register(&vexp.Scenario{
		Name: "c06.M1.channel-map-lookup-vs-sibling-churn", Prop: "C06", Also: []string{"C03"}, Fine: true, MaxSteps: 100000,
		Bounds: func(thorough bool) vexp.Bounds {
			if thorough {
				return vexp.Bounds{P: 3, F: -1, E: 0}
			}
			return vexp.Bounds{P: 2, F: -1, E: 0}
		},
		Configs: func(thorough bool) []map[string]int {
			return []map[string]int{{"writers": 1}, {"writers": 2}}
		},
		Doc: "the map type newConn uses for conn.channels, exactly as conn uses it: channel V is registered and never removed; 1..2 threads Set and Delete sibling ids of the SAME bucket (what conn.Channel and the send loop do) while the receive path looks V up: every lookup must find V (a miss makes mpx drop a frame of a live channel silently)",
		Body: func(x *vexp.Ctx) {
			vFreshGlobals()
			c := newConn(nil, true, noopConnDelegate{}, nil, newVLogger(), vOpts(x))
			m := c.channels
			idV, idA, idB := bin.Int128(0, 16), bin.Int128(0, 32), bin.Int128(0, 48) // same bucket of the initial 16
			chV := newChannel(c, true, idV, 1024)
			chA := newChannel(c, true, idA, 1024)
			chB := newChannel(c, true, idB, 1024)
			m.Set(idV, chV)
			misses, wrong := 0, 0
			rDone, wDone := false, 0
			vsched.GoNamed("lookup", func() {
				for i := 0; i < 2; i++ {
					got, ok := m.Get(idV)
					if !ok {
						misses++
					} else if got != internalChannel(chV) {
						wrong++
					}
				}
				rDone = true
			})
			nw := x.P("writers", 1)
			for wi := 0; wi < nw; wi++ {
				id, ch := idA, chA
				if wi == 1 {
					id, ch = idB, chB
				}
				vsched.GoNamed(fmt.Sprintf("churn%d", wi), func() {
					m.Set(id, ch)
					m.Delete(id)
					wDone++
				})
			}
			vsched.Join("done", func() bool { return rDone && wDone == nw })
			if misses > 0 {
				x.Fail("a live channel is not found in the connection's channel map while sibling channels are added and removed", "%d of 2 lookups missed channel V", misses)
			}
			if wrong > 0 {
				x.Fail("the channel map returns another channel for the id of a live channel", "%d lookups", wrong)
			}
			if got, ok := m.Get(idV); !ok || got != internalChannel(chV) {
				x.Fail("a live channel disappeared from the connection's channel map", "after the churn")
			}
			x.Outcome = fmt.Sprintf("misses=%d", misses)
		},
	})
}

func init() {
	// W2: Free / SendAndClose / Send blocked on the FULL connection write queue while the peer ends the same channel.
	vexp.Register(&vexp.Scenario{
		Name: "c06.W2.end-blocked-on-full-write-queue", Prop: "C06", MaxSteps: 200000,
		Bounds: func(thorough bool) vexp.Bounds {
			if thorough {
				return vexp.Bounds{P: 1, F: 1, E: 0}
			}
			return vexp.Bounds{P: 1, F: 0, E: 0}
		},
		Configs: func(thorough bool) []map[string]int {
			var out []map[string]int
			for op := 0; op < 3; op++ {
				for peer := 0; peer < 3; peer++ {
					// fill=1995: the queued frame fills its 2048-byte block, so even the small close frame has to wait
					// for queue space; fill=1200: the close frame still fits behind it
					for _, fill := range []int{1995, 1200} {
						out = append(out, map[string]int{"op": op, "peer": peer, "writeq": 64, "wbuf": 16, "rbuf": 16, "fill": fill})
					}
				}
			}
			return out
		},
		Doc: "real client and server connections; the server stops reading (socket buffer of 32 bytes), sibling channel B fills the 64-byte write queue with 2000-byte messages until its Send blocks; then the client calls Free / SendAndClose / Send on channel A, which blocks waiting for queue space; meanwhile the server side of A ends (handler returns OK / returns an error / panics) and its close frame arrives; then the server reads again: the blocked call returns without panic, the connection stays open, B's messages all arrive in order",
		Body: func(x *vexp.Ctx) {
			op, peer := x.P("op", 0), x.P("peer", 0)
			release := false
			var bGot []int
			hDone := 0
			handler := HandleFunc(func(ctx Context, ch Channel) status.Status {
				defer func() { hDone++ }()
				rctx := async.NoContext()
				first, st := ch.Receive(rctx)
				if !st.OK() {
					return status.OK
				}
				if string(first) == "hold" {
					vsched.Join("released", func() bool { return release })
					switch peer {
					case 0:
						return status.OK
					case 1:
						return status.Errorf("handler failed")
					default:
						panic("handler boom")
					}
				}
				for {
					m, st := ch.Receive(rctx)
					if !st.OK() {
						return status.OK
					}
					bGot = append(bGot, len(m))
				}
			})
			w := newWide(x, handler)
			ctx := async.NoContext()
			var problems []string
			chA, st := w.cli.Channel(ctx)
			if !st.OK() {
				x.Fail("Channel fails on a healthy connection", "%v", st)
				return
			}
			chB, st := w.cli.Channel(ctx)
			if !st.OK() {
				x.Fail("Channel fails on a healthy connection", "%v", st)
				return
			}
			chA.Send(ctx, []byte("hold"))
			chB.Send(ctx, []byte("b"))
			vsched.WaitIdle("channels open")
			w.b.StallAfterRead(0, nil)
			w.a.SetWriteCapacity(32)
			bDone, aDone := false, false
			var bSt, aSt status.Status
			vsched.GoNamed("client.B", func() {
				for k := 0; k < 3; k++ {
					if bSt = chB.Send(ctx, vPayload(0, 1, k, x.P("fill", 2000)+k)); !bSt.OK() {
						break
					}
				}
				bDone = true
			})
			vsched.WaitIdle("write queue full, B blocked")
			vsched.GoNamed("client.A", func() {
				defer func() {
					if e := recover(); e != nil {
						problems = append(problems, fmt.Sprintf("call on channel A panics: %v", e))
					}
					aDone = true
				}()
				switch op {
				case 0:
					chA.Free()
				case 1:
					aSt = chA.SendAndClose(ctx, []byte("bye"))
					chA.Free()
				default:
					aSt = chA.Send(ctx, []byte("more"))
					chA.Free()
				}
			})
			vsched.WaitIdle("A blocked on the write queue")
			blockedA := !aDone
			release = true // the server side of A ends now: its close frame reaches the client
			vsched.WaitIdle("peer ended A")
			w.b.Unstall() // the server reads again: everything drains
			vsched.Join("client calls returned", func() bool { return aDone && bDone })
			vsched.WaitIdle("drained")
			for _, p := range problems {
				x.Fail("ending a channel panics: "+errSig(p), "%s", p)
			}
			if w.cli.closed.IsSet() || w.srv.closed.IsSet() {
				x.Fail("connection closed by ending a channel", "cli closed=%v srv closed=%v", w.cli.closed.IsSet(), w.srv.closed.IsSet())
			}
			if !bSt.OK() {
				x.Fail("sibling channel disturbed by ending another channel", "B's Send: %v", bSt)
			}
			if fmt.Sprint(bGot) != fmt.Sprint([]int{x.P("fill", 2000), x.P("fill", 2000) + 1, x.P("fill", 2000) + 2}) {
				x.Fail("sibling channel disturbed by ending another channel", "B delivered %v, want sizes fill, fill+1, fill+2 (fill=%d)", bGot, x.P("fill", 2000))
			}
			for _, e := range w.log.Errors {
				if contains(e, "panic") && !(peer == 2 && contains(e, "handler boom")) {
					x.Fail("panic logged: "+errSig(e), "%s", e)
				}
			}
			chB.Free()
			x.Outcome = fmt.Sprintf("op=%d peer=%d A-was-blocked=%v aSt=%s", op, peer, blockedA, aSt.Code)
			w.shutdown()
		},
	})

	ways := []string{"client Free under incoming traffic", "client SendAndClose under incoming traffic", "handler returns while the client keeps sending", "handler returns an error while the client keeps sending", "handler panics while the client keeps sending"}
	vexp.Register(&vexp.Scenario{
		Name: "c06.W1.wide-end-vs-sibling", Prop: "C06", MaxSteps: 100000,
		Bounds: func(thorough bool) vexp.Bounds {
			if thorough {
				return vexp.Bounds{P: 2, F: 1, E: 1}
			}
			return vexp.Bounds{P: 1, F: 1, E: 0}
		},
		Configs: func(thorough bool) []map[string]int {
			var out []map[string]int
			for w := range ways {
				out = append(out, map[string]int{"way": w, "window": 1 << 20}, map[string]int{"way": w, "window": 3, "writeq": 16})
			}
			return out
		},
		Doc: "real client and server connections with their real loops; channel A is ended in one of 5 ways (client Free / client SendAndClose while the server streams to it; server handler return / error / panic while the client streams to it) while sibling channel B transfers b0,b1 and a closing b2: both connections stay open, only the handler's own error/panic may be logged, B receives exactly its messages",
		Body: func(x *vexp.Ctx) {
			way := x.P("way", 0)
			var bGot []string
			bDrained := false
			hDone := 0
			handler := HandleFunc(func(ctx Context, ch Channel) status.Status {
				defer func() { hDone++ }()
				rctx := async.NoContext()
				first, st := ch.Receive(rctx)
				if !st.OK() {
					return status.OK
				}
				if string(first) == "b0" {
					bGot = append(bGot, "b0")
					for {
						m, st := ch.Receive(rctx)
						if !st.OK() {
							bDrained = st.Code == status.CodeEnd
							return status.OK
						}
						bGot = append(bGot, string(m))
					}
				}
				// channel A
				switch way {
				case 0, 1:
					for i := 0; i < 3; i++ { // stream to a client that is about to end the channel
						if st := ch.Send(rctx, []byte(fmt.Sprintf("s%d", i))); !st.OK() {
							return status.OK
						}
					}
					ch.Receive(rctx)
					return status.OK
				case 2:
					return status.OK
				case 3:
					return status.Errorf("handler failed")
				default:
					panic("handler boom")
				}
			})
			w := newWide(x, handler)
			ctx := async.NoContext()
			aDone, bDone := false, false
			var problems []string
			vsched.GoNamed("client.A", func() {
				defer func() {
					if e := recover(); e != nil {
						problems = append(problems, fmt.Sprintf("client call on channel A panics: %v", e))
					}
					aDone = true
				}()
				ch, st := w.cli.Channel(ctx)
				if !st.OK() {
					problems = append(problems, "Channel A: "+st.String())
					return
				}
				ch.Send(ctx, []byte("a0"))
				switch way {
				case 0:
					ch.Receive(ctx)
					ch.Free()
				case 1:
					ch.Receive(ctx)
					ch.SendAndClose(ctx, []byte("bye"))
					ch.Free()
				default:
					for i := 1; i <= 3; i++ { // keep sending to a handler that is gone
						if st := ch.Send(ctx, []byte(fmt.Sprintf("a%d", i))); !st.OK() {
							break
						}
					}
					ch.Free()
				}
			})
			vsched.GoNamed("client.B", func() {
				defer func() { bDone = true }()
				ch, st := w.cli.Channel(ctx)
				if !st.OK() {
					problems = append(problems, "Channel B: "+st.String())
					return
				}
				for i, m := range []string{"b0", "b1", "b2"} {
					var st status.Status
					if i < 2 {
						st = ch.Send(ctx, []byte(m))
					} else {
						st = ch.SendAndClose(ctx, []byte(m))
					}
					if !st.OK() {
						problems = append(problems, fmt.Sprintf("sibling Send(%s): %v", m, st))
					}
				}
				ch.Free()
			})
			vsched.Join("clients and handlers done", func() bool { return aDone && bDone && hDone == 2 })
			vsched.WaitIdle("quiesce")
			for _, p := range problems {
				x.Fail(errSig(p), "%s (%s)", p, ways[way])
			}
			if w.cli.closed.IsSet() || w.srv.closed.IsSet() || w.cliDone || w.srvDone {
				x.Fail("connection closed after one channel ended", "%s: cli closed=%v srv closed=%v (run loops: %v / %v)", ways[way], w.cli.closed.IsSet(), w.srv.closed.IsSet(), w.cliSt, w.srvSt)
			}
			if fmt.Sprint(bGot) != "[b0 b1 b2]" || !bDrained {
				x.Fail("sibling channel delivery broken", "%s: B received %v drained=%v", ways[way], bGot, bDrained)
			}
			for _, e := range w.log.Errors {
				if (way == 3 && e == "Channel error: error: handler failed") || (way == 4 && contains(e, "Channel panic") && contains(e, "handler boom")) {
					continue
				}
				x.Fail("error logged: "+errSig(e), "%s: %s", ways[way], e)
			}
			x.Outcome = fmt.Sprintf("way=%d B=%d", way, len(bGot))
			w.shutdown()
		},
	})
}
