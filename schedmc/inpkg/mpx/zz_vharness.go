package mpx

// Verification harness (injected by go build -overlay; not part of the repository).
// Builds real conn/channel/client objects over the fake transport and registers scenarios with the explorer.

import (
	"fmt"
	"reflect"
	"strings"

	"github.com/basecomplextech/baselibrary/async"
	"github.com/basecomplextech/baselibrary/bin"
	"github.com/basecomplextech/baselibrary/buffer"
	"github.com/basecomplextech/baselibrary/logging"
	"github.com/basecomplextech/baselibrary/status"
	"github.com/basecomplextech/baselibrary/units"
	"github.com/basecomplextech/spec/proto/pmpx"
	"github.com/basecomplextech/spec/zzverif/vexp"
	"github.com/basecomplextech/spec/zzverif/vnet"
	"github.com/basecomplextech/spec/zzverif/vsched"
)

// vLogger records error-level records (recovered panics are only observable there).
type baseLogger = logging.Logger

type vLogger struct {
	baseLogger
	Errors []string
	allow  func(string) bool // records a scenario expects (checked in bad, whenever the record arrives)
}

func newVLogger() *vLogger { return &vLogger{baseLogger: logging.Null} }

func (l *vLogger) Error(msg string, kv ...any) {
	l.Errors = append(l.Errors, msg+" "+fmt.Sprint(kv...))
}
func (l *vLogger) ErrorStatus(msg string, st status.Status, kv ...any) {
	l.Errors = append(l.Errors, msg+": "+st.String())
}
func (l *vLogger) Logger(name string) logging.Logger   { return l }
func (l *vLogger) WithFields(kv ...any) logging.Logger { return l }

// panics returns the error records that report a recovered panic or an internal error.
func (l *vLogger) bad() []string {
	var out []string
	for _, e := range l.Errors {
		if l.allow != nil && l.allow(e) {
			continue
		}
		out = append(out, e)
	}
	return out
}

func vOpts(x *vexp.Ctx) Options {
	o := Default()
	o.Compression = x.P("compress", 0) == 1
	o.ChannelWindowSize = units.Bytes(x.P("window", 1<<20))
	o.WriteQueueSize = units.Bytes(x.P("writeq", 1<<20))
	o.ReadBufferSize = units.Bytes(x.P("rbuf", 4096))
	o.WriteBufferSize = units.Bytes(x.P("wbuf", 4096))
	return o
}

// vOpenChannel calls the tree's openChannel. Parameters that a change of the tree appends to its signature are filled
// from the default options (integers: the default channel window) or with zero values, so the seam still builds.
func vOpenChannel(c internalConn, client bool, msg pmpx.ChannelOpen) *channel {
	f := reflect.ValueOf(openChannel)
	args := []reflect.Value{reflect.ValueOf(&c).Elem(), reflect.ValueOf(client), reflect.ValueOf(msg)}
	for i := 3; i < f.Type().NumIn(); i++ {
		t := f.Type().In(i)
		switch t.Kind() {
		case reflect.Int, reflect.Int32, reflect.Int64:
			args = append(args, reflect.ValueOf(int64(Default().ChannelWindowSize)).Convert(t))
		default:
			args = append(args, reflect.Zero(t))
		}
	}
	return f.Call(args)[0].Interface().(*channel)
}

func vFreshGlobals() {
	workerPool = async.NewPool()
}

// frame builders (wire-level peer)

func vOpen(id bin.Bin128, data []byte, window int32) pmpx.Message {
	m, err := pmpx.BuildChannelOpen(pmpx.NewMessageWriterBuffer(buffer.New()), id, data, window)
	if err != nil {
		panic(err)
	}
	return m
}
func vData(id bin.Bin128, data []byte) pmpx.Message {
	m, err := pmpx.BuildChannelData(pmpx.NewMessageWriterBuffer(buffer.New()), id, data)
	if err != nil {
		panic(err)
	}
	return m
}
func vClose(id bin.Bin128, data []byte) pmpx.Message {
	m, err := pmpx.BuildChannelClose(pmpx.NewMessageWriterBuffer(buffer.New()), id, data)
	if err != nil {
		panic(err)
	}
	return m
}
func vWindow(id bin.Bin128, delta int32) pmpx.Message {
	m, err := pmpx.BuildChannelWindow(pmpx.NewMessageWriterBuffer(buffer.New()), id, delta)
	if err != nil {
		panic(err)
	}
	return m
}

// vSeam is a server- or client-side conn with the handshake already done and no loops started: the harness
// drives receiveMessage / sendLoop / close itself (narrow seams).
type vSeam struct {
	c      *conn
	nc     *vnet.Conn
	peer   *vnet.Conn
	log    *vLogger
	sctx   async.CancelContext
	sDone  bool
	sSt    status.Status
	rPanic string
}

func newSeam(x *vexp.Ctx, client bool, handler Handler) *vSeam {
	vFreshGlobals()
	a, b := vnet.Pair("local", "peer")
	a.Decisions, b.Decisions = false, false
	log := newVLogger()
	c := newConn(a, client, noopConnDelegate{}, handler, log, vOpts(x))
	c.handshaked.Set()
	return &vSeam{c: c, nc: a, peer: b, log: log}
}

// startSendLoop runs the real send loop as a thread.
func (s *vSeam) startSendLoop() {
	s.sctx = async.NewContext()
	vsched.GoNamed("sendLoop", func() {
		defer func() {
			if e := recover(); e != nil {
				s.sSt = status.Recover(e)
				s.log.Errors = append(s.log.Errors, fmt.Sprintf("send loop panic: %v", e))
			}
			s.sDone = true
		}()
		s.sSt = s.c.sendLoop(s.sctx)
	})
}

// receive feeds frames to the real dispatch function the way receiveLoop does (panics are what the routine's
// recover would turn into a connection error).
func (s *vSeam) receive(msgs ...pmpx.Message) (st status.Status) {
	defer func() {
		if e := recover(); e != nil {
			s.rPanic = fmt.Sprint(e)
			st = status.Recover(e)
		}
	}()
	for _, m := range msgs {
		if st := s.c.receiveMessage(m, false); !st.OK() {
			return st
		}
	}
	return status.OK
}

func joinAll(what string, flags ...*bool) {
	vsched.Join(what, func() bool {
		for _, f := range flags {
			if !*f {
				return false
			}
		}
		return true
	})
}

func shortSt(st status.Status) string {
	s := st.String()
	if len(s) > 80 {
		s = s[:80]
	}
	return s
}

func errSig(s string) string {
	for i, c := range s {
		if c >= '0' && c <= '9' {
			return strings.TrimSpace(s[:i]) + "#"
		}
	}
	return s
}

// teardown closes the connection the way conn.run does when a loop exits; a panic here is the library's
// (conn.close is library code) and is reported as such.
func (s *vSeam) teardown(x *vexp.Ctx) {
	func() {
		defer func() {
			if e := recover(); e != nil {
				x.Fail("conn.close panics: "+errSig(fmt.Sprint(e)), "closing the connection after the scenario panicked: %v", e)
			}
		}()
		s.c.close()
	}()
	if s.sctx != nil {
		s.sctx.Cancel()
		vsched.Join("send loop exits", func() bool { return s.sDone })
	}
	for _, e := range s.log.Errors {
		if contains(e, "send loop panic") {
			x.Fail("send loop panics at connection close: "+errSig(e), "%s", e)
		}
	}
}
