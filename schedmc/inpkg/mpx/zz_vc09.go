package mpx

import (
	"bytes"
	"fmt"

	"github.com/basecomplextech/baselibrary/async"
	"github.com/basecomplextech/baselibrary/status"
	"github.com/basecomplextech/spec/zzverif/vexp"
	"github.com/basecomplextech/spec/zzverif/vsched"
)

// C09 — transport failures terminate cleanly and are never reported as success.
//
// Sessions over the fake transport are first recorded without a fault to learn how many bytes flow in each
// direction; then EVERY byte offset k of each direction is used as a fault point (cut of both directions, or
// clean half-close of that direction).

type c09session struct {
	name   string
	params map[string]int
	doc    string
	// run drives the client side; it appends what every public call returned
	client func(x *vexp.Ctx, w *vWide, r *c09rec)
	// handler is the server side
	handler func(r *c09rec) Handler
	// bounds overrides the common bounds (nil: common)
	bounds func(thorough bool) vexp.Bounds
	// every: use every n-th byte offset only (0/1: every offset)
	every int
}

type c09rec struct {
	calls     []string // "op=status"
	delivered [][]byte // every message handed to the application (both sides)
	sentSet   [][]byte // every message passed to Send
	ctxs      []async.Context
	handlers  int
	exits     int
}

func (r *c09rec) call(op string, st status.Status) status.Status {
	r.calls = append(r.calls, op+"="+string(st.Code))
	return st
}

func (r *c09rec) send(p []byte) []byte { r.sentSet = append(r.sentSet, p); return p }
func (r *c09rec) got(p []byte)         { r.delivered = append(r.delivered, append([]byte{}, p...)) }

func c09sessions() []c09session {
	echoHandler := func(r *c09rec) Handler {
		return HandleFunc(func(ctx Context, ch Channel) status.Status {
			r.handlers++
			defer func() { r.exits++ }()
			r.ctxs = append(r.ctxs, ctx)
			for {
				m, st := ch.Receive(ctx)
				if !st.OK() {
					return st
				}
				r.got(m)
				reply := r.send(append([]byte("re:"), m...))
				if st := ch.Send(ctx, reply); !st.OK() {
					return st
				}
			}
		})
	}
	echoClient := func(n, size int) func(x *vexp.Ctx, w *vWide, r *c09rec) {
		return func(x *vexp.Ctx, w *vWide, r *c09rec) {
			ctx := async.NoContext()
			ch, st := w.cli.Channel(ctx)
			if !r.call("Channel", st).OK() {
				return
			}
			defer ch.Free()
			r.ctxs = append(r.ctxs, ch.Context())
			for i := 0; i < n; i++ {
				p := r.send(vPayload(0, 0, i, size))
				if !r.call("Send", ch.Send(ctx, p)).OK() {
					return
				}
				m, st := ch.Receive(ctx)
				if !r.call("Receive", st).OK() {
					return
				}
				r.got(m)
			}
		}
	}
	return []c09session{
		{name: "F1.handshake-and-open", params: map[string]int{}, doc: "handshake, then the client opens a channel and sends one message; the handler only waits for its context",
			client: func(x *vexp.Ctx, w *vWide, r *c09rec) {
				ctx := async.NoContext()
				ch, st := w.cli.Channel(ctx)
				if !r.call("Channel", st).OK() {
					return
				}
				defer ch.Free()
				r.ctxs = append(r.ctxs, ch.Context())
				r.call("Send", ch.Send(ctx, r.send([]byte("hello"))))
				_, st = ch.Receive(ctx) // blocks until the channel or the connection ends
				r.call("Receive", st)
			},
			handler: func(r *c09rec) Handler {
				return HandleFunc(func(ctx Context, ch Channel) status.Status {
					r.handlers++
					defer func() { r.exits++ }()
					r.ctxs = append(r.ctxs, ctx)
					vsched.Recv(ctx.Wait())
					return ctx.Status()
				})
			}},
		{name: "F2.echo", params: map[string]int{}, doc: "handshake + two echo round trips", client: echoClient(2, 7), handler: echoHandler},
		{name: "F3.blocked-on-window", params: map[string]int{"window": 4}, doc: "window 4: the second Send blocks on the closed window (the handler never reads) when the fault hits",
			client: func(x *vexp.Ctx, w *vWide, r *c09rec) {
				ctx := async.NoContext()
				ch, st := w.cli.Channel(ctx)
				if !r.call("Channel", st).OK() {
					return
				}
				defer ch.Free()
				r.ctxs = append(r.ctxs, ch.Context())
				if !r.call("Send", ch.Send(ctx, r.send(vPayload(0, 0, 0, 4)))).OK() {
					return
				}
				r.call("Send", ch.Send(ctx, r.send(vPayload(0, 0, 1, 4)))) // must not hang forever
			},
			handler: func(r *c09rec) Handler {
				return HandleFunc(func(ctx Context, ch Channel) status.Status {
					r.handlers++
					defer func() { r.exits++ }()
					r.ctxs = append(r.ctxs, ctx)
					vsched.Recv(ctx.Wait())
					return ctx.Status()
				})
			}},
		{name: "F4.blocked-on-write-queue", params: map[string]int{"writeq": 16, "wbuf": 16, "rbuf": 16}, doc: "write queue of 16 bytes: a 200-byte message waits for queue space while frames trickle out", client: echoClient(1, 200), handler: echoHandler},
		{name: "F6.compressed", params: map[string]int{"compress": 1}, doc: "negotiated lz4 stream, one echo round trip", client: echoClient(1, 40), handler: echoHandler},
		{name: "F7.large-frame", params: map[string]int{"rbuf": 16, "wbuf": 16}, doc: "one 100-byte message through 16-byte buffers (frame spans many reads/writes)", client: echoClient(1, 100), handler: echoHandler},
		{name: "F10.open-racing-with-teardown", params: map[string]int{}, doc: "a channel is open and its caller blocked in Receive; a second caller calls Channel() the moment the connection is marked closed, i.e. WHILE the connection tears its channels down (preemption bound 1 also in the quick tier; every 3rd byte offset): the call fails, or the channel it returns is cancelled like all others",
			client: func(x *vexp.Ctx, w *vWide, r *c09rec) {
				ctx := async.NoContext()
				ch, st := w.cli.Channel(ctx)
				if !r.call("Channel", st).OK() {
					return
				}
				defer ch.Free()
				r.ctxs = append(r.ctxs, ch.Context())
				oDone := false
				vsched.GoNamed("opener", func() {
					defer func() { oDone = true }()
					vsched.Join("connection marked closed", func() bool { return w.cli.closed.IsSet() })
					ch2, st := w.cli.Channel(ctx)
					if !st.OK() {
						return
					}
					defer ch2.Free()
					r.ctxs = append(r.ctxs, ch2.Context())
					_, st = ch2.Receive(ctx) // nobody will ever send: must end with the connection
					r.call("late-Receive", st)
				})
				r.call("Send", ch.Send(ctx, r.send([]byte("hello"))))
				_, st = ch.Receive(ctx)
				r.call("Receive", st)
				vsched.Join("opener returned", func() bool { return oDone })
			},
			handler: func(r *c09rec) Handler {
				return HandleFunc(func(ctx Context, ch Channel) status.Status {
					r.handlers++
					defer func() { r.exits++ }()
					r.ctxs = append(r.ctxs, ctx)
					vsched.Recv(ctx.Wait())
					return ctx.Status()
				})
			},
			bounds: func(thorough bool) vexp.Bounds {
				if thorough {
					return vexp.Bounds{P: 2, F: 0, E: 0}
				}
				return vexp.Bounds{P: 1, F: 0, E: 0}
			},
			every: 3},
	}
}

var c09lengths = map[string][2]int64{}

func c09body(sess c09session) func(x *vexp.Ctx) {
	return func(x *vexp.Ctx) {
		for k, v := range sess.params {
			if _, ok := x.Params[k]; !ok {
				x.Params[k] = v
			}
		}
		r := &c09rec{}
		w := newWide(x, sess.handler(r))
		w.a.Record()
		dir, k, mode := x.P("dir", -1), int64(x.P("k", 0)), x.P("mode", 0)
		end := w.a // dir 0: the client's writes
		if dir == 1 {
			end = w.b
		}
		switch {
		case dir < 0:
		case mode == 0:
			end.CutAfterWritten(k)
		default:
			end.HalfCloseAfterWritten(k)
		}
		cDone := false
		vsched.GoNamed("client", func() {
			defer func() {
				if e := recover(); e != nil {
					x.Fail("client call panics: "+errSig(fmt.Sprint(e)), "%v", e)
				}
				cDone = true
			}()
			sess.client(x, w, r)
		})
		if dir < 0 {
			vsched.WaitIdle("session quiescent") // some sessions end with the client blocked by design
		} else {
			vsched.Join("client returned", func() bool { return cDone })
		}
		if dir < 0 {
			// recording run: learn the byte counts, then close normally
			c09lengths[sess.name] = [2]int64{int64(len(w.a.Written())), int64(len(w.b.Written()))}
			w.shutdown()
			x.Outcome = fmt.Sprintf("recorded %v", c09lengths[sess.name])
			return
		}
		// after a fault both connections must come down by themselves and every handler must be released;
		// a stuck waiter shows up as a deadlock of this join
		vsched.Join("both connections closed and handlers released", func() bool {
			return w.srvDone && w.cliDone && r.exits == r.handlers
		})
		allOK := true
		for _, c := range r.calls {
			if c[len(c)-3:] != "=ok" {
				allOK = false
			}
		}
		// nothing that was delivered may differ from something that was sent (no partial frame as a message)
		for _, d := range r.delivered {
			found := false
			for _, s := range r.sentSet {
				if bytes.Equal(d, s) {
					found = true
				}
			}
			if !found {
				x.Fail("a message was delivered that nobody sent (partial or corrupted frame)", "delivered %q", clipB(d))
			}
		}
		for i, c := range r.ctxs {
			if !c.Done() {
				x.Fail("channel context not cancelled after the connection failed", "context #%d of %d is still live", i, len(r.ctxs))
			}
		}
		if !w.srv.closed.IsSet() || !w.cli.closed.IsSet() {
			x.Fail("connection not closed after a transport failure", "srv closed=%v cli closed=%v", w.srv.closed.IsSet(), w.cli.closed.IsSet())
		}
		for _, e := range w.log.Errors {
			if contains(e, "panic") {
				x.Fail("panic logged: "+errSig(e), "%s", e)
			}
		}
		// new operations on the failed connection must fail, not hang
		_, st := w.cli.Channel(async.NoContext())
		if st.OK() {
			x.Fail("Channel() succeeds on a failed connection", "status OK")
		}
		x.Outcome = fmt.Sprintf("calls-all-ok=%v ncalls=%d", allOK, len(r.calls))
	}
}

// F8: the peer process stops reading (its socket buffer fills up, the local send loop blocks INSIDE the socket
// write, the third application Send blocks on the exhausted window) and then half-closes or resets. Only the local
// (client) side is judged: the stalled peer never reads again.
var c09f8len int64

func c09f8body(x *vexp.Ctx) {
	for k, v := range map[string]int{"window": 250, "wbuf": 16, "rbuf": 16} {
		if _, ok := x.Params[k]; !ok {
			x.Params[k] = v
		}
	}
	r := &c09rec{}
	w := newWide(x, HandleFunc(func(ctx Context, ch Channel) status.Status {
		r.handlers++
		defer func() { r.exits++ }()
		vsched.Recv(ctx.Wait())
		return ctx.Status()
	}))
	w.a.Record()
	k, mode := int64(x.P("k", -1)), x.P("mode", 0)
	stalled := false
	if k >= 0 {
		w.b.StallAfterRead(k, func() {
			stalled = true
			switch mode {
			case 0:
				w.b.CloseWrite() // FIN at once
			case 1:
				// FIN later, once everything local is blocked (below)
			}
		})
	}
	cDone := false
	vsched.GoNamed("client", func() {
		defer func() {
			if e := recover(); e != nil {
				x.Fail("client call panics: "+errSig(fmt.Sprint(e)), "%v", e)
			}
			cDone = true
		}()
		ctx := async.NoContext()
		ch, st := w.cli.Channel(ctx)
		if !r.call("Channel", st).OK() {
			return
		}
		defer ch.Free()
		r.ctxs = append(r.ctxs, ch.Context())
		// the socket buffer becomes tiny only now: the handshake (shorter than any real socket buffer) is
		// never blocked by it
		w.a.SetWriteCapacity(32)
		for i := 0; i < 4; i++ {
			if !r.call("Send", ch.Send(ctx, r.send(vPayload(0, 0, i, 100)))).OK() {
				return
			}
		}
		_, st = ch.Receive(ctx) // the handler never answers: blocks until the channel or the connection ends
		r.call("Receive", st)
	})
	vsched.WaitIdle("session quiescent")
	if k < 0 {
		c09f8len = int64(len(w.a.Written()))
		w.shutdown()
		x.Outcome = fmt.Sprintf("recorded %d", c09f8len)
		return
	}
	if !stalled {
		x.Outcome = "fault point not reached"
		w.shutdown()
		return
	}
	switch mode {
	case 1:
		w.b.CloseWrite()
	case 2:
		w.b.Break()
	}
	// the local connection must come down by itself and release every local waiter
	vsched.Join("client connection closed and client calls returned", func() bool { return w.cliDone && cDone })
	last := r.calls[len(r.calls)-1]
	if last[len(last)-3:] == "=ok" {
		x.Fail("an operation cut short by a transport failure reports OK", "calls=%v", r.calls)
	}
	for i, c := range r.ctxs {
		if !c.Done() {
			x.Fail("channel context not cancelled after the connection failed", "context #%d of %d is still live", i, len(r.ctxs))
		}
	}
	if !w.cli.closed.IsSet() {
		x.Fail("connection not closed after a transport failure", "cli closed=%v", w.cli.closed.IsSet())
	}
	if _, st := w.cli.Channel(async.NoContext()); st.OK() {
		x.Fail("Channel() succeeds on a failed connection", "status OK")
	}
	for _, e := range w.log.Errors {
		if contains(e, "panic") {
			x.Fail("panic logged: "+errSig(e), "%s", e)
		}
	}
	x.Outcome = fmt.Sprintf("ncalls=%d last=%s", len(r.calls), last)
	// teardown of the stalled peer
	w.b.Unstall()
	w.b.Break()
	vsched.Join("peer side torn down", func() bool { return w.srvDone && r.exits == r.handlers })
}

// F9: SEVERAL senders (one channel each) blocked on the full connection write queue when the transport fails.
func c09f9body(x *vexp.Ctx) {
	for k, v := range map[string]int{"writeq": 64, "wbuf": 16, "rbuf": 16} {
		if _, ok := x.Params[k]; !ok {
			x.Params[k] = v
		}
	}
	nsend := x.P("senders", 3)
	r := &c09rec{}
	w := newWide(x, HandleFunc(func(ctx Context, ch Channel) status.Status {
		r.handlers++
		defer func() { r.exits++ }()
		vsched.Recv(ctx.Wait())
		return ctx.Status()
	}))
	// handshake first (unbounded socket buffer), then the peer stops reading and the socket buffer is tiny
	ctx := async.NoContext()
	chs := make([]Channel, nsend)
	for i := range chs {
		ch, st := w.cli.Channel(ctx)
		if !st.OK() {
			x.Fail("Channel fails on a healthy connection", "%v", st)
			return
		}
		chs[i] = ch
		if st := ch.Send(ctx, []byte{byte('a' + i)}); !st.OK() { // opens the channel
			x.Fail("Send fails on a healthy connection", "%v", st)
			return
		}
		r.ctxs = append(r.ctxs, ch.Context())
	}
	vsched.WaitIdle("channels open")
	w.b.StallAfterRead(0, nil)
	w.a.SetWriteCapacity(32)
	done := make([]bool, nsend)
	sts := make([]status.Status, nsend)
	for i := range chs {
		i := i
		vsched.GoNamed(fmt.Sprintf("sender%d", i), func() {
			// messages larger than the write queue: the first is taken by the send loop (stuck in the socket
			// write), the second sits in the queue, every further one waits for queue space
			for k := 0; k < 3; k++ {
				if st := chs[i].Send(ctx, vPayload(0, i, k, 2000)); !st.OK() {
					sts[i] = st
					break
				}
			}
			done[i] = true
		})
	}
	fault := func() {
		switch x.P("mode", 0) {
		case 0:
			w.b.CloseWrite()
		case 1:
			w.b.Break()
		case 2:
			w.cli.Close()
		}
	}
	blocked := 0
	if x.P("conc", 0) == 1 {
		// the failure arrives WHILE the senders are running into the full queue: a sender may already hold the
		// queue's wait channel without being parked on it yet
		vsched.GoNamed("fault", fault)
	} else {
		vsched.WaitIdle("senders blocked")
		for i := range done {
			if !done[i] {
				blocked++
			}
		}
		fault()
	}
	vsched.Join("client connection closed and every blocked Send returned", func() bool {
		for _, d := range done {
			if !d {
				return false
			}
		}
		return w.cliDone
	})
	for i, st := range sts {
		if blocked > 0 && st.OK() && !done[i] {
			x.Fail("blocked Send reports OK after the connection failed", "sender %d", i)
		}
	}
	for i, c := range r.ctxs {
		if !c.Done() {
			x.Fail("channel context not cancelled after the connection failed", "context #%d of %d is still live", i, len(r.ctxs))
		}
	}
	for _, ch := range chs {
		ch.Free()
	}
	x.Outcome = fmt.Sprintf("senders=%d blocked-at-fault=%d", nsend, blocked)
	w.b.Unstall()
	w.b.Break()
	vsched.Join("peer side torn down", func() bool { return w.srvDone && r.exits == r.handlers })
}

func init() {
	vexp.Register(&vexp.Scenario{
		Name: "c09.F9.senders-blocked-on-write-queue", Prop: "C09", MaxSteps: 200000,
		Doc: "1..3 senders (one channel each) blocked on the full connection write queue (64 bytes, 2000-byte messages, peer not reading, send loop stuck inside the socket write); then (conc=0) or concurrently with the senders running into the full queue (conc=1) the peer half-closes / the transport is cut / the connection is closed locally: EVERY blocked Send must return, the connection must close and cancel all channel contexts",
		Bounds: func(thorough bool) vexp.Bounds {
			if thorough {
				return vexp.Bounds{P: 2, F: 1, E: 0}
			}
			return vexp.Bounds{P: 2, F: 0, E: 0} // two preemptions: two senders between "got the wait channel" and "parked"
		},
		Configs: func(thorough bool) []map[string]int {
			var out []map[string]int
			for n := 1; n <= 3; n++ {
				for mode := 0; mode < 3; mode++ {
					out = append(out, map[string]int{"senders": n, "mode": mode})
					if n == 2 || (thorough && n == 3) {
						out = append(out, map[string]int{"senders": n, "mode": mode, "conc": 1})
					}
				}
			}
			return out
		},
		Body: c09f9body,
	})
	vexp.Register(&vexp.Scenario{
		Name: "c09.F8.peer-stops-reading", Prop: "C09", MaxSteps: 200000,
		Doc: "socket buffer of 32 bytes, window 250, 100-byte messages: the peer stops reading after EVERY byte offset k of the client's stream, so the local send loop blocks inside the socket write while a Send waits for the window; then the peer half-closes at once / half-closes after everything local is blocked / resets: the local connection must close, cancel its channel contexts and release every blocked Send/Receive with a non-OK status",
		Bounds: func(thorough bool) vexp.Bounds {
			if thorough {
				return vexp.Bounds{P: 1, F: 0, E: 0}
			}
			return vexp.Bounds{P: 0, F: 1, E: 0}
		},
		Configs: func(thorough bool) []map[string]int {
			vexp.RunOnce(vexp.Get("c09.F8.peer-stops-reading"), map[string]int{"k": -1}, nil, false)
			var out []map[string]int
			for k := int64(0); k <= c09f8len; k++ {
				for mode := 0; mode < 3; mode++ {
					out = append(out, map[string]int{"k": int(k), "mode": mode})
				}
			}
			return out
		},
		Body: c09f8body,
	})
	for _, sess := range c09sessions() {
		sess := sess
		vexp.Register(&vexp.Scenario{
			Name: "c09." + sess.name, Prop: "C09", MaxSteps: 200000,
			Doc: sess.doc + "; fault at EVERY byte offset of each direction x {cut, half-close} (sessions with a stride say so)",
			Bounds: func(thorough bool) vexp.Bounds {
				if sess.bounds != nil {
					return sess.bounds(thorough)
				}
				if thorough {
					return vexp.Bounds{P: 1, F: 0, E: 0}
				}
				return vexp.Bounds{P: 0, F: 1, E: 0}
			},
			Configs: func(thorough bool) []map[string]int {
				// recording run (inside the worker): default schedule, no fault
				sc := vexp.Get("c09." + sess.name)
				vexp.RunOnce(sc, map[string]int{"dir": -1}, nil, false)
				L := c09lengths[sess.name]
				var out []map[string]int
				for dir := 0; dir < 2; dir++ {
					for k := int64(0); k < L[dir]; k++ {
						if sess.every > 1 && !thorough && k%int64(sess.every) != 0 {
							continue
						}
						for mode := 0; mode < 2; mode++ {
							out = append(out, map[string]int{"dir": dir, "k": int(k), "mode": mode})
						}
					}
				}
				return out
			},
			Body: c09body(sess),
		})
	}
}
