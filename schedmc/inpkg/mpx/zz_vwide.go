package mpx

import (
	"fmt"
	"github.com/basecomplextech/baselibrary/units"

	"github.com/basecomplextech/baselibrary/status"
	"github.com/basecomplextech/spec/zzverif/vexp"
	"github.com/basecomplextech/spec/zzverif/vnet"
	"github.com/basecomplextech/spec/zzverif/vsched"
)

// vWide: a real client conn and a real server conn over the fake transport, both running their real run() loops.
type vWide struct {
	srv, cli         *conn
	a, b             *vnet.Conn // a: client end, b: server end
	log              *vLogger
	srvDone, cliDone bool
	srvSt, cliSt     status.Status
}

func newWide(x *vexp.Ctx, handler Handler) *vWide {
	vFreshGlobals()
	a, b := vnet.Pair("cli", "srv")
	dec := x.P("netdecisions", 0) == 1
	a.Decisions, b.Decisions = dec, dec
	if mr := x.P("maxread", 0); mr > 0 {
		a.MaxRead, b.MaxRead = mr, mr
	}
	log := newVLogger()
	opts := vOpts(x)
	w := &vWide{a: a, b: b, log: log}
	sopts := opts
	if sw := x.P("srvwindow", 0); sw > 0 {
		sopts.ChannelWindowSize = units.Bytes(sw) // the two ends are configured with different window options
	}
	w.srv = newConn(b, false, noopConnDelegate{}, handler, log, sopts)
	w.cli = newConn(a, true, noopConnDelegate{}, HandleFunc(func(ctx Context, ch Channel) status.Status {
		return status.ExternalError("client connection does not support incoming channels")
	}), log, opts)
	vsched.GoNamed("srv.run", func() {
		defer func() {
			if e := recover(); e != nil {
				w.log.Errors = append(w.log.Errors, fmt.Sprintf("Connection panic: %v", e))
			}
			w.srvDone = true
		}()
		w.srvSt = w.srv.run()
	})
	vsched.GoNamed("cli.run", func() {
		defer func() {
			if e := recover(); e != nil {
				w.log.Errors = append(w.log.Errors, fmt.Sprintf("Connection panic: %v", e))
			}
			w.cliDone = true
		}()
		w.cliSt = w.cli.run()
	})
	return w
}

// shutdown closes the client connection and waits for both run loops to end.
func (w *vWide) shutdown() {
	w.cli.Close()
	vsched.Join("conn loops exit", func() bool { return w.srvDone && w.cliDone })
}

// vPayload builds a self-describing payload of exactly size bytes (size >= 1): byte 0 encodes channel and
// sequence number, the rest is a pattern derived from (conn, channel, seq, position), so any mix-up between
// connections, channels or positions is evident from the bytes.
func vPayload(conn, ch, seq, size int) []byte {
	p := make([]byte, size)
	p[0] = byte(0x40 + ch*16 + seq)
	for i := 1; i < size; i++ {
		p[i] = byte('a' + (i*7+seq*3+ch*5+conn)%26)
	}
	return p
}

// vPayloadChan decodes the channel index from a payload.
func vPayloadChan(p []byte) int { return int(p[0]-0x40) / 16 }
