package mpx

import (
	"fmt"
	"time"

	"github.com/basecomplextech/baselibrary/async"
	"github.com/basecomplextech/baselibrary/status"
	"github.com/basecomplextech/spec/zzverif/vexp"
	"github.com/basecomplextech/spec/zzverif/vnet"
	"github.com/basecomplextech/spec/zzverif/vsched"
)

// C19 — client connection state is consistent, bounded and recovers.

// vConnector replaces the TCP dialer of a real mpx client: every dial outcome is scheduler-controlled.
type vConnector struct {
	x        *vexp.Ctx
	cl       *client
	handler  Handler
	log      *vLogger
	opts     Options
	script   []int // dial outcomes in order: 1 ok, 0 fail; beyond the script: env choice or ok
	choose   bool  // outcomes beyond the script are environment choices
	dials    int
	dialAt   []int64 // virtual time of every dial
	outcomes []int
	conns    []*conn // client-side conns handed out
	srvs     []*conn
	maxLive  int
	fault    *vFault
	record   bool
}

func (c *vConnector) live() int {
	n := 0
	for _, k := range c.conns {
		if !k.closed.IsSet() {
			n++
		}
	}
	return n
}

func (c *vConnector) connect(ctx async.Context, addr string) (internalConn, status.Status) {
	c.dialAt = append(c.dialAt, vsched.NowNanos())
	i := c.dials
	c.dials++
	ok := 1
	switch {
	case i < len(c.script):
		ok = c.script[i]
	case c.choose:
		ok = 1 - vsched.Choose(2, "dial outcome") // default: success
	}
	c.outcomes = append(c.outcomes, ok)
	if ok == 0 {
		return nil, mpxErrorf("dial failed (scripted)")
	}
	a, b := vnet.Pair(fmt.Sprintf("cli%d", i), fmt.Sprintf("srv%d", i))
	a.Decisions, b.Decisions = false, false
	if ok == 2 {
		a.Break() // the server accepted and reset at once: the dial succeeds, the connection is dead
	}
	if c.record {
		a.Record()
	}
	if f := c.fault; f != nil {
		c.fault = nil
		end := a
		if f.dir == 1 {
			end = b
		}
		if f.mode == 0 {
			end.CutAfterWritten(f.k)
		} else {
			end.HalfCloseAfterWritten(f.k)
		}
	}
	srv := newConn(b, false, noopConnDelegate{}, c.handler, c.log, c.opts)
	c.srvs = append(c.srvs, srv)
	vsched.GoNamed(fmt.Sprintf("srv%d.run", i), func() { srv.run() })
	handler := HandleFunc(func(_ Context, ch Channel) status.Status {
		return status.ExternalError("client connection does not support incoming channels")
	})
	conn := newConn(a, true, c.cl, handler, c.log, c.opts)
	c.conns = append(c.conns, conn)
	if n := c.live(); n > c.maxLive {
		c.maxLive = n
	}
	return conn, status.OK
}

func newVClient(x *vexp.Ctx, mode ClientMode, script []int, choose bool) (*client, *vConnector) {
	vFreshGlobals()
	log := newVLogger()
	opts := vOpts(x)
	opts.ClientMaxConns = x.P("maxconns", 2)
	opts.ClientConnChannels = x.P("target", 1)
	opts.ClientDialTimeout = 2 * time.Second
	// build the client by hand (newClientDialer would dial at once in auto-connect mode with the real dialer)
	c := &client{
		addr: "vnet", mode: mode, logger: log, options: opts,
		closed_: async.UnsetFlag(), connected_: async.UnsetFlag(), disconnected_: async.SetFlag(),
	}
	vc := &vConnector{x: x, cl: c, log: log, opts: opts, script: script, choose: choose,
		handler: HandleFunc(func(ctx Context, ch Channel) status.Status {
			rctx := async.NoContext()
			for {
				m, st := ch.Receive(rctx)
				if !st.OK() {
					return status.OK
				}
				if st := ch.Send(rctx, m); !st.OK() {
					return status.OK
				}
			}
		})}
	c.connector = vc
	c.conns.Store(newClientConns())
	if mode == ClientMode_AutoConnect {
		c.connect()
	}
	return c, vc
}

// c19quiescent checks the invariants that must hold whenever the client is quiescent.
func c19quiescent(x *vexp.Ctx, c *client, vc *vConnector, when string) {
	con, dis := c.connected_.IsSet(), c.disconnected_.IsSet()
	if con == dis {
		x.Fail(fmt.Sprintf("flags inconsistent at quiescence: connected=%v disconnected=%v", con, dis), "%s: exactly one of Connected/Disconnected must be set", when)
	}
	max := c.options.ClientMaxConns
	if vc.maxLive > max {
		x.Fail("more simultaneous connections than the configured maximum", "%s: %d live connections, max %d", when, vc.maxLive, max)
	}
	if c.closed_.IsSet() {
		if n := vc.live(); n != 0 {
			x.Fail("connection left open after Close", "%s: %d connection(s) still open after the client was closed", when, n)
		}
		if con {
			x.Fail("closed client reports Connected", "%s", when)
		}
	}
	if con && !c.closed_.IsSet() {
		before := vc.dials
		conn, st := c.Conn(async.NoContext())
		if !st.OK() || conn == nil || conn.Closed().IsSet() {
			x.Fail("Connected is set but Conn() does not return a usable connection", "%s: status=%v", when, st)
		} else if vc.dials != before {
			x.Fail("Connected is set but Conn() had to dial", "%s", when)
		}
	}
}

func c19echo(ch Channel) bool {
	ctx := async.NoContext()
	if st := ch.Send(ctx, []byte("ping")); !st.OK() {
		return false
	}
	m, st := ch.Receive(ctx)
	return st.OK() && string(m) == "ping"
}

func init() {
	// S1: concurrent Conn/Channel callers and Close on an on-demand client.
	vexp.Register(&vexp.Scenario{
		Name: "c19.S1.ondemand-callers-vs-close", Prop: "C19", MaxSteps: 100000,
		Bounds: func(thorough bool) vexp.Bounds {
			if thorough {
				return vexp.Bounds{P: 3, F: 2, E: 2}
			}
			return vexp.Bounds{P: 2, F: 2, E: 2}
		},
		Configs: func(thorough bool) []map[string]int {
			if thorough {
				return []map[string]int{{"maxconns": 1, "target": 1}, {"maxconns": 2, "target": 1}, {"maxconns": 3, "target": 1}, {"maxconns": 2, "target": 2}}
			}
			return []map[string]int{{"maxconns": 1, "target": 1}, {"maxconns": 2, "target": 1}}
		},
		Doc: "on-demand client with a scheduler-controlled connector (dial outcomes are environment choices): two callers open channels and echo || Close; afterwards: flags, max connections, Close terminal and idempotent, nothing left open",
		Body: func(x *vexp.Ctx) {
			c, vc := newVClient(x, ClientMode_OnDemand, nil, true)
			done := 0
			results := []string{}
			clock, closedAt := 0, -1 // logical clock: the threads are cooperative, so assignment order is real order
			okAfterClose := ""
			for i := 0; i < 2; i++ {
				i := i
				vsched.GoNamed(fmt.Sprintf("caller%d", i), func() {
					defer func() { done++ }()
					clock++
					startedAt := clock
					ch, st := c.Channel(async.NoContext())
					clock++
					if st.OK() && closedAt >= 0 && clock > closedAt && startedAt < closedAt {
						okAfterClose = fmt.Sprintf("caller%d: Channel() called at t=%d returned OK at t=%d, Close had returned at t=%d", i, startedAt, clock, closedAt)
					}
					if !st.OK() {
						results = append(results, fmt.Sprintf("caller%d:%s", i, st.Code))
						return
					}
					ok := c19echo(ch)
					ch.Free()
					results = append(results, fmt.Sprintf("caller%d:echo=%v", i, ok))
				})
			}
			closed := false
			vsched.GoNamed("closer", func() {
				c.Close()
				clock++
				closedAt = clock
				c.Close() // idempotent
				closed = true
			})
			vsched.Join("callers and closer done", func() bool { return done == 2 && closed })
			vsched.WaitIdle("quiesce")
			// pending calls: completed, failed with the scripted dial error, or a CLOSED status (never 'cancelled':
			// the caller's own context was not cancelled, the client was closed)
			if okAfterClose != "" {
				x.Fail("a call pending at Close returns OK after Close has returned", "%s", okAfterClose)
			}
			for _, r := range results {
				if contains(r, ":cancelled") {
					x.Fail("a call pending at Close returns 'cancelled' instead of a closed status", "%v", results)
				}
			}
			c19quiescent(x, c, vc, "after Close")
			// terminal: every later call returns a closed status
			if _, st := c.Conn(async.NoContext()); st.Code != status.CodeClosed {
				x.Fail("Conn() after Close does not return a closed status", "%v", st)
			}
			if _, st := c.Channel(async.NoContext()); st.Code != status.CodeClosed {
				x.Fail("Channel() after Close does not return a closed status", "%v", st)
			}
			vsched.WaitIdle("quiesce")
			if n := vc.live(); n != 0 {
				x.Fail("connection left open after Close", "%d connection(s) open at the end (late dial result not discarded?)", n)
			}
			for _, e := range vc.log.Errors {
				if contains(e, "panic") {
					x.Fail("panic logged: "+errSig(e), "%s", e)
				}
			}
			x.Outcome = fmt.Sprintf("dials=%d maxLive=%d", vc.dials, vc.maxLive)
		},
	})

	// S2: connection loss and recovery, on-demand: the next call redials.
	vexp.Register(&vexp.Scenario{
		Name: "c19.S2.ondemand-recovers", Prop: "C19", Also: []string{"C09"}, MaxSteps: 100000,
		Bounds: func(thorough bool) vexp.Bounds {
			if thorough {
				return vexp.Bounds{P: 2, F: 1, E: 1}
			}
			return vexp.Bounds{P: 1, F: 1, E: 1}
		},
		Configs: func(thorough bool) []map[string]int {
			return []map[string]int{{"maxconns": 1, "target": 1, "how": 0}, {"maxconns": 2, "target": 1, "how": 0}, {"maxconns": 1, "target": 1, "how": 1}, {"maxconns": 2, "target": 2, "how": 1}}
		},
		Doc: "on-demand client: echo, then the server drops the connection (how=0: server closes; how=1: transport cut) while a second caller is about to call; every call after the loss either fails or runs on a fresh connection; once quiescent a new call succeeds (dial script: ok, fail, ok...)",
		Body: func(x *vexp.Ctx) {
			c, vc := newVClient(x, ClientMode_OnDemand, []int{1, 0, 1, 1, 1}, false)
			ch, st := c.Channel(async.NoContext())
			if !st.OK() || !c19echo(ch) {
				x.Fail("first call fails on a reachable server", "%v", st)
				return
			}
			ch.Free()
			vsched.WaitIdle("quiesce")
			c19quiescent(x, c, vc, "connected")
			// the server goes away
			dropDone, callDone := false, false
			vsched.GoNamed("server-drop", func() {
				if x.P("how", 0) == 0 {
					vc.srvs[0].Close()
				} else {
					vc.srvs[0].conn.(*vnet.Conn).Break()
					vc.srvs[0].Close()
				}
				dropDone = true
			})
			res := ""
			vsched.GoNamed("caller", func() {
				defer func() { callDone = true }()
				ch, st := c.Channel(async.NoContext())
				if !st.OK() {
					res = "fail:" + string(st.Code)
					return
				}
				ok := c19echo(ch)
				ch.Free()
				res = fmt.Sprintf("echo=%v", ok)
			})
			vsched.Join("drop and call done", func() bool { return dropDone && callDone })
			vsched.WaitIdle("quiesce")
			c19quiescent(x, c, vc, "after the server dropped the connection")
			// recovery: the server is reachable again (script: next dials succeed after one failure)
			okAfter := false
			for i := 0; i < 3 && !okAfter; i++ {
				ch, st := c.Channel(async.NoContext())
				if st.OK() {
					okAfter = c19echo(ch)
					ch.Free()
				}
				vsched.WaitIdle("quiesce")
			}
			if !okAfter {
				x.Fail("on-demand client does not recover after the server came back", "3 further calls failed; dial outcomes %v", vc.outcomes)
			}
			c19quiescent(x, c, vc, "after recovery")
			c.Close()
			vsched.WaitIdle("quiesce")
			c19quiescent(x, c, vc, "after Close")
			x.Outcome = fmt.Sprintf("racing-call=%s dials=%d", res, vc.dials)
		},
	})

	// S3: auto-connect client: reconnects by itself with a bounded, non-decreasing back-off.
	vexp.Register(&vexp.Scenario{
		Name: "c19.S3.autoconnect-backoff", Prop: "C19", Also: []string{"C09"}, MaxSteps: 200000,
		Bounds: func(thorough bool) vexp.Bounds {
			if thorough {
				return vexp.Bounds{P: 2, F: 1, E: 1}
			}
			return vexp.Bounds{P: 1, F: 1, E: 1}
		},
		Configs: func(thorough bool) []map[string]int {
			return []map[string]int{{"fails": 0}, {"fails": 1}, {"fails": 4}, {"fails": 8}}
		},
		Doc: "auto-connect client, virtual time: the first 'fails' dials fail, then the server is reachable; the client must connect by itself; then the server drops the connection and the client must reconnect by itself; back-off between failed dials within [25ms,1s] and non-decreasing within a run of failures",
		Body: func(x *vexp.Ctx) {
			fails := x.P("fails", 1)
			script := []int{}
			for i := 0; i < fails; i++ {
				script = append(script, 0)
			}
			script = append(script, 1)
			for i := 0; i < fails; i++ {
				script = append(script, 0)
			}
			script = append(script, 1, 1, 1)
			c, vc := newVClient(x, ClientMode_AutoConnect, script, false)
			vsched.Join("connected by itself", func() bool { return c.connected_.IsSet() })
			vsched.WaitIdle("quiesce")
			c19quiescent(x, c, vc, "auto-connected")
			first := vc.dials
			// server drops the connection: the client must come back without any call
			vc.srvs[len(vc.srvs)-1].Close()
			vsched.Join("reconnected by itself", func() bool { return c.connected_.IsSet() && vc.dials > first && vc.live() > 0 })
			vsched.WaitIdle("quiesce")
			c19quiescent(x, c, vc, "auto-reconnected")
			// back-off between consecutive failed dials (virtual time)
			var prev time.Duration
			for i := 1; i < len(vc.dialAt); i++ {
				if vc.outcomes[i-1] != 0 {
					prev = 0 // a success ends the run of failures
					continue
				}
				d := time.Duration(vc.dialAt[i] - vc.dialAt[i-1])
				if d < 25*time.Millisecond || d > time.Second {
					x.Fail("reconnect back-off outside [25ms, 1s]", "gap before dial %d is %v", i, d)
				}
				if d < prev {
					x.Fail("reconnect back-off decreases within a run of failures", "gap before dial %d is %v after %v", i, d, prev)
				}
				prev = d
			}
			c.Close()
			vsched.WaitIdle("quiesce")
			c19quiescent(x, c, vc, "after Close")
			x.Outcome = fmt.Sprintf("dials=%d", vc.dials)
		},
	})

	// S4: auto-connect, the dial succeeds but the connection dies at once (the peer accepts and resets).
	vexp.Register(&vexp.Scenario{
		Name: "c19.S4.autoconnect-connection-dies-at-once", Prop: "C19", Also: []string{"C09"}, MaxSteps: 200000,
		Bounds: func(thorough bool) vexp.Bounds {
			if thorough {
				return vexp.Bounds{P: 2, F: 1, E: 0}
			}
			return vexp.Bounds{P: 1, F: 1, E: 0}
		},
		Configs: func(thorough bool) []map[string]int {
			return []map[string]int{{"dead": 1}, {"dead": 2}, {"dead": 1, "later": 1}}
		},
		Doc: "auto-connect client, virtual time: the first 1..2 dials succeed at TCP level but the connection is dead at once (accepted and reset), the next dial reaches a healthy server (later=1: a healthy connection first, then it is dropped and the re-dial hits dead connections): the client must end up connected to a live connection BY ITSELF, whatever the interleaving of the dying connection's close callback with the connect routine that is still registering it",
		Body: func(x *vexp.Ctx) {
			dead := x.P("dead", 1)
			var script []int
			if x.P("later", 0) == 1 {
				script = append(script, 1)
			}
			for i := 0; i < dead; i++ {
				script = append(script, 2)
			}
			script = append(script, 1, 1, 1)
			c, vc := newVClient(x, ClientMode_AutoConnect, script, false)
			if x.P("later", 0) == 1 {
				vsched.Join("connected by itself", func() bool { return c.connected_.IsSet() })
				vsched.WaitIdle("quiesce")
				vc.srvs[len(vc.srvs)-1].Close()
			}
			vsched.Join("connected to a live connection by itself", func() bool {
				return c.connected_.IsSet() && vc.live() > 0 && vc.dials >= len(script)-2
			})
			vsched.WaitIdle("quiesce")
			c19quiescent(x, c, vc, "after dead connections")
			if vc.live() == 0 {
				x.Fail("auto-connect client gave up: no live connection at quiescence", "dials=%d outcomes=%v", vc.dials, vc.outcomes)
			}
			c.Close()
			vsched.WaitIdle("quiesce")
			c19quiescent(x, c, vc, "after Close")
			x.Outcome = fmt.Sprintf("dials=%d", vc.dials)
		},
	})

	// S5: the channels-target-reached callback racing with Close.
	vexp.Register(&vexp.Scenario{
		Name: "c19.S5.channels-reached-vs-close", Prop: "C19", MaxSteps: 100000,
		Bounds: func(thorough bool) vexp.Bounds {
			if thorough {
				return vexp.Bounds{P: 2, F: 1, E: 0}
			}
			return vexp.Bounds{P: 1, F: 1, E: 0}
		},
		Configs: func(thorough bool) []map[string]int {
			return []map[string]int{{"maxconns": 1, "target": 1}, {"maxconns": 2, "target": 1}, {"maxconns": 1, "target": 1, "order": 1}, {"maxconns": 2, "target": 1, "order": 1}}
		},
		Doc: "connected on-demand client; the connection reports 'channel target reached' (the callback that opens further connections up to the maximum) || Close, and the callback arriving right after Close returned: never more simultaneous connections than the maximum, nothing left open, flags consistent",
		Body: func(x *vexp.Ctx) {
			c, vc := newVClient(x, ClientMode_OnDemand, nil, false)
			ch, st := c.Channel(async.NoContext())
			if !st.OK() || !c19echo(ch) {
				x.Fail("first call fails on a reachable server", "%v", st)
				return
			}
			vsched.WaitIdle("quiesce")
			conn0 := vc.conns[0]
			aDone, bDone := false, false
			if x.P("order", 0) == 1 {
				// Close returns, then the callback of the still-running old connection arrives
				c.Close()
				c.onConnChannelsReached(conn0)
				aDone, bDone = true, true
			} else {
				vsched.GoNamed("callback", func() { c.onConnChannelsReached(conn0); aDone = true })
				vsched.GoNamed("closer", func() { c.Close(); bDone = true })
			}
			vsched.Join("callback and Close returned", func() bool { return aDone && bDone })
			vsched.WaitIdle("quiesce")
			ch.Free()
			vsched.WaitIdle("quiesce")
			c19quiescent(x, c, vc, "after Close")
			x.Outcome = fmt.Sprintf("dials=%d maxLive=%d", vc.dials, vc.maxLive)
		},
	})

	// S6: two connections (the channel target made the client open a second one), then the server drops both.
	vexp.Register(&vexp.Scenario{
		Name: "c19.S6.two-connections-both-lost", Prop: "C19", Also: []string{"C09"}, MaxSteps: 200000,
		Bounds: func(thorough bool) vexp.Bounds {
			if thorough {
				return vexp.Bounds{P: 2, F: 1, E: 1}
			}
			return vexp.Bounds{P: 1, F: 0, E: 0}
		},
		Configs: func(thorough bool) []map[string]int {
			return []map[string]int{{"maxconns": 2, "target": 1, "auto": 1, "order": 0}, {"maxconns": 2, "target": 1, "auto": 1, "order": 1}, {"maxconns": 2, "target": 1, "auto": 1, "order": 2},
				{"maxconns": 2, "target": 1, "auto": 0, "order": 0}, {"maxconns": 2, "target": 1, "auto": 0, "order": 1}, {"maxconns": 3, "target": 1, "auto": 1, "order": 2},
				{"maxconns": 2, "target": 1, "auto": 0, "order": 3}, {"maxconns": 2, "target": 1, "auto": 1, "order": 3}}
		},
		Doc: "client with ClientMaxConns >= 2 and a channel target of 1: one open channel makes the client dial a second connection. Then the server drops both connections (order 0: older first, 1: newer first, 2: concurrently). At quiescence the flags must be consistent with the connection list (Connected implies that Conn returns a usable connection without dialling); an auto-connect client must come back BY ITSELF (no call is made), an on-demand client on its next call",
		Body: func(x *vexp.Ctx) {
			mode := ClientMode_OnDemand
			if x.P("auto", 0) == 1 {
				mode = ClientMode_AutoConnect
			}
			c, vc := newVClient(x, mode, nil, false)
			ch, st := c.Channel(async.NoContext())
			if !st.OK() || !c19echo(ch) {
				x.Fail("first call fails on a reachable server", "%v", st)
				return
			}
			vsched.Join("second connection opened by the channel target", func() bool { return vc.live() >= 2 })
			vsched.WaitIdle("quiesce")
			c19quiescent(x, c, vc, "two connections")
			before := vc.dials
			s0, s1 := vc.srvs[0], vc.srvs[1]
			switch x.P("order", 0) {
			case 0:
				s0.Close()
				vsched.WaitIdle("first connection lost")
				c19quiescent(x, c, vc, "one of two connections lost")
				s1.Close()
			case 1:
				s1.Close()
				vsched.WaitIdle("second connection lost")
				c19quiescent(x, c, vc, "one of two connections lost")
				s0.Close()
			case 3:
				// only the newer connection is dropped while a caller asks for a connection: the older one stays open
				// and listed the whole time, so the call must get a usable connection without any dial
				d1, cd := false, false
				vsched.GoNamed("drop1", func() { s1.Close(); d1 = true })
				vsched.GoNamed("caller", func() {
					defer func() { cd = true }()
					for k := 0; k < 2; k++ {
						conn, st := c.Conn(async.NoContext())
						if !st.OK() || conn == nil {
							x.Fail("Conn fails although a healthy connection is listed", "%v", st)
							return
						}
					}
				})
				vsched.Join("newer connection dropped, caller done", func() bool { return d1 && cd })
				vsched.WaitIdle("quiesce")
				if vc.dials != before {
					x.Fail("Conn dials although an open connection was listed the whole time", "dials %d -> %d while connection 0 stayed open", before, vc.dials)
				}
				c19quiescent(x, c, vc, "newer connection lost under a caller")
				s0.Close()
			default:
				d0, d1 := false, false
				vsched.GoNamed("drop0", func() { s0.Close(); d0 = true })
				vsched.GoNamed("drop1", func() { s1.Close(); d1 = true })
				vsched.Join("both dropped", func() bool { return d0 && d1 })
			}
			ch.Free()
			if mode == ClientMode_AutoConnect {
				vsched.Join("reconnected by itself after both connections were lost", func() bool {
					return c.connected_.IsSet() && vc.dials > before && vc.live() > 0
				})
			}
			vsched.WaitIdle("quiesce")
			c19quiescent(x, c, vc, "both connections lost")
			if mode != ClientMode_AutoConnect {
				ch2, st := c.Channel(async.NoContext())
				if !st.OK() || !c19echo(ch2) {
					x.Fail("on-demand client does not recover on its next call", "%v", st)
				} else {
					ch2.Free()
				}
				vsched.WaitIdle("quiesce")
				c19quiescent(x, c, vc, "recovered on demand")
			}
			c.Close()
			vsched.WaitIdle("quiesce")
			c19quiescent(x, c, vc, "after Close")
			x.Outcome = fmt.Sprintf("dials=%d maxLive=%d", vc.dials, vc.maxLive)
		},
	})

	// function level: the back-off for every attempt number
	vexp.Register(&vexp.Scenario{
		Name: "c19.F.reconnect-timeout-all-attempts", Prop: "C19",
		Bounds: func(bool) vexp.Bounds { return vexp.Bounds{} },
		Doc:    "reconnectTimeout(a) for EVERY a in 2..70000 and the shift-overflow region 2^16+-2, 62..66, 2^31, 2^62..: within [25ms,1s] and non-decreasing",
		Body: func(x *vexp.Ctx) {
			prev := time.Duration(0)
			check := func(a int, mono bool) {
				d := reconnectTimeout(a)
				if d < 25*time.Millisecond || d > time.Second {
					x.Fail("reconnectTimeout outside [25ms, 1s]", "attempt %d -> %v", a, d)
				}
				if mono && d < prev {
					x.Fail("reconnectTimeout decreases", "attempt %d -> %v after %v", a, d, prev)
				}
				prev = d
			}
			for a := 2; a <= 70000; a++ {
				check(a, true)
			}
			for _, a := range []int{1 << 20, 1<<31 - 1, 1 << 31, 1<<62 + 1, 1<<63 - 1} {
				check(a, true)
			}
			x.Outcome = "70004 attempts"
		},
	})
}

// ---- exported entry points for the rpc harness (package rpc cannot reach mpx internals) ----

// VClient is a real mpx client over the scheduler-controlled connector.
type VClient struct {
	Client Client
	vc     *vConnector
	c      *client
}

// VNewClient builds an on-demand (auto=false) or auto-connect client whose server side runs handler.
func VNewClient(x *vexp.Ctx, handler Handler, auto bool, script []int) *VClient {
	mode := ClientMode_OnDemand
	if auto {
		mode = ClientMode_AutoConnect
	}
	c, vc := newVClient(x, mode, script, false)
	vc.handler = handler
	return &VClient{Client: c, vc: vc, c: c}
}

func (v *VClient) Dials() int       { return v.vc.dials }
func (v *VClient) Live() int        { return v.vc.live() }
func (v *VClient) Errors() []string { return v.vc.log.Errors }
func (v *VClient) Logger() *vLogger { return v.vc.log }
func (v *VClient) ServerConns() int { return len(v.vc.srvs) }

// RecordServer makes the i-th server connection record what it writes.
func (v *VClient) ServerWritten(i int) []byte { return v.vc.srvs[i].conn.(*vnet.Conn).Written() }

// FaultAfter arranges a transport fault on the NEXT connection: after k bytes written by the client (dir 0) or
// the server (dir 1) the connection is cut (mode 0) or half-closed (mode 1).
func (v *VClient) FaultAfter(dir int, k int64, mode int) { v.vc.fault = &vFault{dir, k, mode} }

// RecordNext makes the next connection record both directions.
func (v *VClient) RecordNext() { v.vc.record = true }

// Written returns the bytes written so far on connection i by the client (dir 0) or server (dir 1).
func (v *VClient) Written(i, dir int) []byte {
	if dir == 0 {
		return v.vc.conns[i].conn.(*vnet.Conn).Written()
	}
	return v.vc.srvs[i].conn.(*vnet.Conn).Written()
}

type vFault struct {
	dir  int
	k    int64
	mode int
}
