package mpx

import (
	"bytes"
	"fmt"

	"github.com/basecomplextech/spec/proto/pmpx"

	"github.com/basecomplextech/baselibrary/async"
	"github.com/basecomplextech/baselibrary/status"
	"github.com/basecomplextech/spec/zzverif/vexp"
	"github.com/basecomplextech/spec/zzverif/vsched"
)

// C03 — MPX channels deliver messages exactly once, in order, uncorrupted.

type c03dir struct {
	name     string
	sent     [][]byte // non-empty messages passed to Send/SendAndClose, in call order
	got      [][]byte
	drained  bool // the receiver read until the end status (without ending the channel itself)
	sendFail string
}

func (d *c03dir) check(x *vexp.Ctx) {
	for i, g := range d.got {
		if i >= len(d.sent) {
			x.Fail("more messages received than sent (duplication)", "%s: received %d messages, %d were sent; extra: %q", d.name, len(d.got), len(d.sent), clipB(g))
			return
		}
		if !bytes.Equal(g, d.sent[i]) {
			x.Fail("received message differs from the sent one (corruption / reordering / leakage)", "%s: message %d: got %q want %q", d.name, i, clipB(g), clipB(d.sent[i]))
			return
		}
	}
	if d.drained && d.sendFail == "" && len(d.got) != len(d.sent) {
		x.Fail("receiver drained to the end status but messages are missing", "%s: received %d of %d messages", d.name, len(d.got), len(d.sent))
	}
}

func clipB(b []byte) string {
	if len(b) > 40 {
		return string(b[:40]) + "…"
	}
	return string(b)
}

// c03sizes: message sizes relative to the window.
func c03sizes(W int) []int {
	return []int{1, maxInt(1, W/2), W, W + 1, 3 * W}
}

func maxInt(a, b int) int {
	if a > b {
		return a
	}
	return b
}

func c03configs(thorough bool) []map[string]int {
	tiny := map[string]int{"window": 3, "writeq": 16, "rbuf": 16, "wbuf": 16, "compress": 0}
	def := map[string]int{"window": 16 << 20, "writeq": 16 << 20, "rbuf": 32 << 10, "wbuf": 32 << 10, "compress": 0}
	short := map[string]int{"window": 8, "writeq": 16 << 20, "rbuf": 16, "wbuf": 32 << 10, "compress": 0, "maxread": 3}
	if !thorough {
		tinyc := map[string]int{"window": 3, "writeq": 16, "rbuf": 16, "wbuf": 16, "compress": 1}
		return []map[string]int{tiny, def, short, tinyc}
	}
	out := []map[string]int{tiny, def, short}
	for _, w := range []int{1, 8} {
		for _, q := range []int{16, 16 << 20} {
			for _, c := range []int{0, 1} {
				out = append(out, map[string]int{"window": w, "writeq": q, "rbuf": 16, "wbuf": 16, "compress": c})
			}
		}
	}
	out = append(out, map[string]int{"window": 3, "writeq": 16, "rbuf": 16, "wbuf": 16, "compress": 1, "maxread": 1})
	out = append(out, map[string]int{"window": 16 << 20, "writeq": 16 << 20, "rbuf": 32 << 10, "wbuf": 32 << 10, "compress": 1})
	return out
}

func init() {
	// S1: one connection, nch channels, both directions, last client message rides the close frame.
	vexp.Register(&vexp.Scenario{
		Name: "c03.S1.two-channels-both-directions", Prop: "C03",
		Bounds: func(thorough bool) vexp.Bounds {
			if thorough {
				return vexp.Bounds{P: 2, F: 1, E: 1}
			}
			return vexp.Bounds{P: 1, F: 1, E: 1}
		},
		Configs:  c03configs,
		MaxSteps: 60000,
		Doc:      "client+server conns over the fake transport; 2 channels; per channel the client sends 2 messages then SendAndClose(payload), the server handler echoes a reply per message and drains to the end; sizes from {1,W/2,W,W+1,3W} capped at 64 bytes for huge windows",
		Body: func(x *vexp.Ctx) {
			W := x.P("window", 3)
			sz := c03sizes(W)
			for i := range sz {
				if sz[i] > 64 {
					sz[i] = 16 + i*9
				}
			}
			const nch = 2
			c2s := make([]*c03dir, nch)
			s2c := make([]*c03dir, nch)
			for i := range c2s {
				c2s[i] = &c03dir{name: fmt.Sprintf("channel %d client->server", i)}
				s2c[i] = &c03dir{name: fmt.Sprintf("channel %d server->client", i)}
			}
			hDone := 0
			handler := HandleFunc(func(ctx Context, ch Channel) status.Status {
				rctx := async.NoContext()
				idx := -1
				n := 0
				for {
					msg, st := ch.Receive(rctx)
					if !st.OK() {
						if idx >= 0 && st.Code == status.CodeEnd {
							c2s[idx].drained = true
						}
						break
					}
					if idx < 0 {
						idx = vPayloadChan(msg)
						if idx < 0 || idx >= nch {
							idx = 0
						}
					}
					c2s[idx].got = append(c2s[idx].got, append([]byte{}, msg...))
					// reply
					rp := vPayload(9, idx, n, sz[(n+2)%len(sz)])
					s2c[idx].sent = append(s2c[idx].sent, rp)
					if st := ch.Send(rctx, rp); !st.OK() {
						s2c[idx].sent = s2c[idx].sent[:len(s2c[idx].sent)-1]
						s2c[idx].sendFail = st.String()
					}
					n++
				}
				hDone++
				return status.OK
			})
			w := newWide(x, handler)
			ctx := async.NoContext()
			cDone := 0
			for i := 0; i < nch; i++ {
				i := i
				vsched.GoNamed(fmt.Sprintf("client.ch%d", i), func() {
					defer func() { cDone++ }()
					ch, st := w.cli.Channel(ctx)
					if !st.OK() {
						c2s[i].sendFail = "channel: " + st.String()
						return
					}
					rDone := false
					vsched.GoNamed(fmt.Sprintf("client.ch%d.reader", i), func() {
						for {
							msg, st := ch.Receive(ctx)
							if !st.OK() {
								if st.Code == status.CodeEnd {
									s2c[i].drained = true
								}
								break
							}
							s2c[i].got = append(s2c[i].got, append([]byte{}, msg...))
						}
						rDone = true
					})
					for k := 0; k < 3; k++ {
						p := vPayload(0, i, k, sz[(k+i)%len(sz)])
						c2s[i].sent = append(c2s[i].sent, p)
						var st status.Status
						if k < 2 {
							st = ch.Send(ctx, p)
						} else {
							st = ch.SendAndClose(ctx, p)
						}
						if !st.OK() {
							c2s[i].sent = c2s[i].sent[:len(c2s[i].sent)-1]
							c2s[i].sendFail = st.String()
							break
						}
					}
					vsched.Join("client reader done", func() bool { return rDone })
					ch.Free()
				})
			}
			vsched.Join("clients and handlers done", func() bool { return cDone == nch && hDone == nch })
			for i := 0; i < nch; i++ {
				c2s[i].check(x)
				// server->client: the client closed the channel (SendAndClose) so the server's late replies may be cut:
				// only the prefix property applies.
				s2c[i].drained = false
				s2c[i].check(x)
				if c2s[i].sendFail != "" {
					x.Fail("Send fails on a healthy connection: "+errSig(c2s[i].sendFail), "%s: %s", c2s[i].name, c2s[i].sendFail)
				}
				if !c2s[i].drained {
					x.Fail("server receiver did not observe the end status", "%s", c2s[i].name)
				}
			}
			for _, e := range w.log.bad() {
				x.Fail("error logged: "+errSig(e), "%s", e)
			}
			x.Outcome = fmt.Sprintf("c2s=%d/%d s2c=%d/%d", len(c2s[0].got)+len(c2s[1].got), len(c2s[0].sent)+len(c2s[1].sent), len(s2c[0].got)+len(s2c[1].got), len(s2c[0].sent)+len(s2c[1].sent))
			w.shutdown()
		},
	})

	// S3: three channels over TWO connections of one real client (connection pool), both directions.
	vexp.Register(&vexp.Scenario{
		Name: "c03.S3.three-channels-two-connections", Prop: "C03",
		Bounds: func(thorough bool) vexp.Bounds {
			if thorough {
				return vexp.Bounds{P: 2, F: 1, E: 0}
			}
			return vexp.Bounds{P: 1, F: 0, E: 0}
		},
		Configs: func(thorough bool) []map[string]int {
			out := []map[string]int{
				{"window": 3, "writeq": 16, "rbuf": 16, "wbuf": 16, "compress": 0, "maxconns": 2, "target": 1},
				{"window": 16 << 20, "writeq": 16 << 20, "rbuf": 32 << 10, "wbuf": 32 << 10, "compress": 1, "maxconns": 2, "target": 1},
			}
			if thorough {
				out = append(out, map[string]int{"window": 8, "writeq": 16, "rbuf": 16, "wbuf": 16, "compress": 1, "maxconns": 2, "target": 2},
					map[string]int{"window": 1, "writeq": 16 << 20, "rbuf": 16, "wbuf": 16, "compress": 0, "maxconns": 3, "target": 1})
			}
			return out
		},
		MaxSteps: 100000,
		Doc:      "real mpx client with a scheduler-controlled connector (MaxConns 2..3, channel target 1..2): three callers open a channel each, the pool spreads them over two (or three) connections; per channel 2 messages + SendAndClose(payload), the server handler echoes and drains; every direction of every channel must be its own prefix/whole sequence (no leakage between channels or connections)",
		Body: func(x *vexp.Ctx) {
			W := x.P("window", 3)
			sz := c03sizes(W)
			for i := range sz {
				if sz[i] > 64 {
					sz[i] = 16 + i*9
				}
			}
			const nch = 3
			c2s := make([]*c03dir, nch)
			s2c := make([]*c03dir, nch)
			for i := range c2s {
				c2s[i] = &c03dir{name: fmt.Sprintf("channel %d client->server", i)}
				s2c[i] = &c03dir{name: fmt.Sprintf("channel %d server->client", i)}
			}
			hDone := 0
			c, vc := newVClient(x, ClientMode_OnDemand, nil, false)
			vc.handler = HandleFunc(func(ctx Context, ch Channel) status.Status {
				rctx := async.NoContext()
				idx := -1
				n := 0
				for {
					msg, st := ch.Receive(rctx)
					if !st.OK() {
						if idx >= 0 && st.Code == status.CodeEnd {
							c2s[idx].drained = true
						}
						break
					}
					if idx < 0 {
						idx = vPayloadChan(msg)
						if idx < 0 || idx >= nch {
							idx = 0
						}
					}
					c2s[idx].got = append(c2s[idx].got, append([]byte{}, msg...))
					rp := vPayload(9, idx, n, sz[(n+2)%len(sz)])
					s2c[idx].sent = append(s2c[idx].sent, rp)
					if st := ch.Send(rctx, rp); !st.OK() {
						s2c[idx].sent = s2c[idx].sent[:len(s2c[idx].sent)-1]
						s2c[idx].sendFail = st.String()
					}
					n++
				}
				hDone++
				return status.OK
			})
			ctx := async.NoContext()
			cDone := 0
			for i := 0; i < nch; i++ {
				i := i
				vsched.GoNamed(fmt.Sprintf("client.ch%d", i), func() {
					defer func() { cDone++ }()
					ch, st := c.Channel(ctx)
					if !st.OK() {
						c2s[i].sendFail = "channel: " + st.String()
						return
					}
					rDone := false
					vsched.GoNamed(fmt.Sprintf("client.ch%d.reader", i), func() {
						for {
							msg, st := ch.Receive(ctx)
							if !st.OK() {
								if st.Code == status.CodeEnd {
									s2c[i].drained = true
								}
								break
							}
							s2c[i].got = append(s2c[i].got, append([]byte{}, msg...))
						}
						rDone = true
					})
					for k := 0; k < 3; k++ {
						p := vPayload(0, i, k, sz[(k+i)%len(sz)])
						c2s[i].sent = append(c2s[i].sent, p)
						var st status.Status
						if k < 2 {
							st = ch.Send(ctx, p)
						} else {
							st = ch.SendAndClose(ctx, p)
						}
						if !st.OK() {
							c2s[i].sent = c2s[i].sent[:len(c2s[i].sent)-1]
							c2s[i].sendFail = st.String()
							break
						}
					}
					vsched.Join("client reader done", func() bool { return rDone })
					ch.Free()
				})
			}
			vsched.Join("clients and handlers done", func() bool { return cDone == nch && hDone == nch })
			nsent, ngot := 0, 0
			for i := 0; i < nch; i++ {
				c2s[i].check(x)
				s2c[i].drained = false
				s2c[i].check(x)
				if c2s[i].sendFail != "" {
					x.Fail("Send fails on a healthy connection: "+errSig(c2s[i].sendFail), "%s: %s", c2s[i].name, c2s[i].sendFail)
				}
				if !c2s[i].drained {
					x.Fail("server receiver did not observe the end status", "%s", c2s[i].name)
				}
				nsent += len(c2s[i].sent)
				ngot += len(c2s[i].got)
			}
			for _, e := range vc.log.bad() {
				x.Fail("error logged: "+errSig(e), "%s", e)
			}
			x.Outcome = fmt.Sprintf("conns=%d c2s=%d/%d", vc.dials, ngot, nsent)
			c.Close()
			vsched.WaitIdle("quiesce")
		},
	})

	// S4: several senders competing for a write queue that holds one frame at a time.
	vexp.Register(&vexp.Scenario{
		Name: "c03.S4.senders-compete-for-write-queue", Prop: "C03",
		Bounds: func(thorough bool) vexp.Bounds {
			if thorough {
				return vexp.Bounds{P: 2, F: 1, E: 0}
			}
			return vexp.Bounds{P: 1, F: 1, E: 0}
		},
		Configs: func(thorough bool) []map[string]int {
			out := []map[string]int{{"writeq": 64, "rbuf": 4096, "wbuf": 4096, "nch": 3, "compress": 0}}
			if thorough {
				out = append(out, map[string]int{"writeq": 64, "rbuf": 16, "wbuf": 16, "nch": 3, "compress": 1}, map[string]int{"writeq": 64, "rbuf": 4096, "wbuf": 4096, "nch": 4, "compress": 0})
			}
			return out
		},
		MaxSteps: 100000,
		Doc:      "real client and server connections, write queue of 64 bytes, 3..4 channels each sending three 2000-byte messages (every frame is larger than the queue, so the queue admits one frame at a time and the other senders wait for space and compete for it when the send loop drains it): every channel's receiver must get exactly its three messages in order",
		Body: func(x *vexp.Ctx) {
			nch := x.P("nch", 3)
			c2s := make([]*c03dir, nch)
			for i := range c2s {
				c2s[i] = &c03dir{name: fmt.Sprintf("channel %d client->server", i)}
			}
			hDone := 0
			handler := HandleFunc(func(ctx Context, ch Channel) status.Status {
				rctx := async.NoContext()
				idx := -1
				for {
					msg, st := ch.Receive(rctx)
					if !st.OK() {
						if idx >= 0 && st.Code == status.CodeEnd {
							c2s[idx].drained = true
						}
						break
					}
					if idx < 0 {
						idx = vPayloadChan(msg)
						if idx < 0 || idx >= nch {
							idx = 0
						}
					}
					c2s[idx].got = append(c2s[idx].got, append([]byte{}, msg...))
				}
				hDone++
				return status.OK
			})
			w := newWide(x, handler)
			ctx := async.NoContext()
			cDone := 0
			for i := 0; i < nch; i++ {
				i := i
				vsched.GoNamed(fmt.Sprintf("client.ch%d", i), func() {
					defer func() { cDone++ }()
					ch, st := w.cli.Channel(ctx)
					if !st.OK() {
						c2s[i].sendFail = "channel: " + st.String()
						return
					}
					for k := 0; k < 3; k++ {
						p := vPayload(0, i, k, 2000+k)
						c2s[i].sent = append(c2s[i].sent, p)
						if st := ch.Send(ctx, p); !st.OK() {
							c2s[i].sent = c2s[i].sent[:len(c2s[i].sent)-1]
							c2s[i].sendFail = st.String()
							break
						}
					}
					ch.Free()
				})
			}
			vsched.Join("clients and handlers done", func() bool { return cDone == nch && hDone == nch })
			ngot := 0
			for i := 0; i < nch; i++ {
				c2s[i].check(x)
				if c2s[i].sendFail != "" {
					x.Fail("Send fails on a healthy connection: "+errSig(c2s[i].sendFail), "%s: %s", c2s[i].name, c2s[i].sendFail)
				}
				if !c2s[i].drained {
					x.Fail("server receiver did not observe the end status", "%s", c2s[i].name)
				}
				ngot += len(c2s[i].got)
			}
			for _, e := range w.log.bad() {
				x.Fail("error logged: "+errSig(e), "%s", e)
			}
			x.Outcome = fmt.Sprintf("delivered=%d/%d", ngot, 3*nch)
			w.shutdown()
		},
	})

	// S7: handlers answer with SendAndClose(handler context, last message) while the server's write queue is contended.
	vexp.Register(&vexp.Scenario{
		Name: "c03.S7.sendandclose-with-handler-context-on-contended-write-queue", Prop: "C03", Also: []string{"C04"},
		Bounds: func(thorough bool) vexp.Bounds {
			if thorough {
				return vexp.Bounds{P: 2, F: 1, E: 0}
			}
			return vexp.Bounds{P: 1, F: 1, E: 0}
		},
		Configs: func(thorough bool) []map[string]int {
			out := []map[string]int{{"writeq": 64, "rbuf": 4096, "wbuf": 4096, "nch": 2}}
			if thorough {
				out = append(out, map[string]int{"writeq": 64, "rbuf": 4096, "wbuf": 4096, "nch": 3})
			}
			return out
		},
		MaxSteps: 100000,
		Doc:      "real client and server connections, server write queue of 64 bytes; 2..3 channels: the client sends a request and reads until the end status, the handler answers with Send(ctx, 2000 bytes) and SendAndClose(ctx, 2000 bytes) where ctx is the context the handler was given (what test handlers and rpc's SendResponse do): the answers of the channels compete for the queue, so a closing frame has to wait for space; every client must receive both messages and then the end status",
		Body: func(x *vexp.Ctx) {
			nch := x.P("nch", 2)
			s2c := make([]*c03dir, nch)
			for i := range s2c {
				s2c[i] = &c03dir{name: fmt.Sprintf("channel %d server->client", i)}
			}
			hDone := 0
			var hSts []string
			handler := HandleFunc(func(ctx Context, ch Channel) status.Status {
				defer func() { hDone++ }()
				msg, st := ch.Receive(async.NoContext())
				if !st.OK() {
					return st
				}
				idx := vPayloadChan(msg)
				if idx < 0 || idx >= nch {
					idx = 0
				}
				p0, p1 := vPayload(1, idx, 0, 2000), vPayload(1, idx, 1, 2001)
				s2c[idx].sent = append(s2c[idx].sent, p0, p1)
				if st := ch.Send(ctx, p0); !st.OK() {
					hSts = append(hSts, "send:"+string(st.Code))
					return st
				}
				st = ch.SendAndClose(ctx, p1)
				if !st.OK() {
					hSts = append(hSts, "sendandclose:"+string(st.Code))
				}
				return st
			})
			w := newWide(x, handler)
			ctx := async.NoContext()
			cDone := 0
			for i := 0; i < nch; i++ {
				i := i
				vsched.GoNamed(fmt.Sprintf("client.ch%d", i), func() {
					defer func() { cDone++ }()
					ch, st := w.cli.Channel(ctx)
					if !st.OK() {
						s2c[i].sendFail = "channel: " + st.String()
						return
					}
					defer ch.Free()
					if st := ch.Send(ctx, vPayload(0, i, 0, 40)); !st.OK() {
						s2c[i].sendFail = st.String()
						return
					}
					for {
						msg, st := ch.Receive(ctx)
						if !st.OK() {
							s2c[i].drained = st.Code == status.CodeEnd
							return
						}
						s2c[i].got = append(s2c[i].got, append([]byte{}, msg...))
					}
				})
			}
			vsched.Join("clients and handlers done", func() bool { return cDone == nch && hDone == nch })
			ngot := 0
			for i := 0; i < nch; i++ {
				s2c[i].check(x)
				if s2c[i].sendFail != "" {
					x.Fail("Send fails on a healthy connection: "+errSig(s2c[i].sendFail), "%s: %s", s2c[i].name, s2c[i].sendFail)
				}
				if !s2c[i].drained {
					x.Fail("client receiver did not observe the end status", "%s", s2c[i].name)
				}
				if len(s2c[i].got) != 2 {
					x.Fail("a message passed to Send / SendAndClose with the handler's context is not delivered", "%s: got %d of 2 messages; handler statuses %v", s2c[i].name, len(s2c[i].got), hSts)
				}
				ngot += len(s2c[i].got)
			}
			for _, e := range w.log.bad() {
				x.Fail("error logged: "+errSig(e), "%s", e)
			}
			x.Outcome = fmt.Sprintf("delivered=%d/%d handler=%v", ngot, 2*nch, hSts)
			w.shutdown()
		},
	})

	// S5: the receiver lags by a full DEFAULT window (16 MiB pending unread), then drains after the sender closed.
	vexp.Register(&vexp.Scenario{
		Name: "c03.S5.receiver-lags-a-full-default-window", Prop: "C03",
		Bounds: func(thorough bool) vexp.Bounds { return vexp.Bounds{P: 0, F: 0, E: 0} },
		Configs: func(thorough bool) []map[string]int {
			out := []map[string]int{{"dirn": 0, "msg": 1 << 20}, {"dirn": 1, "msg": 1 << 20}}
			if thorough {
				out = append(out, map[string]int{"dirn": 0, "msg": 65536}, map[string]int{"dirn": 0, "msg": 4000})
			}
			return out
		},
		MaxSteps: 4000000,
		Doc:      "default options (window 16 MiB): the sender pushes messages until a full window is pending, alternating a large size (1 MiB; thorough also 64 KiB and 4000 bytes) with 8 bytes, and ends with SendAndClose(payload); the receiver starts reading only after the close arrived and must get every message in order before the end status (dirn 0: client to server, 1: server to client); one schedule (the data volume is the dimension here)",
		Body: func(x *vexp.Ctx) {
			msg := x.P("msg", 1<<20)
			total := 16 << 20
			x.Params["window"], x.Params["writeq"], x.Params["rbuf"], x.Params["wbuf"] = 16<<20, 16<<20, 32<<10, 32<<10 // the library defaults
			var want [][2]int                                                                                           // (seq, len)
			sendAll := func(ch Channel, ctx async.Context) string {
				sent := 0
				for seq := 0; sent+msg+8 <= total-msg; seq += 2 {
					for k, n := range []int{msg, 8} {
						p := make([]byte, n)
						p[0], p[1], p[2], p[n-1] = byte(seq+k), byte((seq+k)>>8), byte((seq+k)>>16), 0x5a
						if st := ch.Send(ctx, p); !st.OK() {
							return "send: " + st.String()
						}
						want = append(want, [2]int{seq + k, n})
						sent += n
					}
				}
				last := []byte{0xff, 0xff, 0xff, 0x5a}
				want = append(want, [2]int{0xffffff, len(last)})
				if st := ch.SendAndClose(ctx, last); !st.OK() {
					return "send-and-close: " + st.String()
				}
				return ""
			}
			var got [][2]int
			drained := false
			recvAll := func(ch Channel, ctx async.Context) {
				for {
					m, st := ch.Receive(ctx)
					if !st.OK() {
						drained = st.Code == status.CodeEnd
						return
					}
					if len(m) < 4 {
						got = append(got, [2]int{-1, len(m)})
						continue
					}
					got = append(got, [2]int{int(m[0]) | int(m[1])<<8 | int(m[2])<<16, len(m)})
				}
			}
			sendErr := ""
			sDone, rDone := false, false
			start := false
			handler := HandleFunc(func(ctx Context, ch Channel) status.Status {
				rctx := async.NoContext()
				if x.P("dirn", 0) == 0 {
					vsched.Join("sender finished", func() bool { return start })
					recvAll(ch, rctx)
					rDone = true
				} else {
					ch.Receive(rctx) // the opening message
					sendErr = sendAll(ch, rctx)
					sDone = true
				}
				return status.OK
			})
			w := newWide(x, handler)
			ctx := async.NoContext()
			ch, st := w.cli.Channel(ctx)
			if !st.OK() {
				x.Fail("Channel fails on a healthy connection", "%v", st)
				return
			}
			if x.P("dirn", 0) == 0 {
				vsched.GoNamed("sender", func() { sendErr = sendAll(ch, ctx); sDone = true })
				vsched.Join("sender done", func() bool { return sDone })
				vsched.WaitIdle("everything delivered to the receive queue")
				start = true
				vsched.Join("receiver done", func() bool { return rDone })
			} else {
				ch.Send(ctx, []byte("open"))
				vsched.Join("sender done", func() bool { return sDone })
				vsched.WaitIdle("everything delivered to the receive queue")
				recvAll(ch, ctx)
			}
			if sendErr != "" {
				x.Fail("Send fails on a healthy connection: "+errSig(sendErr), "%s", sendErr)
			}
			if !drained {
				x.Fail("receiver did not observe the end status", "got %d of %d messages", len(got), len(want))
			}
			for i := range got {
				if i >= len(want) || got[i] != want[i] {
					w := [2]int{-1, -1}
					if i < len(want) {
						w = want[i]
					}
					x.Fail("received message differs from the sent one (corruption / reordering / leakage)", "message %d: got seq=%d len=%d want seq=%d len=%d", i, got[i][0], got[i][1], w[0], w[1])
					break
				}
			}
			if drained && len(got) != len(want) {
				x.Fail("receiver drained to the end status but messages are missing", "received %d of %d messages", len(got), len(want))
			}
			ch.Free()
			x.Outcome = fmt.Sprintf("delivered=%d/%d", len(got), len(want))
			w.shutdown()
		},
	})

	// S6: a message that does not fit the head block of the write / receive queue, queued around the moment the
	// consumer has drained the queue.
	vexp.Register(&vexp.Scenario{
		Name: "c03.S6.large-after-small", Prop: "C03", Also: []string{"C04"},
		Bounds: func(thorough bool) vexp.Bounds {
			if thorough {
				return vexp.Bounds{P: 2, F: 1, E: 1}
			}
			return vexp.Bounds{P: 1, F: 1, E: 0}
		},
		Configs: func(thorough bool) []map[string]int {
			var out []map[string]int
			for _, big := range []int{1000, 1100, 2000, 5000} {
				for _, settle := range []int{0, 1} {
					out = append(out, map[string]int{"big": big, "settle": settle, "window": 1 << 20, "writeq": 1 << 20, "rbuf": 4096, "wbuf": 4096})
				}
			}
			return out
		},
		MaxSteps: 100000,
		Doc:      "default-like options; the client sends a 10-byte message and then one of 1000..5000 bytes (beyond the 1024-byte head block of the byte queues), either back to back or after everything has drained (settle=1); the server echoes both; every message must be delivered WITHOUT any further traffic (a message parked in a second queue block must still wake the send loop / the receiver)",
		Body: func(x *vexp.Ctx) {
			big := x.P("big", 2000)
			var got, echo [][]byte
			hDone := false
			handler := HandleFunc(func(ctx Context, ch Channel) status.Status {
				rctx := async.NoContext()
				for {
					m, st := ch.Receive(rctx)
					if !st.OK() {
						break
					}
					got = append(got, append([]byte{}, m...))
					if st := ch.Send(rctx, m); !st.OK() {
						break
					}
				}
				hDone = true
				return status.OK
			})
			w := newWide(x, handler)
			ctx := async.NoContext()
			ch, st := w.cli.Channel(ctx)
			if !st.OK() {
				x.Fail("Channel fails on a healthy connection", "%v", st)
				return
			}
			msgs := [][]byte{vPayload(0, 0, 0, 10), vPayload(0, 0, 1, big)}
			cDone := false
			vsched.GoNamed("client", func() {
				defer func() { cDone = true }()
				for i, m := range msgs {
					if st := ch.Send(ctx, m); !st.OK() {
						return
					}
					if i == 0 && x.P("settle", 0) == 1 {
						r, st := ch.Receive(ctx)
						if !st.OK() {
							return
						}
						echo = append(echo, append([]byte{}, r...))
					}
				}
				for len(echo) < len(msgs) {
					r, st := ch.Receive(ctx)
					if !st.OK() {
						return
					}
					echo = append(echo, append([]byte{}, r...))
				}
			})
			vsched.Join("both messages echoed without further traffic", func() bool { return cDone })
			for i, m := range msgs {
				if i >= len(got) || !bytes.Equal(got[i], m) {
					x.Fail("message not delivered to the handler", "message %d of %d bytes", i, len(m))
				}
				if i >= len(echo) || !bytes.Equal(echo[i], m) {
					x.Fail("echo not delivered to the caller", "message %d of %d bytes", i, len(m))
				}
			}
			ch.Free()
			vsched.Join("handler done", func() bool { return hDone })
			x.Outcome = fmt.Sprintf("got=%d echo=%d", len(got), len(echo))
			w.shutdown()
		},
	})

	// S2: payload on the opening frame, on the closing frame, and SendAndClose on a never-opened channel (open+close batch).
	vexp.Register(&vexp.Scenario{
		Name: "c03.S2.open-close-payloads", Prop: "C03",
		Bounds: func(thorough bool) vexp.Bounds {
			if thorough {
				return vexp.Bounds{P: 2, F: 1, E: 1}
			}
			return vexp.Bounds{P: 1, F: 1, E: 1}
		},
		Configs:  c03configs,
		MaxSteps: 60000,
		Doc:      "channel X: SendAndClose(payload) on a never-opened channel (open+close batch); channel Y: Send(first rides the open frame), server replies and closes with SendAndClose(payload); receivers drain to the end",
		Body: func(x *vexp.Ctx) {
			W := x.P("window", 3)
			big := 3 * W
			if big > 64 {
				big = 48
			}
			xs := &c03dir{name: "channel X client->server (open+close batch)"}
			ys := &c03dir{name: "channel Y client->server"}
			yr := &c03dir{name: "channel Y server->client (payload on the closing frame)"}
			hDone := 0
			handler := HandleFunc(func(ctx Context, ch Channel) status.Status {
				rctx := async.NoContext()
				first, st := ch.Receive(rctx)
				if !st.OK() {
					hDone++
					return status.OK
				}
				if vPayloadChan(first) == 0 { // channel X
					xs.got = append(xs.got, append([]byte{}, first...))
					for {
						m, st := ch.Receive(rctx)
						if !st.OK() {
							xs.drained = st.Code == status.CodeEnd
							break
						}
						xs.got = append(xs.got, append([]byte{}, m...))
					}
				} else {
					ys.got = append(ys.got, append([]byte{}, first...))
					r1, r2 := vPayload(9, 1, 0, 2), vPayload(9, 1, 1, big)
					yr.sent = append(yr.sent, r1)
					if st := ch.Send(rctx, r1); !st.OK() {
						yr.sendFail = st.String()
					}
					yr.sent = append(yr.sent, r2)
					if st := ch.SendAndClose(rctx, r2); !st.OK() {
						yr.sendFail = st.String()
					}
				}
				hDone++
				return status.OK
			})
			w := newWide(x, handler)
			ctx := async.NoContext()
			xDone, yDone := false, false
			vsched.GoNamed("client.X", func() {
				defer func() { xDone = true }()
				ch, st := w.cli.Channel(ctx)
				if !st.OK() {
					xs.sendFail = st.String()
					return
				}
				p := vPayload(0, 0, 0, big)
				xs.sent = append(xs.sent, p)
				if st := ch.SendAndClose(ctx, p); !st.OK() {
					xs.sendFail = st.String()
				}
				ch.Free()
			})
			vsched.GoNamed("client.Y", func() {
				defer func() { yDone = true }()
				ch, st := w.cli.Channel(ctx)
				if !st.OK() {
					ys.sendFail = st.String()
					return
				}
				ysz := maxInt(1, W)
				if ysz > 64 {
					ysz = 33
				}
				p := vPayload(0, 1, 0, ysz)
				ys.sent = append(ys.sent, p)
				if st := ch.Send(ctx, p); !st.OK() {
					ys.sendFail = st.String()
				}
				for {
					m, st := ch.Receive(ctx)
					if !st.OK() {
						yr.drained = st.Code == status.CodeEnd
						break
					}
					yr.got = append(yr.got, append([]byte{}, m...))
				}
				ch.Free()
			})
			vsched.Join("done", func() bool { return xDone && yDone && hDone == 2 })
			for _, d := range []*c03dir{xs, ys, yr} {
				if d == ys {
					d.drained = false
				}
				d.check(x)
				if d.sendFail != "" {
					x.Fail("Send fails on a healthy connection: "+errSig(d.sendFail), "%s: %s", d.name, d.sendFail)
				}
			}
			if !xs.drained || !yr.drained {
				x.Fail("receiver did not observe the end status", "X drained=%v Y-reply drained=%v", xs.drained, yr.drained)
			}
			for _, e := range w.log.bad() {
				x.Fail("error logged: "+errSig(e), "%s", e)
			}
			x.Outcome = fmt.Sprintf("x=%d y=%d yr=%d", len(xs.got), len(ys.got), len(yr.got))
			w.shutdown()
		},
	})
}

// vParseFrames splits a raw byte stream (after the handshake) into mpx messages, batches flattened.
func vParseFrames(b []byte) (out []vFrame, err error) {
	for len(b) > 0 {
		if len(b) < 4 {
			return out, fmt.Errorf("trailing %d bytes", len(b))
		}
		n := int(b[0])<<24 | int(b[1])<<16 | int(b[2])<<8 | int(b[3])
		if len(b) < 4+n {
			return out, fmt.Errorf("truncated frame: need %d have %d", n, len(b)-4)
		}
		w := &vWireConn{}
		m, _, perr := pmpx.ParseMessage(b[4 : 4+n])
		if perr != nil {
			return out, perr
		}
		w.send(nil, m)
		out = append(out, w.frames...)
		b = b[4+n:]
	}
	return out, nil
}

func init() {
	// N8: two senders on ONE channel (narrow seam): per-sender order, no duplication, open frame first.
	vexp.Register(&vexp.Scenario{
		Name: "c03.N8.two-senders-one-channel", Prop: "C03",
		Bounds: func(thorough bool) vexp.Bounds {
			if thorough {
				return vexp.Bounds{P: 3, F: -1, E: 1}
			}
			return vexp.Bounds{P: 2, F: -1, E: 1}
		},
		Configs: func(thorough bool) []map[string]int {
			return []map[string]int{{"window": 1 << 20, "writeq": 1 << 20}, {"window": 1 << 20, "writeq": 16}}
		},
		Doc: "client conn seam with the real send loop: two threads Send a1,a2 / b1,b2 on the same channel; the bytes on the wire must be: one open frame first, then data frames; every message exactly once; each sender's messages in its call order; a message whose Send returned before another Send started precedes it",
		Body: func(x *vexp.Ctx) {
			s := newSeam(x, true, nil)
			s.startSendLoop()
			ctx := s.c.ctx
			ch, st := s.c.Channel(ctx)
			if !st.OK() {
				x.Fail("harness: channel", "%v", st)
				return
			}
			done := 0
			for _, name := range []string{"a", "b"} {
				name := name
				vsched.GoNamed("sender-"+name, func() {
					defer func() { done++ }()
					for i := 1; i <= 2; i++ {
						if st := ch.Send(ctx, []byte(fmt.Sprintf("%s%d", name, i))); !st.OK() {
							x.Fail("Send fails: "+errSig(shortSt(st)), "%v", st)
						}
					}
				})
			}
			vsched.Join("senders done", func() bool { return done == 2 })
			vsched.WaitIdle("send loop drained")
			frames, err := vParseFrames(s.nc.Drain())
			if err != nil {
				x.Fail("wire bytes are not a frame sequence: "+errSig(err.Error()), "%v", err)
			}
			var got []string
			for i, f := range frames {
				if (i == 0) != (f.Code == pmpx.Code_ChannelOpen) {
					x.Fail("open frame not first / repeated", "frame %d has code %v", i, f.Code)
				}
				m, _ := pmpx.OpenMessageErr(f.raw)
				switch f.Code {
				case pmpx.Code_ChannelOpen:
					got = append(got, string(m.ChannelOpen().Data()))
				case pmpx.Code_ChannelData:
					got = append(got, string(m.ChannelData().Data()))
				}
			}
			pos := map[string]int{}
			for i, g := range got {
				if _, dup := pos[g]; dup {
					x.Fail("message duplicated on the wire", "%q twice in %v", g, got)
				}
				pos[g] = i
			}
			if len(got) != 4 {
				x.Fail("messages lost or extra on the wire", "wire has %v, want a1,a2,b1,b2 in some interleaving", got)
			} else if pos["a1"] > pos["a2"] || pos["b1"] > pos["b2"] {
				x.Fail("a sender's messages are reordered", "wire order %v", got)
			}
			x.Outcome = fmt.Sprint(got)
			ch.Free()
			s.teardown(x)
		},
	})
}
