// Package c18w: C18 scenarios for pooled writers (writer, writer state, buffers) under the scheduler with the
// deterministic LIFO pool.
package c18w

import (
	"bytes"
	"fmt"

	"github.com/basecomplextech/baselibrary/alloc"
	"github.com/basecomplextech/baselibrary/buffer"
	"github.com/basecomplextech/spec"
	"github.com/basecomplextech/spec/internal/writer"
	"github.com/basecomplextech/spec/zzverif/vexp"
	"github.com/basecomplextech/spec/zzverif/vsched"
)

// A program is a short use of a pooled or explicit writer: constructor x body x ending. Its observable result
// (bytes or "error") must depend on the program alone.
type program struct {
	ctor, body, ending int
}

var ctors = []string{"NewMessageWriter", "NewMessageWriterBuffer", "NewWriter(explicit)", "NewListWriter", "NewValueWriterBuffer"}
var bodies = []string{"complete", "nested", "fail-midway", "abandon-open", "big-60-fields", "copy"}
var endings = []string{"Build", "Build+Free", "none", "Build+Unwrap.Free", "Build+Reset+Build"}

func (p program) String() string {
	return fmt.Sprintf("%s/%s/%s", ctors[p.ctor], bodies[p.body], endings[p.ending])
}

func allPrograms() []program {
	var out []program
	for c := range ctors {
		for b := range bodies {
			for e := range endings {
				if e == 1 && c != 2 {
					continue // Free only on the explicit writer
				}
				if e == 3 && !(c == 0 || c == 1 || c == 3) {
					continue // Free through the unwrapped writer of a POOLED message / list writer (after its auto-release)
				}
				if e == 3 && !(b == 0 || b == 2) {
					continue
				}
				if e == 4 && !(c == 2 && b == 0) {
					continue // an explicitly owned writer is reused with Reset after its Build
				}
				if c >= 3 && (b == 4 || b == 5) {
					continue // message-only bodies
				}
				out = append(out, program{c, b, e})
			}
		}
	}
	return out
}

var srcMsg []byte

func init() {
	w := spec.NewMessageWriter()
	w.Field(7).String("copied")
	w.Field(9).Int64(-9)
	b, err := w.Build()
	if err != nil {
		panic(err)
	}
	srcMsg = append([]byte{}, b...)
}

// run executes the program; step() is called between operations (a scheduling point in concurrent scenarios).
func (p program) run(step func()) (out []byte, failed bool) {
	buf := alloc.AcquireBuffer()
	defer buf.Free()
	var m spec.MessageWriter
	var l spec.ListWriter
	var v spec.ValueWriter
	var explicit spec.Writer
	kind := "m"
	switch p.ctor {
	case 0:
		m = spec.NewMessageWriter()
	case 1:
		m = spec.NewMessageWriterBuffer(buf)
	case 2:
		explicit = spec.NewWriter()
		m = explicit.Message()
	case 3:
		l = spec.NewListWriter()
		kind = "l"
	case 4:
		v = spec.NewValueWriterBuffer(buf)
		kind = "v"
	}
	step()
	var err error
	note := func(e error) {
		if e != nil && err == nil {
			err = e
		}
	}
	switch kind {
	case "m":
		switch p.body {
		case 0:
			note(m.Field(1).Bool(true))
			step()
			note(m.Field(2).String("s"))
		case 1:
			sub := m.Field(1).Message()
			step()
			note(sub.Field(5).Int32(5))
			note(sub.End())
			step()
			ls := m.Field(2).List()
			note(ls.String("e"))
			note(ls.End())
		case 2:
			note(m.Field(1).Bool(true))
			step()
			note(m.Unwrap().Value().Bool(true))
			note(m.Unwrap().Value().Bool(false)) // second value without consuming the first: error
		case 3:
			m.Field(1).Message()
			step()
		case 4:
			for i := 1; i <= 60; i++ {
				note(m.Field(uint16(i)).Int32(int32(i)))
				if i%20 == 0 {
					step()
				}
			}
		case 5:
			note(m.Field(7).String("own"))
			step()
			note(m.Copy(spec.OpenMessage(srcMsg)))
		}
	case "l":
		switch p.body {
		case 0:
			note(l.Bool(true))
			step()
			note(l.String("s"))
		case 1:
			sub := l.Message()
			step()
			note(sub.Field(5).Int32(5))
			note(sub.End())
		case 2:
			note(l.Bool(true))
			step()
			note(writer.WriteValue(unwrapList(l), true, spec.EncodeBool))
			note(writer.WriteValue(unwrapList(l), true, spec.EncodeBool))
		case 3:
			l.List()
			step()
		}
	case "v":
		switch p.body {
		case 0, 1:
			note(v.String("value"))
			step()
		case 2:
			note(v.Bool(true))
			step()
			note(v.Bool(false))
		case 3:
			v.Message()
			step()
		}
	}
	step()
	var unwrapped spec.Writer
	if p.ending == 3 {
		if kind == "m" {
			unwrapped = m.Unwrap()
		} else {
			unwrapped = unwrapList(l)
		}
	}
	var b []byte
	if p.ending != 2 {
		var berr error
		switch kind {
		case "m":
			b, berr = m.Build()
		case "l":
			b, berr = l.Build()
		case "v":
			b, berr = v.Build()
		}
		note(berr)
		b = append([]byte{}, b...)
	}
	step()
	if p.ending == 1 && explicit != nil {
		explicit.Free()
	}
	if p.ending == 4 && explicit != nil && err == nil {
		// the owner keeps its writer: Reset and build the same message once more
		step()
		explicit.Reset(buf)
		m2 := explicit.Message()
		note(m2.Field(1).Bool(true))
		step()
		note(m2.Field(2).String("s"))
		b2, e2 := m2.Build()
		note(e2)
		if err == nil && fmt.Sprintf("%x", b2) != fmt.Sprintf("%x", b) {
			err = fmt.Errorf("second build after Reset differs: %x vs %x", b2, b)
		}
		explicit.Free()
	}
	if p.ending == 3 && unwrapped != nil {
		unwrapped.Free() // "Free is always safe": the writer was auto-released by Build a moment ago
	}
	if err != nil {
		return nil, true
	}
	return b, false
}

func unwrapList(l spec.ListWriter) spec.Writer {
	// ListWriter has no Unwrap; a nested Message handle gives access to the same writer
	return writer.VUnwrapList(l)
}

// expected results, computed once with fresh (unpooled) state semantics: by running each program alone first.
var expected = map[program]string{}

// lateFree: the program frees a pooled writer through a raw pointer after its Build succeeded (and auto-released it).
func lateFree(p program) bool { return p.ending == 3 && p.body != 2 }

func result(b []byte, failed bool) string {
	if failed {
		return "error"
	}
	return fmt.Sprintf("%x", b)
}

func init() {
	progs := allPrograms()
	n := len(progs)
	// sequential: all ordered pairs (and the pair repeated) through the LIFO pool
	vexp.Register(&vexp.Scenario{
		Name: "c18.seq.writer-program-pairs", Prop: "C18",
		Bounds: func(bool) vexp.Bounds { return vexp.Bounds{} },
		Configs: func(thorough bool) []map[string]int {
			var out []map[string]int
			for a := 0; a < n; a++ {
				out = append(out, map[string]int{"a": a})
			}
			return out
		},
		Doc: fmt.Sprintf("all ordered pairs (P1,P2) of %d writer programs (constructor x body x ending; bodies include failing midway, abandoning an open container, growing the field table beyond its preallocation, Copy; endings Build / Build+Free / never released / Build then Free through the unwrapped pooled writer / owned writer reused with Reset after Build) run back to back on the LIFO pools: P2's result must equal P2 run alone, also as third program after P1,P1", n),
		Body: func(x *vexp.Ctx) {
			a := x.P("a", 0)
			for _, p := range progs {
				if _, ok := expected[p]; !ok {
					b, f := p.run(func() {})
					expected[p] = result(b, f)
				}
			}
			p1 := progs[a]
			bad := 0
			for _, p2 := range progs {
				for rep := 1; rep <= 2; rep++ {
					for i := 0; i < rep; i++ {
						var pn any
						func() {
							defer func() { pn = recover() }()
							p1.run(func() {})
						}()
						if pn != nil {
							x.Fail("writer program panics: "+p1.String(), "%v", pn)
						}
					}
					var b []byte
					var f bool
					var pn any
					func() {
						defer func() { pn = recover() }()
						b, f = p2.run(func() {})
					}()
					if pn != nil {
						x.Fail("writer program panics after another program used the pools", "P1=%s (x%d) then P2=%s: %v", p1, rep, p2, pn)
						bad++
						continue
					}
					if got := result(b, f); got != expected[p2] {
						x.Fail("writer result depends on the previous user of the pooled objects", "P1=%s (x%d) then P2=%s: got %s want %s", p1, rep, p2, clip(got), clip(expected[p2]))
						bad++
					}
				}
			}
			// after a program that frees a pooled writer once more after its Build (sequentially harmless: nobody
			// else owns it yet), two LATER programs are interleaved on one thread: each must get its own writer
			{
				for _, p2 := range progs {
					for _, p3 := range progs {
						reuse := p2.ending == 4 // an owned writer reused with Reset: every p1 may have left it a dirty state
						if !reuse && !lateFree(p1) {
							continue
						}
						if (!reuse && p2.ctor == 2) || p3.ctor == 2 || lateFree(p2) || lateFree(p3) || p2.body > 2 || p3.body > 2 || p3.ending != 0 {
							continue
						}
						for at := 1; at <= 6; at++ {
							if !reuse && at != 2 {
								continue
							}
							p1.run(func() {})
							var b2, b3 []byte
							var f2, f3 bool
							var pn any
							func() {
								defer func() { pn = recover() }()
								k := 0
								b2, f2 = p2.run(func() {
									k++
									if k == at {
										b3, f3 = p3.run(func() {})
									}
								})
							}()
							if pn != nil {
								x.Fail("writer program panics after another program used the pools", "P1=%s then P2=%s interleaved with P3=%s: %v", p1, p2, p3, pn)
								bad++
								continue
							}
							if g2, g3 := result(b2, f2), result(b3, f3); g2 != expected[p2] || g3 != expected[p3] {
								x.Fail("two later programs share one pooled writer (released twice by an earlier program)", "P1=%s then P2=%s interleaved (step %d) with P3=%s: got %s / %s want %s / %s", p1, p2, at, p3, clip(g2), clip(g3), clip(expected[p2]), clip(expected[p3]))
								bad++
							}
						}
					}
				}
			}
			x.Outcome = fmt.Sprintf("bad=%d", bad)
		},
	})

	// concurrent: two (thorough: three) threads, each a program, interleaved at operation granularity
	vexp.Register(&vexp.Scenario{
		Name: "c18.conc.writer-programs", Prop: "C18", Fine: true,
		Bounds: func(thorough bool) vexp.Bounds {
			if thorough {
				return vexp.Bounds{P: 3, F: -1, E: 0}
			}
			return vexp.Bounds{P: 2, F: -1, E: 0}
		},
		Configs: func(thorough bool) []map[string]int {
			var out []map[string]int
			for a := 0; a < n; a++ {
				for b := a; b < n; b++ {
					if lateFree(progs[a]) || lateFree(progs[b]) {
						// Free through a raw pointer to a pooled writer AFTER its successful Build released it is a
						// use after release once another goroutine may own the writer: not a legal concurrent program
						continue
					}
					out = append(out, map[string]int{"a": a, "b": b})
				}
			}
			return out
		},
		Doc: "every unordered pair of writer programs run by two threads, twice each, with a scheduling point between operations and at every pool Get/Put (fine mode) and the adversarial LIFO pool: each thread's results must equal the program run alone (an object handed to two users, or released twice, corrupts one of them)",
		Body: func(x *vexp.Ctx) {
			for _, p := range progs {
				if _, ok := expected[p]; !ok {
					b, f := p.run(func() {})
					expected[p] = result(b, f)
				}
			}
			ps := []program{progs[x.P("a", 0)], progs[x.P("b", 0)]}
			done := 0
			for i, p := range ps {
				i, p := i, p
				vsched.GoNamed(fmt.Sprintf("writer%d", i), func() {
					defer func() {
						if e := recover(); e != nil {
							x.Fail("writer program panics under concurrency", "%s: %v", p, e)
						}
						done++
					}()
					for rep := 0; rep < 2; rep++ {
						b, f := p.run(func() { vsched.Yield("op") })
						if got := result(b, f); got != expected[p] {
							x.Fail("concurrent writer result differs from the sequential run", "thread %d %s round %d (other thread: %s): got %s want %s", i, p, rep, ps[1-i], clip(got), clip(expected[p]))
						}
					}
				})
			}
			vsched.Join("writers done", func() bool { return done == 2 })
			x.Outcome = "ok"
		},
	})
	_ = bytes.Equal
	_ = buffer.New
}

func clip(s string) string {
	if len(s) > 60 {
		return s[:60] + "…"
	}
	return s
}
