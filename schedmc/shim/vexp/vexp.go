// Package vexp: stateless depth-first schedule explorer with preemption / free-switch / environment-deviation
// bounds (CHESS-style iterative context bounding) over scenarios that run the real code under vsched.
package vexp

import (
	"fmt"
	"os"
	"sort"
	"strings"
	"time"

	"github.com/basecomplextech/spec/zzverif/vsched"
)

type Finding struct {
	Sig  string
	Desc string
}

// Ctx is handed to a scenario body; the body reports oracle violations and a coarse outcome label.
type Ctx struct {
	Params   map[string]int
	Findings []Finding
	Outcome  string
	Notes    []string
	finish   []func(x *Ctx)
}

func (x *Ctx) Fail(sig, format string, a ...any) {
	x.Findings = append(x.Findings, Finding{sig, fmt.Sprintf(format, a...)})
}

// P returns a scenario parameter (default d).
func (x *Ctx) P(name string, d int) int {
	if v, ok := x.Params[name]; ok {
		return v
	}
	return d
}

// AtEnd registers an oracle evaluated when the execution ends, before threads are unwound (also on deadlock).
func (x *Ctx) AtEnd(f func(x *Ctx)) { x.finish = append(x.finish, f) }

type Scenario struct {
	Name string
	Prop string
	Also []string // further properties this scenario also decides a clause of
	Doc  string
	Body func(x *Ctx)
	Fine bool // baselibrary primitives become decision points
	// Boundary: calls into the baselibrary primitives are scheduling points at their entry (their inside stays atomic)
	Boundary bool
	MaxSteps int
	// AllowDeadlock: a deadlock is reported through x (the scenario's own oracle decides), not as a generic finding
	AllowDeadlock bool
	// Configs enumerates the parameter sets for a tier (nil: one empty config)
	Configs func(thorough bool) []map[string]int
	// Bounds for a tier
	Bounds func(thorough bool) Bounds
}

var registry = map[string]*Scenario{}

func Register(s *Scenario) {
	if _, dup := registry[s.Name]; dup {
		panic("vexp: duplicate scenario " + s.Name)
	}
	registry[s.Name] = s
}

func Get(name string) *Scenario { return registry[name] }

func ByProp(prop string) []*Scenario {
	var out []*Scenario
	for _, s := range registry {
		match := s.Prop == prop
		for _, a := range s.Also {
			match = match || a == prop
		}
		if match {
			out = append(out, s)
		}
	}
	sort.Slice(out, func(i, j int) bool { return out[i].Name < out[j].Name })
	return out
}

// Bounds: P preemptions, F free switches (thread choice != default when the running thread blocked or ended),
// E environment deviations. -1 = unbounded.
type Bounds struct{ P, F, E int }

func (b Bounds) String() string {
	return fmt.Sprintf("p<=%s,f<=%s,e<=%s", inf(b.P), inf(b.F), inf(b.E))
}
func inf(v int) string {
	if v < 0 {
		return "inf"
	}
	return fmt.Sprint(v)
}

type Exec struct {
	Choices  []int
	Points   []vsched.PointRec
	Ctx      *Ctx
	Steps    int
	Deadlock bool
	Blocked  []string
	Panics   []string
	Horizon  bool
	Trace    []string
}

// RunOnce executes the scenario with the given choice prefix (defaults afterwards).
func RunOnce(sc *Scenario, params map[string]int, prefix []int, trace bool) (ex *Exec) {
	return RunPolicy(sc, params, prefix, nil, trace)
}

// RunPolicy: like RunOnce; after the prefix, policy (if non-nil) picks the alternative at point i.
func RunPolicy(sc *Scenario, params map[string]int, prefix []int, policy func(i int, p vsched.PointRec) int, trace bool) (ex *Exec) {
	x := &Ctx{Params: params}
	i := 0
	var choices []int
	cfg := vsched.Config{
		Choose: func(p vsched.PointRec) int {
			c := 0
			if i >= len(prefix) && policy != nil {
				c = policy(i, p)
			}
			if i < len(prefix) {
				c = prefix[i]
				if c >= p.N {
					panic(fmt.Sprintf("vexp: divergent replay: choice %d at point %d but only %d alternatives", c, i, p.N))
				}
			}
			i++
			choices = append(choices, c)
			return c
		},
		MaxSteps: sc.MaxSteps,
		Trace:    trace,
		Fine:     sc.Fine || forceFine,
		Boundary: sc.Boundary,
		Debug:    debugIDs,
	}
	var s *vsched.Sched
	s = vsched.RunWith(cfg, func() { sc.Body(x) }, func() {
		for _, f := range x.finish {
			f(x)
		}
	})
	return &Exec{Choices: choices, Points: s.Points, Ctx: x, Steps: s.Steps, Deadlock: s.Deadlock, Blocked: s.Blocked, Panics: s.Panics, Horizon: s.Horizon, Trace: s.Trace}
}

var debugIDs bool
var slowLog = os.Getenv("VERIF_SLOWLOG") != ""

// forceFine (VERIF_FINE=1, experiments and the fine-mode sweep of the thorough tier): every scenario runs with the
// baselibrary primitives' own locks and atomics as decision points.
var forceFine = os.Getenv("VERIF_FINE") != ""

func SetForceFine(on bool) { forceFine = on }
func ForceFine() bool      { return forceFine }

func SetDebug(on bool) { debugIDs = on }

type Violation struct {
	Sig     string         `json:"sig"`
	Desc    string         `json:"desc"`
	Scn     string         `json:"scenario"`
	Params  map[string]int `json:"params"`
	Choices []int          `json:"choices"`
	Fine    bool           `json:"fine,omitempty"` // found in the fine-mode sweep of a scenario that is not fine by itself
}

type Stats struct {
	Executions  int64
	Runs        int64
	Points      int64 // decision points seen (sum over executions)
	Steps       int64
	MaxPoints   int
	Outcomes    map[string]int64
	Violations  []Violation
	ViolationsN int64
	Horizon     int64
	Complete    bool
	Layers      int // number of complete layers: every execution with < Layers paid deviations was visited
	sigCount    map[string]int
	Nondet      []string
	DistinctEx  map[uint64]struct{}
	DeadlineHit bool
}

type Explorer struct {
	Sc       *Scenario
	Params   map[string]int
	B        Bounds
	Shard    int
	NShards  int
	Split    int
	Deadline time.Time
	MaxExec  int64
	St       *Stats
	layer    int  // current layer of the iterative deviation bounding
	more     bool // a successor beyond the current layer exists
	stop     bool
}

type cost struct{ p, f, e int }

func (e *Explorer) within(c cost) bool {
	return (e.B.P < 0 || c.p <= e.B.P) && (e.B.F < 0 || c.f <= e.B.F) && (e.B.E < 0 || c.e <= e.B.E)
}

func NewStats() *Stats {
	return &Stats{Outcomes: map[string]int64{}, sigCount: map[string]int{}, Complete: true, DistinctEx: map[uint64]struct{}{}}
}

// Explore enumerates every execution within the bounds (this shard's part of it), by iterative deviation bounding:
// layer k visits exactly the executions with k paid deviations (preemptions + environment deviations, plus free
// switches where those are bounded); layer k+1 starts when layer k is complete.  A run that hits its deadline has
// therefore covered ALL executions up to St.Layers-1 paid deviations and part of the next layer.  Upper levels are
// re-executed in every layer (stateless search); the space grows fast enough with k that this costs a few percent.
func (e *Explorer) Explore() {
	if e.St == nil {
		e.St = NewStats()
	}
	if e.NShards <= 0 {
		e.NShards = 1
	}
	for e.layer = 0; ; e.layer++ {
		e.more = false
		e.explore(nil, cost{}, 0)
		if e.stop {
			e.St.Complete = false
			return
		}
		e.St.Layers = e.layer + 1
		if !e.more {
			return
		}
	}
}

// paid: the deviations that count against a finite bound.
func (e *Explorer) paid(c cost) int {
	n := 0
	if e.B.P >= 0 {
		n += c.p
	}
	if e.B.E >= 0 {
		n += c.e
	}
	if e.B.F >= 0 {
		n += c.f
	}
	return n
}

// mine: ownership of a node by the hash of its choice prefix (the same in every layer and in every shard).
func (e *Explorer) mine(prefix []int) bool {
	if e.NShards <= 1 {
		return true
	}
	h := uint64(14695981039346656037)
	for i, c := range prefix {
		if c != 0 {
			h = (h ^ uint64(i)*2654435761 ^ uint64(c)<<40) * 1099511628211
		}
	}
	h ^= h >> 29
	return int(h%uint64(e.NShards)) == e.Shard
}

func (e *Explorer) explore(prefix []int, used cost, depth int) {
	if e.stop {
		return
	}
	owner := true
	if depth <= e.Split {
		owner = e.mine(prefix)
		if depth == e.Split && !owner {
			return // another shard owns this subtree
		}
	}
	if !e.Deadline.IsZero() && time.Now().After(e.Deadline) || (e.MaxExec > 0 && e.St.Executions >= e.MaxExec) {
		e.stop = true
		e.St.DeadlineHit = true
		return
	}
	t0 := time.Now()
	x := RunOnce(e.Sc, e.Params, prefix, false)
	e.St.Runs++
	if d := time.Since(t0); d > 50*time.Millisecond && slowLog {
		fmt.Printf("SLOW run %v steps=%d points=%d horizon=%v deadlock=%v prefixlen=%d depth=%d\n", d, x.Steps, len(x.Points), x.Horizon, x.Deadlock, len(prefix), depth)
	}
	if owner && e.paid(used) == e.layer {
		e.record(x)
	}
	for i := len(prefix); i < len(x.Points); i++ {
		p := x.Points[i]
		for alt := 1; alt < p.N; alt++ {
			c := used
			switch {
			case p.Kind == 'e':
				c.e++
			case p.CurEnabled:
				c.p++
			default:
				c.f++
			}
			if !e.within(c) {
				continue
			}
			if e.paid(c) > e.layer {
				e.more = true // belongs to a later layer
				continue
			}
			np := make([]int, i+1)
			copy(np, x.Choices[:i])
			np[i] = alt
			e.explore(np, c, depth+1)
			if e.stop {
				return
			}
		}
	}
}

func (e *Explorer) record(x *Exec) {
	st := e.St
	st.Executions++
	st.Points += int64(len(x.Points))
	st.Steps += int64(x.Steps)
	if len(x.Points) > st.MaxPoints {
		st.MaxPoints = len(x.Points)
	}
	var fs []Finding
	fs = append(fs, x.Ctx.Findings...)
	if x.Horizon {
		st.Horizon++
	}
	if x.Deadlock && !e.Sc.AllowDeadlock {
		fs = append(fs, Finding{"deadlock: " + blockedSig(x.Blocked), fmt.Sprintf("no enabled thread; blocked: %v", x.Blocked)})
	}
	for _, p := range x.Panics {
		first := p
		if i := strings.Index(p, "\n"); i > 0 {
			first = p[:i]
		}
		fs = append(fs, Finding{"uncaught panic in a library goroutine: " + normalize(first), p})
	}
	out := x.Ctx.Outcome
	if x.Deadlock {
		out += " DEADLOCK"
	}
	if x.Horizon {
		out += " HORIZON"
	}
	if len(fs) > 0 {
		out += " VIOLATION"
	}
	st.Outcomes[out]++
	for _, f := range fs {
		st.ViolationsN++
		st.sigCount[f.Sig]++
		if st.sigCount[f.Sig] > 1 || len(st.Violations) >= 100 {
			continue
		}
		// confirm determinism: the same choice list must reproduce the same finding, twice
		for k := 0; k < 2; k++ {
			y := RunOnce(e.Sc, e.Params, x.Choices, false)
			if !sameFindings(y, x) {
				st.Nondet = append(st.Nondet, fmt.Sprintf("scenario %s: finding %q did not reproduce on replay %d of choices %v", e.Sc.Name, f.Sig, k+1, x.Choices))
			}
		}
		st.Violations = append(st.Violations, Violation{Sig: f.Sig, Desc: f.Desc, Scn: e.Sc.Name, Params: e.Params, Choices: append([]int{}, x.Choices...), Fine: forceFine && !e.Sc.Fine})
	}
}

func sameFindings(a, b *Exec) bool {
	if len(a.Ctx.Findings) != len(b.Ctx.Findings) || a.Deadlock != b.Deadlock || len(a.Panics) != len(b.Panics) || len(a.Points) != len(b.Points) {
		return false
	}
	for i := range a.Ctx.Findings {
		if a.Ctx.Findings[i].Sig != b.Ctx.Findings[i].Sig {
			return false
		}
	}
	for i := range a.Points {
		if a.Points[i].N != b.Points[i].N || a.Points[i].Kind != b.Points[i].Kind {
			return false
		}
	}
	return true
}

func blockedSig(bl []string) string {
	var out []string
	for _, b := range bl {
		// "id:name@what" -> "name@what"
		if i := strings.Index(b, ":"); i >= 0 {
			b = b[i+1:]
		}
		out = append(out, b)
	}
	sort.Strings(out)
	return strings.Join(out, ",")
}

func normalize(s string) string {
	out := make([]byte, 0, len(s))
	lastDigit := false
	for i := 0; i < len(s); i++ {
		c := s[i]
		if c >= '0' && c <= '9' {
			if !lastDigit {
				out = append(out, '#')
			}
			lastDigit = true
			continue
		}
		lastDigit = false
		out = append(out, c)
	}
	if len(out) > 200 {
		out = out[:200]
	}
	return string(out)
}
