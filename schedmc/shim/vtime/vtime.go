// Package vtime replaces the time functions that create timers or read the clock in instrumented packages.
// Under the scheduler the clock is virtual: a timer fires only when no thread is enabled (earliest first).
package vtime

import (
	"time"

	"github.com/basecomplextech/spec/zzverif/vsched"
)

type Timer struct {
	C      <-chan time.Time
	c      chan time.Time
	cancel func() bool
	real   *time.Timer
}

func NewTimer(d time.Duration) *Timer {
	if !vsched.On() {
		rt := time.NewTimer(d)
		return &Timer{C: rt.C, real: rt}
	}
	c := make(chan time.Time, 1)
	t := &Timer{C: c, c: c}
	t.cancel = vsched.AddTimer(int64(d), func() {
		select {
		case c <- time.Unix(0, vsched.NowNanos()):
		default:
		}
	})
	return t
}

func (t *Timer) Stop() bool {
	if t.real != nil {
		return t.real.Stop()
	}
	return t.cancel()
}

func After(d time.Duration) <-chan time.Time { return NewTimer(d).C }

func AfterFunc(d time.Duration, f func()) *Timer {
	if !vsched.On() {
		rt := time.AfterFunc(d, f)
		return &Timer{real: rt}
	}
	t := &Timer{}
	t.cancel = vsched.AddTimer(int64(d), func() { vsched.GoFromController("timer-func", f) })
	return t
}

func Sleep(d time.Duration) {
	if !vsched.On() {
		time.Sleep(d)
		return
	}
	vsched.Recv(After(d))
}

func Now() time.Time {
	if !vsched.On() {
		return time.Now()
	}
	return time.Unix(0, vsched.NowNanos())
}

func Since(t time.Time) time.Duration { return Now().Sub(t) }
