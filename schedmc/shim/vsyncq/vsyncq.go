// Package vsyncq replaces "sync" in instrumented baselibrary packages (quiet variant: yields only when blocked, or always in fine mode).
package vsyncq

import (
	"sync"

	"github.com/basecomplextech/spec/zzverif/vsched"
)

const decision = false

type (
	Locker    = sync.Locker
	WaitGroup = sync.WaitGroup
)

// Map replaces sync.Map with a deterministic model (the real one iterates in the runtime's randomised map order,
// a source of nondeterminism the explorer would not own). Entries are kept in insertion order; every method is one
// atomic step and a scheduling point; Range walks a snapshot of the keys taken at its start and visits a key if it is
// still present when its turn comes, with the value it has then, yielding between visits. That is one of the
// behaviours sync.Map allows: no key is visited twice, a key present throughout is visited, concurrent stores and
// deletes may or may not be seen.
type Map struct {
	mu   sync.Mutex
	keys []any
	vals map[any]any
}

func (m *Map) step(op string) {
	if vsched.On() {
		vsched.Wait(decision, op, nil)
	}
}

func (m *Map) Load(key any) (any, bool) {
	m.step("map.load")
	m.mu.Lock()
	defer m.mu.Unlock()
	v, ok := m.vals[key]
	return v, ok
}

func (m *Map) put(key, value any) {
	if m.vals == nil {
		m.vals = map[any]any{}
	}
	if _, ok := m.vals[key]; !ok {
		m.keys = append(m.keys, key)
	}
	m.vals[key] = value
}

func (m *Map) del(key any) {
	delete(m.vals, key)
	for i, k := range m.keys {
		if k == key {
			m.keys = append(m.keys[:i:i], m.keys[i+1:]...)
			return
		}
	}
}

func (m *Map) Store(key, value any) {
	m.step("map.store")
	m.mu.Lock()
	defer m.mu.Unlock()
	m.put(key, value)
}

func (m *Map) LoadOrStore(key, value any) (any, bool) {
	m.step("map.loadorstore")
	m.mu.Lock()
	defer m.mu.Unlock()
	if v, ok := m.vals[key]; ok {
		return v, true
	}
	m.put(key, value)
	return value, false
}

func (m *Map) LoadAndDelete(key any) (any, bool) {
	m.step("map.loadanddelete")
	m.mu.Lock()
	defer m.mu.Unlock()
	v, ok := m.vals[key]
	if ok {
		m.del(key)
	}
	return v, ok
}

func (m *Map) Delete(key any) { m.LoadAndDelete(key) }

func (m *Map) Swap(key, value any) (any, bool) {
	m.step("map.swap")
	m.mu.Lock()
	defer m.mu.Unlock()
	v, ok := m.vals[key]
	m.put(key, value)
	return v, ok
}

func (m *Map) CompareAndSwap(key, old, new any) bool {
	m.step("map.cas")
	m.mu.Lock()
	defer m.mu.Unlock()
	if v, ok := m.vals[key]; ok && v == old {
		m.vals[key] = new
		return true
	}
	return false
}

func (m *Map) CompareAndDelete(key, old any) bool {
	m.step("map.cad")
	m.mu.Lock()
	defer m.mu.Unlock()
	if v, ok := m.vals[key]; ok && v == old {
		m.del(key)
		return true
	}
	return false
}

func (m *Map) Clear() {
	m.step("map.clear")
	m.mu.Lock()
	defer m.mu.Unlock()
	m.keys, m.vals = nil, nil
}

func (m *Map) Range(f func(key, value any) bool) {
	m.step("map.range")
	m.mu.Lock()
	keys := append([]any(nil), m.keys...)
	m.mu.Unlock()
	for i, k := range keys {
		if i > 0 {
			m.step("map.range.next")
		}
		m.mu.Lock()
		v, ok := m.vals[k]
		m.mu.Unlock()
		if ok && !f(k, v) {
			return
		}
	}
}

type Once struct {
	done bool
	mu   Mutex
	real sync.Once
}

func (o *Once) Do(f func()) {
	if !vsched.On() {
		o.real.Do(func() { o.done = true; f() })
		return
	}
	o.mu.Lock()
	defer o.mu.Unlock()
	if !o.done {
		defer func() { o.done = true }()
		f()
	}
}

type Mutex struct {
	mu   sync.Mutex
	held bool
}

func (m *Mutex) Lock() {
	if vsched.On() {
		vsched.Wait(decision, "mutex.lock", func() bool { return !m.held })
		m.held = true
		return
	}
	m.mu.Lock()
	m.held = true
}

func (m *Mutex) TryLock() bool {
	if vsched.On() {
		vsched.Wait(decision, "mutex.trylock", nil)
		if m.held {
			return false
		}
		m.held = true
		return true
	}
	ok := m.mu.TryLock()
	if ok {
		m.held = true
	}
	return ok
}

func (m *Mutex) Unlock() {
	if vsched.On() {
		if !m.held {
			panic("vsync: unlock of unlocked mutex")
		}
		m.held = false
		return
	}
	m.held = false
	m.mu.Unlock()
}

type RWMutex struct {
	mu      sync.RWMutex
	writer  bool
	readers int
}

func (m *RWMutex) Lock() {
	if vsched.On() {
		vsched.Wait(decision, "rw.lock", func() bool { return !m.writer && m.readers == 0 })
		m.writer = true
		return
	}
	m.mu.Lock()
}
func (m *RWMutex) Unlock() {
	if vsched.On() {
		m.writer = false
		return
	}
	m.mu.Unlock()
}
func (m *RWMutex) RLock() {
	if vsched.On() {
		vsched.Wait(decision, "rw.rlock", func() bool { return !m.writer })
		m.readers++
		return
	}
	m.mu.RLock()
}
func (m *RWMutex) RUnlock() {
	if vsched.On() {
		m.readers--
		return
	}
	m.mu.RUnlock()
}
func (m *RWMutex) TryLock() bool {
	if vsched.On() {
		vsched.Wait(decision, "rw.trylock", nil)
		if m.writer || m.readers > 0 {
			return false
		}
		m.writer = true
		return true
	}
	return m.mu.TryLock()
}
func (m *RWMutex) RLocker() sync.Locker { panic("vsync: RLocker unsupported") }

// Pool is a deterministic LIFO pool: Get returns the most recently released object (the adversarial order for
// state-leak bugs); it is emptied at the start of every execution.
type Pool struct {
	New   func() any
	mu    sync.Mutex
	items []any
	reg   int64 // execution in which the pool registered its reset
}

func (p *Pool) register() {
	if seq := vsched.ExecSeq() + 1; p.reg != seq {
		p.reg = seq
		vsched.OnReset(func() { p.mu.Lock(); p.items = nil; p.mu.Unlock() })
	}
}

func (p *Pool) Get() any {
	vsched.Wait(decision, "pool.get", nil) // a scheduling point in decision/fine mode
	p.mu.Lock()
	p.register()
	if n := len(p.items); n > 0 {
		v := p.items[n-1]
		p.items = p.items[:n-1]
		p.mu.Unlock()
		return v
	}
	p.mu.Unlock() // New may reach a scheduling point: never hold the real mutex across it
	if p.New != nil {
		return p.New()
	}
	return nil
}

func (p *Pool) Put(v any) {
	vsched.Wait(decision, "pool.put", nil)
	p.mu.Lock()
	p.register()
	p.items = append(p.items, v)
	p.mu.Unlock()
	vsched.Wait(decision, "pool.put.done", nil) // the object is now visible to other threads
}
