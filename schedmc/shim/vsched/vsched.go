// Package vsched: cooperative controlled scheduler for exhaustive schedule exploration of the real mpx/rpc code.
//
// One controlled thread runs at a time. Every shim operation (mutex, atomic, channel, select, transport I/O,
// virtual timer) calls Wait: a *decision* point always yields to the controller, a *quiet* point yields only if
// its guard is false. The controller evaluates guards, so a resumed thread never blocks for real; "no enabled
// thread while a non-daemon thread is unfinished" is a precise deadlock verdict. All nondeterminism (which
// thread runs, which ready select case fires, environment answers) is resolved through the Chooser, so an
// execution is a pure function of its choice list.
package vsched

import (
	"fmt"
	"reflect"
	"runtime"
	"runtime/debug"
	"sort"
	"strings"
)

type Thread struct {
	ID     int
	Name   string
	Daemon bool
	resume chan struct{}
	guard  func() bool
	What   string
	done   bool
	idle   bool // parked in an idle wait (pool worker waiting for a task): not counted as unfinished work
	gid    uint64
	// channel receive this thread is (about to be) blocked in, for direct hand-off by a sender
	waitOps  []Op
	assigned uintptr // channel a sender handed a value to this blocked receiver on (0: none)
	parkSeq  int64
	inQuiet  bool // boundary mode: the thread is inside a run of quiet operations (no scheduling point until it ends)
}

// PointRec describes one point where more than one alternative existed.
type PointRec struct {
	Kind       byte // 't' thread choice, 'e' environment choice
	N          int  // number of alternatives
	CurEnabled bool // thread points: the running thread was still enabled (choosing another = preemption)
	Chosen     int
	What       string
}

type Sched struct {
	threads  []*Thread
	cur      *Thread
	last     *Thread
	ctl      chan struct{}
	choose   func(p PointRec) int
	Steps    int
	Points   []PointRec
	Panics   []string // uncaught panics that escaped a controlled thread (would crash the process)
	Deadlock bool
	Blocked  []string
	Horizon  bool // step horizon reached: execution abandoned (incomplete, not a verdict)
	MaxSteps int
	Trace    []string
	tracing  bool
	timers   []*vtimer
	Now      int64 // virtual nanoseconds
	seq      int
	Fine     bool // quiet shims become decision points
	Boundary bool // the first quiet operation after a decision-level operation of the same thread is a scheduling point
	abort    bool
	OnFinish func() // called once when the execution ends (before unwinding)
	ids      int64
}

type vtimer struct {
	at    int64
	seq   int
	fire  func()
	fired bool
	dead  bool
}

// S is the active execution (nil when the scheduler is off).
var S *Sched

var resets []func()
var execSeq int64

// OnReset registers a function that is run once, at the start of the NEXT execution (pools used during an
// execution register themselves and are emptied before the following one; see ExecSeq).
func OnReset(f func()) { resets = append(resets, f) }

// ExecSeq numbers executions; an object that must be reset between executions re-registers when it changes.
func ExecSeq() int64 { return execSeq }

// On reports whether a controlled execution is active on the calling goroutine's behalf.
func On() bool { return S != nil && S.cur != nil }

type Config struct {
	Choose   func(p PointRec) int
	MaxSteps int
	Trace    bool
	Fine     bool
	Boundary bool
	Debug    bool // verify goroutine identity at every shim call
}

var debugIDs bool

// Run executes body as thread 0 under the scheduler until every non-daemon thread is done, or deadlock/horizon.
func Run(cfg Config, body func()) *Sched { return RunWith(cfg, body, nil) }

// RunWith is Run with a hook called once when the execution ends, before the remaining threads are unwound.
func RunWith(cfg Config, body func(), onFinish func()) *Sched {
	rs := resets
	resets = nil
	for _, f := range rs {
		f()
	}
	execSeq++
	resetChans()
	parkSeq = 0
	s := &Sched{ctl: make(chan struct{}), choose: cfg.Choose, MaxSteps: cfg.MaxSteps, tracing: cfg.Trace, Fine: cfg.Fine, Boundary: cfg.Boundary, OnFinish: onFinish}
	if s.MaxSteps == 0 {
		s.MaxSteps = 20000
	}
	debugIDs = cfg.Debug
	S = s
	t0 := s.newThread("main", false)
	go s.threadMain(t0, body)
	s.loop()
	S = nil
	return s
}

func (s *Sched) newThread(name string, daemon bool) *Thread {
	t := &Thread{ID: len(s.threads), Name: name, Daemon: daemon, resume: make(chan struct{})}
	s.threads = append(s.threads, t)
	return t
}

func (s *Sched) threadMain(t *Thread, body func()) {
	<-t.resume
	if debugIDs {
		t.gid = goid()
	}
	defer func() {
		// recover() is nil when the thread is unwound with runtime.Goexit (end of execution)
		if e := recover(); e != nil {
			t.What = fmt.Sprintf("PANIC: %v", e)
			if !s.abort {
				s.Panics = append(s.Panics, fmt.Sprintf("thread %d (%s): %v\n%s", t.ID, t.Name, e, trimStack(debug.Stack())))
			}
		}
		t.done = true
		s.cur = nil
		s.ctl <- struct{}{}
	}()
	if s.abort {
		return
	}
	body()
}

func trimStack(b []byte) string {
	lines := strings.Split(string(b), "\n")
	var out []string
	for i := 0; i < len(lines); i++ {
		l := lines[i]
		if strings.Contains(l, "runtime/debug.Stack") || strings.Contains(l, "vsched.(*Sched).threadMain") || strings.Contains(l, "runtime/panic.go") || strings.HasPrefix(l, "panic(") {
			i++
			continue
		}
		out = append(out, l)
		if len(out) > 24 {
			break
		}
	}
	return strings.Join(out, "\n")
}

func enabled(t *Thread) bool { return t.guard == nil || t.guard() }

func (s *Sched) loop() {
	for {
		var en []*Thread
		curEnabled := false
		alive := 0
		// canonical order: last-running first if enabled, then ascending ids
		if s.last != nil && !s.last.done && enabled(s.last) {
			en = append(en, s.last)
			curEnabled = true
		}
		for _, t := range s.threads {
			if t.done {
				continue
			}
			en1 := enabled(t)
			if !(t.idle && !en1) {
				alive++
			}
			if t == s.last {
				continue
			}
			if en1 {
				en = append(en, t)
			}
		}
		if s.abort {
			// drain: let every parked thread unwind
			var rest []*Thread
			for _, t := range s.threads {
				if !t.done {
					rest = append(rest, t)
				}
			}
			if len(rest) == 0 {
				return
			}
			t := rest[0]
			s.cur = t
			t.resume <- struct{}{}
			<-s.ctl
			continue
		}
		if alive == 0 {
			// only idle pool workers left: quiescent
			s.finish()
			continue
		}
		if len(en) == 0 {
			if s.fireTimer() {
				continue
			}
			s.Deadlock = true
			for _, t := range s.threads {
				if !t.done && !t.idle {
					s.Blocked = append(s.Blocked, fmt.Sprintf("%d:%s@%s", t.ID, t.Name, t.What))
				}
			}
			s.finish()
			continue
		}
		if s.Steps >= s.MaxSteps {
			s.Horizon = true
			s.finish()
			continue
		}
		c := 0
		if len(en) > 1 {
			p := PointRec{Kind: 't', N: len(en), CurEnabled: curEnabled}
			if s.tracing {
				p.What = en[0].What
			}
			c = s.choose(p)
			if c < 0 || c >= len(en) {
				panic(fmt.Sprintf("vsched: thread choice %d out of range %d (divergent replay)", c, len(en)))
			}
			p.Chosen = c
			s.Points = append(s.Points, p)
		}
		t := en[c]
		if s.tracing {
			s.Trace = append(s.Trace, fmt.Sprintf("T%d(%s) %s [enabled %d]", t.ID, t.Name, t.What, len(en)))
		}
		s.Steps++
		s.cur = t
		s.last = t
		t.resume <- struct{}{}
		<-s.ctl
	}
}

// finish ends the execution: the verdict hook runs first (state is still intact), then every parked thread is
// resumed and unwinds with runtime.Goexit (deferred calls run, recover() sees nothing), so goroutines do not leak.
func (s *Sched) finish() {
	if s.OnFinish != nil {
		s.OnFinish()
		s.OnFinish = nil
	}
	s.abort = true
}

// Wait is a scheduling point. decision=false and guard true => continue without yielding (quiet point).
func Wait(decision bool, what string, guard func() bool) {
	s := S
	if s == nil || s.cur == nil {
		return
	}
	if debugIDs {
		if g := goid(); g != s.cur.gid {
			fmt.Printf("vsched: FOREIGN GOROUTINE %d executes shim op %q while thread %d (goroutine %d) is current\n%s\n", g, what, s.cur.ID, s.cur.gid, debug.Stack())
			panic("vsched: foreign goroutine")
		}
	}
	if s.abort {
		// unwinding: run straight through; anything that would block ends the goroutine
		if guard == nil || guard() {
			return
		}
		runtime.Goexit()
	}
	if !decision && !s.Fine && (guard == nil || guard()) {
		// Boundary mode: a run of quiet operations (the inside of a primitive of the dependency) stays atomic, but its
		// first operation is a scheduling point, so another thread can run between a decision-level operation of the
		// caller (a flag check, a reference count) and the primitive call that follows it.
		if !s.Boundary || s.cur.inQuiet {
			return
		}
		s.cur.inQuiet = true
	} else if decision || s.Fine {
		s.cur.inQuiet = false
	}
	t := s.cur
	t.guard = guard
	t.What = what
	s.cur = nil
	s.ctl <- struct{}{}
	<-t.resume
	t.guard = nil
	if s.abort {
		runtime.Goexit()
	}
}

// Choose resolves an environment choice among n alternatives (0 is the default answer).
func Choose(n int, what string) int {
	s := S
	if s == nil || s.cur == nil || n <= 1 || s.abort {
		return 0
	}
	p := PointRec{Kind: 'e', N: n, What: what}
	c := s.choose(p)
	if c < 0 || c >= n {
		panic(fmt.Sprintf("vsched: env choice %d out of range %d (divergent replay)", c, n))
	}
	p.Chosen = c
	s.Points = append(s.Points, p)
	if s.tracing {
		s.Trace = append(s.Trace, fmt.Sprintf("T%d env %s -> %d/%d", s.cur.ID, what, c, n))
	}
	return c
}

// Go starts fn as a new controlled thread.
func Go(fn func()) { goNamed("go", false, fn) }

// GoDaemon starts a thread whose being parked forever is not a deadlock (pool workers).
func GoDaemon(fn func()) { goNamed("daemon", true, fn) }

// GoNamed starts a named controlled thread (harness).
func GoNamed(name string, fn func()) { goNamed(name, false, fn) }

func goNamed(name string, daemon bool, fn func()) {
	s := S
	if s == nil || s.cur == nil {
		go fn()
		return
	}
	if s.abort {
		return // execution is over: do not start new threads while unwinding
	}
	t := s.newThread(name, daemon)
	go s.threadMain(t, fn)
}

// Join blocks the calling thread until cond holds (harness helper; a quiet point).
func Join(what string, cond func() bool) { Wait(false, what, cond) }

// Yield is an explicit decision point (harness).
func Yield(what string) { Wait(true, what, nil) }

// CurrentID returns the id of the running thread (or -1).
func CurrentID() int {
	if S == nil || S.cur == nil {
		return -1
	}
	return S.cur.ID
}

// virtual time ------------------------------------------------------------------------------------------

// AddTimer registers fire to run (on the controller, with all threads parked) when virtual time reaches now+d.
// Timers fire only when no thread is enabled, earliest first.
func AddTimer(d int64, fire func()) (cancel func() bool) {
	s := S
	if s == nil {
		panic("vsched: AddTimer outside an execution")
	}
	s.seq++
	t := &vtimer{at: s.Now + d, seq: s.seq, fire: fire}
	s.timers = append(s.timers, t)
	return func() bool {
		if t.fired || t.dead {
			return false
		}
		t.dead = true
		return true
	}
}

func (s *Sched) fireTimer() bool {
	var live []*vtimer
	for _, t := range s.timers {
		if !t.fired && !t.dead {
			live = append(live, t)
		}
	}
	s.timers = live
	if len(live) == 0 {
		return false
	}
	sort.Slice(live, func(i, j int) bool {
		if live[i].at != live[j].at {
			return live[i].at < live[j].at
		}
		return live[i].seq < live[j].seq
	})
	t := live[0]
	t.fired = true
	if t.at > s.Now {
		s.Now = t.at
	}
	if s.tracing {
		s.Trace = append(s.Trace, fmt.Sprintf("timer fires at %dms", s.Now/1e6))
	}
	t.fire()
	return true
}

// NowNanos returns the virtual clock.
func NowNanos() int64 {
	if S == nil {
		return 0
	}
	return S.Now
}

// channel ops --------------------------------------------------------------------------------------------

type Op struct {
	ch   reflect.Value
	send bool
}

func R(ch any) Op  { return Op{reflect.ValueOf(ch), false} }
func S_(ch any) Op { return Op{reflect.ValueOf(ch), true} }

// Channels made by instrumented code (MakeChan) have a LOGICAL capacity and some physical slack. Go hands a sent
// value directly to a receiver that is already blocked on the channel, whatever the buffer holds; the threads of
// this scheduler are parked outside the runtime's channel queues, so the hand-off is modelled here: a send is
// possible when the logical buffer has room OR a receiver is blocked on the channel; in the second case the value
// is reserved for that receiver (FIFO by blocking order) and physically travels through the slack.
type chanInfo struct {
	lcap     int
	reserved int
	perm     bool
}

const chanSlack = 64

var chans = map[uintptr]*chanInfo{}
var chansRegistered bool

// MakeChan replaces make(chan T[, n]) in instrumented code.
func MakeChan[T any](n ...int) chan T {
	c := 0
	if len(n) > 0 {
		c = n[0]
	}
	ch := make(chan T, c+chanSlack)
	chans[reflect.ValueOf(ch).Pointer()] = &chanInfo{lcap: c, perm: S == nil || execSeq <= 1}
	if !chansRegistered {
		chansRegistered = true
	}
	return ch
}

// resetChans forgets the channels of the previous execution (those made outside executions or during the warm-up
// execution may be long-lived globals and are kept).
func resetChans() {
	for k, ci := range chans {
		if !ci.perm {
			delete(chans, k)
		} else {
			ci.reserved = 0
		}
	}
}

func chanKey(op Op) uintptr { return op.ch.Pointer() }

func info(op Op) *chanInfo {
	if !op.ch.IsValid() || op.ch.IsNil() {
		return nil
	}
	return chans[chanKey(op)]
}

// readyShallow: readiness by buffer state only (no hand-off): used to decide whether another thread is blocked.
func readyShallow(t *Thread, op Op) bool {
	if !op.ch.IsValid() || op.ch.IsNil() {
		return false
	}
	ci := info(op)
	res := 0
	if ci != nil {
		res = ci.reserved
	}
	if op.send {
		if ci == nil {
			return op.ch.Len() < op.ch.Cap()
		}
		return op.ch.Len()-res < ci.lcap
	}
	if t != nil && t.assigned != 0 && t.assigned == chanKey(op) {
		return true
	}
	if op.ch.Len()-res > 0 {
		return true
	}
	if op.ch.Len() > 0 {
		return false // everything in the buffer is reserved for earlier blocked receivers
	}
	if op.ch.Type().ChanDir()&reflect.RecvDir == 0 {
		return false
	}
	// empty: ready only if closed. Probe without consuming (all threads are parked or this is the running thread).
	x, ok := op.ch.TryRecv()
	if !ok && x.IsValid() {
		return true // closed
	}
	if ok {
		panic("vsched: consumed a value while probing an empty channel")
	}
	return false
}

// blockedReceiver returns the longest-blocked thread (other than t) that is blocked in a receive on the channel.
func blockedReceiver(t *Thread, key uintptr) *Thread {
	if S == nil {
		return nil
	}
	var best *Thread
	for _, u := range S.threads {
		if u == t || u.done || u.assigned != 0 || u.guard == nil || len(u.waitOps) == 0 {
			continue
		}
		waits := false
		for _, o := range u.waitOps {
			if !o.send && o.ch.IsValid() && !o.ch.IsNil() && o.ch.Pointer() == key {
				waits = true
			}
		}
		if !waits {
			continue
		}
		blocked := true
		for _, o := range u.waitOps {
			if readyShallow(u, o) {
				blocked = false
			}
		}
		if blocked && (best == nil || u.parkSeq < best.parkSeq) {
			best = u
		}
	}
	return best
}

func ready(op Op) bool {
	var t *Thread
	if S != nil {
		t = S.cur
	}
	return readyFor(t, op)
}

func readyFor(t *Thread, op Op) bool {
	if !op.ch.IsValid() || op.ch.IsNil() {
		return false
	}
	if readyShallow(t, op) {
		return true
	}
	if op.send {
		ci := info(op)
		if ci == nil {
			if op.ch.Cap() == 0 {
				panic("vsched: send on a rendezvous channel that was not made by instrumented code is not modelled")
			}
			return false
		}
		return blockedReceiver(t, chanKey(op)) != nil
	}
	return false
}

func anyReadyFor(t *Thread, ops []Op) bool {
	for _, op := range ops {
		if readyFor(t, op) {
			return true
		}
	}
	return false
}

// commit does the book-keeping of the operation thread t is about to perform for real.
func commit(t *Thread, op Op) {
	ci := info(op)
	if ci == nil {
		return
	}
	key := chanKey(op)
	if op.send {
		if op.ch.Len()-ci.reserved < ci.lcap {
			if u := blockedReceiver(t, key); u == nil {
				return // plain buffered send
			}
		}
		u := blockedReceiver(t, key)
		if u == nil {
			panic("vsched: send committed with neither buffer space nor a blocked receiver")
		}
		if op.ch.Len() >= op.ch.Cap() {
			panic("vsched: channel slack exhausted (more hand-offs pending than chanSlack)")
		}
		u.assigned = key
		ci.reserved++
		return
	}
	if t != nil && t.assigned == key {
		t.assigned = 0
		ci.reserved--
	}
}

func pickFor(t *Thread, ops []Op, what string) int {
	// a receiver that was handed a value takes exactly that case
	if t != nil && t.assigned != 0 {
		for i, op := range ops {
			if !op.send && op.ch.IsValid() && !op.ch.IsNil() && chanKey(op) == t.assigned {
				commit(t, op)
				return i
			}
		}
	}
	var rd []int
	for i, op := range ops {
		if readyFor(t, op) {
			rd = append(rd, i)
		}
	}
	if len(rd) == 0 {
		if S != nil && S.abort {
			runtime.Goexit()
		}
		panic("vsched: select resumed with nothing ready")
	}
	i := rd[0]
	if len(rd) > 1 {
		// Go picks uniformly among ready cases: an explorable environment choice
		i = rd[Choose(len(rd), what)]
	}
	commit(t, ops[i])
	return i
}

// Select blocks until a case is ready and returns its index; the choice among ready cases is explorable.
func Select(ops ...Op) int { return sel(true, ops) }

// SelectQ is the quiet variant (baselibrary): yields only when nothing is ready.
func SelectQ(ops ...Op) int { return sel(false, ops) }

func sel(decision bool, ops []Op) int {
	if !On() {
		for {
			for i, op := range ops {
				if readyFor(nil, op) {
					return i
				}
			}
			runtime.Gosched()
		}
	}
	t := S.cur
	// phase 1: the decision point BEFORE the select executes. The channel operands are already evaluated (a
	// channel obtained from a WaitX() call may be stale by the time the thread really blocks), but the thread is
	// not yet queued on any channel: a sender that runs now finds no blocked receiver here.
	Wait(decision, "select", nil)
	// phase 2: the select executes; if nothing is ready the thread blocks and is a receiver for hand-offs
	if !anyReadyFor(t, ops) {
		park(t, ops)
		Wait(false, "select", func() bool { return anyReadyFor(t, ops) })
		t.waitOps = nil
	}
	return pickFor(t, ops, "select-case")
}

var parkSeq int64

func park(t *Thread, ops []Op) {
	parkSeq++
	t.parkSeq = parkSeq
	t.waitOps = ops
}

// SelectDefault returns the index of a ready case or -1 (select with default).
func SelectDefault(ops ...Op) int {
	if !On() {
		for i, op := range ops {
			if readyFor(nil, op) {
				return i
			}
		}
		return -1
	}
	t := S.cur
	if !anyReadyFor(t, ops) {
		return -1
	}
	return pickFor(t, ops, "select-default-case")
}

func SelectDefaultQ(ops ...Op) int { return SelectDefault(ops...) }

func recvWait(decision bool, what string, ch any) {
	op := R(ch)
	t := S.cur
	Wait(decision, what, nil) // decision point before the receive executes (not yet queued on the channel)
	if !readyFor(t, op) {
		park(t, []Op{op})
		Wait(false, what, func() bool { return readyFor(t, op) })
		t.waitOps = nil
	}
	commit(t, op)
}

func Recv[T any](ch <-chan T) T {
	if On() {
		recvWait(true, "recv", ch)
	}
	return <-ch
}

func RecvQ[T any](ch <-chan T) T {
	if On() {
		recvWait(false, "recv", ch)
	}
	return <-ch
}

func Recv2[T any](ch <-chan T) (T, bool) {
	if On() {
		recvWait(true, "recv", ch)
	}
	v, ok := <-ch
	return v, ok
}

// Recv2Idle is the receive of a pool worker waiting for its next task: being parked here is idleness, not a
// deadlock and not unfinished work.
func Recv2Idle[T any](ch <-chan T) (T, bool) {
	if On() {
		t := S.cur
		t.idle = true
		recvWait(false, "idle", ch)
		t.idle = false
	}
	v, ok := <-ch
	return v, ok
}

func Recv2Q[T any](ch <-chan T) (T, bool) {
	if On() {
		recvWait(false, "recv", ch)
	}
	v, ok := <-ch
	return v, ok
}

func sendWait(decision bool, ch any) {
	op := Op{reflect.ValueOf(ch), true}
	t := S.cur
	Wait(decision, "send", func() bool { return readyFor(t, op) })
	commit(t, op)
}

func Send[T any](ch chan<- T, v T) {
	if On() {
		sendWait(true, ch)
	}
	ch <- v
}

func SendQ[T any](ch chan<- T, v T) {
	if On() {
		sendWait(false, ch)
	}
	ch <- v
}

func goid() uint64 {
	var buf [64]byte
	n := runtime.Stack(buf[:], false)
	// "goroutine 123 ["
	var id uint64
	for _, c := range buf[10:n] {
		if c < '0' || c > '9' {
			break
		}
		id = id*10 + uint64(c-'0')
	}
	return id
}

// GoFromController starts a controlled thread from a timer callback (runs on the controller goroutine).
func GoFromController(name string, fn func()) {
	s := S
	if s == nil || s.abort {
		return
	}
	t := s.newThread(name, false)
	go s.threadMain(t, fn)
}

// NextID returns 1,2,3,... within an execution (deterministic channel ids).
func NextID() int64 {
	if S == nil {
		idOff++
		return idOff
	}
	S.ids++
	return S.ids
}

var idOff int64

// WaitIdle parks the calling thread until no other thread is enabled (everything else is blocked, idle or done).
func WaitIdle(what string) {
	s := S
	if s == nil || s.cur == nil {
		return
	}
	t := s.cur
	Wait(true, what, func() bool {
		for _, o := range s.threads {
			if o != t && !o.done && enabled(o) {
				return false
			}
		}
		return true
	})
}
