// Package vsync replaces "sync" in instrumented packages (decision variant: every operation is a scheduling point).
package vsync

import (
	"sync"

	"github.com/basecomplextech/spec/zzverif/vsched"
)

const decision = true

type (
	Locker    = sync.Locker
	Map       = sync.Map
	WaitGroup = sync.WaitGroup
)

type Once struct {
	done bool
	mu   Mutex
	real sync.Once
}

func (o *Once) Do(f func()) {
	if !vsched.On() {
		o.real.Do(func() { o.done = true; f() })
		return
	}
	o.mu.Lock()
	defer o.mu.Unlock()
	if !o.done {
		defer func() { o.done = true }()
		f()
	}
}

type Mutex struct {
	mu   sync.Mutex
	held bool
}

func (m *Mutex) Lock() {
	if vsched.On() {
		vsched.Wait(decision, "mutex.lock", func() bool { return !m.held })
		m.held = true
		return
	}
	m.mu.Lock()
	m.held = true
}

func (m *Mutex) TryLock() bool {
	if vsched.On() {
		vsched.Wait(decision, "mutex.trylock", nil)
		if m.held {
			return false
		}
		m.held = true
		return true
	}
	ok := m.mu.TryLock()
	if ok {
		m.held = true
	}
	return ok
}

func (m *Mutex) Unlock() {
	if vsched.On() {
		if !m.held {
			panic("vsync: unlock of unlocked mutex")
		}
		m.held = false
		return
	}
	m.held = false
	m.mu.Unlock()
}

type RWMutex struct {
	mu      sync.RWMutex
	writer  bool
	readers int
}

func (m *RWMutex) Lock() {
	if vsched.On() {
		vsched.Wait(decision, "rw.lock", func() bool { return !m.writer && m.readers == 0 })
		m.writer = true
		return
	}
	m.mu.Lock()
}
func (m *RWMutex) Unlock() {
	if vsched.On() {
		m.writer = false
		return
	}
	m.mu.Unlock()
}
func (m *RWMutex) RLock() {
	if vsched.On() {
		vsched.Wait(decision, "rw.rlock", func() bool { return !m.writer })
		m.readers++
		return
	}
	m.mu.RLock()
}
func (m *RWMutex) RUnlock() {
	if vsched.On() {
		m.readers--
		return
	}
	m.mu.RUnlock()
}
func (m *RWMutex) TryLock() bool {
	if vsched.On() {
		vsched.Wait(decision, "rw.trylock", nil)
		if m.writer || m.readers > 0 {
			return false
		}
		m.writer = true
		return true
	}
	return m.mu.TryLock()
}
func (m *RWMutex) RLocker() sync.Locker { panic("vsync: RLocker unsupported") }

// Pool is a deterministic LIFO pool: Get returns the most recently released object (the adversarial order for
// state-leak bugs); it is emptied at the start of every execution.
type Pool struct {
	New   func() any
	mu    sync.Mutex
	items []any
	reg   int64 // execution in which the pool registered its reset
}

func (p *Pool) register() {
	if seq := vsched.ExecSeq() + 1; p.reg != seq {
		p.reg = seq
		vsched.OnReset(func() { p.mu.Lock(); p.items = nil; p.mu.Unlock() })
	}
}

func (p *Pool) Get() any {
	vsched.Wait(decision, "pool.get", nil) // a scheduling point in decision/fine mode
	p.mu.Lock()
	p.register()
	if n := len(p.items); n > 0 {
		v := p.items[n-1]
		p.items = p.items[:n-1]
		p.mu.Unlock()
		return v
	}
	p.mu.Unlock() // New may reach a scheduling point: never hold the real mutex across it
	if p.New != nil {
		return p.New()
	}
	return nil
}

func (p *Pool) Put(v any) {
	vsched.Wait(decision, "pool.put", nil)
	p.mu.Lock()
	p.register()
	p.items = append(p.items, v)
	p.mu.Unlock()
	vsched.Wait(decision, "pool.put.done", nil) // the object is now visible to other threads
}
