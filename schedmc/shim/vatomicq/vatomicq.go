package vatomicq

import (
	"sync/atomic"
	"unsafe"

	"github.com/basecomplextech/spec/zzverif/vsched"
)

const decision = false

func pt(what string) { vsched.Wait(decision, what, nil) }

type Value = atomic.Value

type Int32 struct{ v atomic.Int32 }

func (x *Int32) Load() int32                    { pt("i32.load"); return x.v.Load() }
func (x *Int32) Store(v int32)                  { pt("i32.store"); x.v.Store(v) }
func (x *Int32) Add(d int32) int32              { pt("i32.add"); return x.v.Add(d) }
func (x *Int32) Swap(v int32) int32             { pt("i32.swap"); return x.v.Swap(v) }
func (x *Int32) CompareAndSwap(o, n int32) bool { pt("i32.cas"); return x.v.CompareAndSwap(o, n) }

type Int64 struct{ v atomic.Int64 }

func (x *Int64) Load() int64                    { pt("i64.load"); return x.v.Load() }
func (x *Int64) Store(v int64)                  { pt("i64.store"); x.v.Store(v) }
func (x *Int64) Add(d int64) int64              { pt("i64.add"); return x.v.Add(d) }
func (x *Int64) Swap(v int64) int64             { pt("i64.swap"); return x.v.Swap(v) }
func (x *Int64) CompareAndSwap(o, n int64) bool { pt("i64.cas"); return x.v.CompareAndSwap(o, n) }

type Uint32 struct{ v atomic.Uint32 }

func (x *Uint32) Load() uint32                    { pt("u32.load"); return x.v.Load() }
func (x *Uint32) Store(v uint32)                  { pt("u32.store"); x.v.Store(v) }
func (x *Uint32) Add(d uint32) uint32             { pt("u32.add"); return x.v.Add(d) }
func (x *Uint32) CompareAndSwap(o, n uint32) bool { pt("u32.cas"); return x.v.CompareAndSwap(o, n) }

type Uint64 struct{ v atomic.Uint64 }

func (x *Uint64) Load() uint64                    { pt("u64.load"); return x.v.Load() }
func (x *Uint64) Store(v uint64)                  { pt("u64.store"); x.v.Store(v) }
func (x *Uint64) Add(d uint64) uint64             { pt("u64.add"); return x.v.Add(d) }
func (x *Uint64) CompareAndSwap(o, n uint64) bool { pt("u64.cas"); return x.v.CompareAndSwap(o, n) }

type Bool struct{ v atomic.Bool }

func (x *Bool) Load() bool                    { pt("bool.load"); return x.v.Load() }
func (x *Bool) Store(v bool)                  { pt("bool.store"); x.v.Store(v) }
func (x *Bool) Swap(v bool) bool              { pt("bool.swap"); return x.v.Swap(v) }
func (x *Bool) CompareAndSwap(o, n bool) bool { pt("bool.cas"); return x.v.CompareAndSwap(o, n) }

type Pointer[T any] struct{ v atomic.Pointer[T] }

func (x *Pointer[T]) Load() *T                    { pt("ptr.load"); return x.v.Load() }
func (x *Pointer[T]) Store(v *T)                  { pt("ptr.store"); x.v.Store(v) }
func (x *Pointer[T]) Swap(v *T) *T                { pt("ptr.swap"); return x.v.Swap(v) }
func (x *Pointer[T]) CompareAndSwap(o, n *T) bool { pt("ptr.cas"); return x.v.CompareAndSwap(o, n) }

func LoadInt32(p *int32) int32         { pt("LoadInt32"); return atomic.LoadInt32(p) }
func StoreInt32(p *int32, v int32)     { pt("StoreInt32"); atomic.StoreInt32(p, v) }
func AddInt32(p *int32, d int32) int32 { pt("AddInt32"); return atomic.AddInt32(p, d) }
func CompareAndSwapInt32(p *int32, o, n int32) bool {
	pt("CASInt32")
	return atomic.CompareAndSwapInt32(p, o, n)
}
func LoadInt64(p *int64) int64                         { pt("LoadInt64"); return atomic.LoadInt64(p) }
func StoreInt64(p *int64, v int64)                     { pt("StoreInt64"); atomic.StoreInt64(p, v) }
func AddInt64(p *int64, d int64) int64                 { pt("AddInt64"); return atomic.AddInt64(p, d) }
func LoadPointer(p *unsafe.Pointer) unsafe.Pointer     { pt("LoadPointer"); return atomic.LoadPointer(p) }
func StorePointer(p *unsafe.Pointer, v unsafe.Pointer) { pt("StorePointer"); atomic.StorePointer(p, v) }

func SwapInt32(p *int32, v int32) int32    { pt("SwapInt32"); return atomic.SwapInt32(p, v) }
func SwapInt64(p *int64, v int64) int64    { pt("SwapInt64"); return atomic.SwapInt64(p, v) }
func LoadUint32(p *uint32) uint32          { pt("LoadUint32"); return atomic.LoadUint32(p) }
func StoreUint32(p *uint32, v uint32)      { pt("StoreUint32"); atomic.StoreUint32(p, v) }
func AddUint32(p *uint32, d uint32) uint32 { pt("AddUint32"); return atomic.AddUint32(p, d) }
func LoadUint64(p *uint64) uint64          { pt("LoadUint64"); return atomic.LoadUint64(p) }
func StoreUint64(p *uint64, v uint64)      { pt("StoreUint64"); atomic.StoreUint64(p, v) }
func AddUint64(p *uint64, d uint64) uint64 { pt("AddUint64"); return atomic.AddUint64(p, d) }
func CompareAndSwapInt64(p *int64, o, n int64) bool {
	pt("CASInt64")
	return atomic.CompareAndSwapInt64(p, o, n)
}
func CompareAndSwapUint32(p *uint32, o, n uint32) bool {
	pt("CASUint32")
	return atomic.CompareAndSwapUint32(p, o, n)
}
func CompareAndSwapUint64(p *uint64, o, n uint64) bool {
	pt("CASUint64")
	return atomic.CompareAndSwapUint64(p, o, n)
}
func CompareAndSwapPointer(p *unsafe.Pointer, o, n unsafe.Pointer) bool {
	pt("CASPointer")
	return atomic.CompareAndSwapPointer(p, o, n)
}
func (x *Uint32) Swap(v uint32) uint32 { pt("u32.swap"); return x.v.Swap(v) }
func (x *Uint64) Swap(v uint64) uint64 { pt("u64.swap"); return x.v.Swap(v) }
