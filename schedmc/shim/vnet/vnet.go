// Package vnet: fake transport (net.Conn) under scheduler control. An ordered reliable byte stream per direction
// with optional short reads and a fault plan (cut after byte k / half-close).
package vnet

import (
	"errors"
	"io"
	"net"
	"time"

	"github.com/basecomplextech/spec/zzverif/vsched"
)

type pipe struct {
	buf      []byte
	closed   bool  // writer side closed (reader sees EOF after draining)
	broken   bool  // connection cut: reads fail immediately with an error, writes fail
	total    int64 // bytes ever written
	cutAfter int64 // fault plan: after this many bytes have been written, the stream is cut (-1: never)
	onCut    func()
	Log      []byte // everything written (for session recording)
	record   bool
	cap      int // bounded socket buffer: a Write blocks while this many bytes are undelivered (0: unbounded)
}

// Conn is one end of a fake connection.
type Conn struct {
	Name      string
	in, out   *pipe
	peer      *Conn
	MaxRead   int  // deliver at most this many bytes per Read (0: unlimited)
	Decisions bool // Read/Write/Close are decision points (else quiet)
	closedLoc bool
	// peer-stops-reading fault: after stallAfter bytes have been read by this end, its reads block forever
	stalled    bool
	stallAfter int64
	readTotal  int64
	onStall    func()
}

var ErrReset = errors.New("vnet: connection reset by peer")

// Pair returns the two ends of a fake connection.
func Pair(aName, bName string) (*Conn, *Conn) {
	p1, p2 := &pipe{cutAfter: -1}, &pipe{cutAfter: -1}
	a := &Conn{Name: aName, in: p1, out: p2, Decisions: true, stallAfter: -1}
	b := &Conn{Name: bName, in: p2, out: p1, Decisions: true, stallAfter: -1}
	a.peer, b.peer = b, a
	return a, b
}

// Record makes both directions keep a copy of all bytes written.
func (c *Conn) Record() { c.in.record, c.out.record = true, true }

// Written returns the bytes this end has written so far (requires Record).
func (c *Conn) Written() []byte { return c.out.Log }

// CutAfterWritten arranges that once this end has written k bytes in total, the connection is cut in both
// directions (both ends see errors), i.e. a transport failure after exactly k bytes of this direction.
func (c *Conn) CutAfterWritten(k int64) { c.out.cutAfter = k; c.out.onCut = func() { c.Break() } }

// HalfCloseAfterWritten: after k bytes this direction is closed cleanly (peer reads EOF), the other stays open.
func (c *Conn) HalfCloseAfterWritten(k int64) {
	c.out.cutAfter = k
	c.out.onCut = func() { c.out.closed = true }
}

// SetWriteCapacity bounds the socket buffer of this end's outgoing direction: Write blocks (like a real socket
// whose peer does not read) while n bytes are undelivered.
func (c *Conn) SetWriteCapacity(n int) { c.out.cap = n }

// StallAfterRead: once this end has read k bytes in total it stops reading for good (a hung peer process); then
// (optional) runs at that moment.
func (c *Conn) StallAfterRead(k int64, then func()) {
	c.stallAfter, c.onStall = k, then
	if k == 0 {
		c.stall()
	}
}

func (c *Conn) stall() {
	c.stalled, c.stallAfter = true, -1
	if c.onStall != nil {
		c.onStall()
	}
}

// Unstall lets reads proceed again (teardown).
func (c *Conn) Unstall() { c.stalled = false }

// CloseWrite half-closes now: the peer reads EOF after draining, the other direction stays open.
func (c *Conn) CloseWrite() { c.out.closed = true }

// Break cuts the connection now: pending data is lost, both ends fail.
func (c *Conn) Break() {
	c.in.broken, c.out.broken = true, true
	c.in.buf, c.out.buf = nil, nil
}

func (c *Conn) Read(p []byte) (int, error) {
	vsched.Wait(c.Decisions, c.Name+".read", func() bool {
		return c.closedLoc || c.in.broken || (!c.stalled && (len(c.in.buf) > 0 || c.in.closed))
	})
	switch {
	case c.closedLoc:
		return 0, net.ErrClosed
	case c.in.broken:
		return 0, ErrReset
	case len(c.in.buf) > 0:
		n := len(p)
		if n > len(c.in.buf) {
			n = len(c.in.buf)
		}
		if c.MaxRead > 0 && n > c.MaxRead {
			n = c.MaxRead
		}
		if c.stallAfter >= 0 && int64(n) > c.stallAfter-c.readTotal {
			n = int(c.stallAfter - c.readTotal)
		}
		copy(p, c.in.buf[:n])
		c.in.buf = c.in.buf[n:]
		c.readTotal += int64(n)
		if c.stallAfter >= 0 && c.readTotal >= c.stallAfter {
			c.stall()
		}
		return n, nil
	}
	return 0, io.EOF
}

func (c *Conn) Write(p []byte) (int, error) {
	vsched.Wait(c.Decisions, c.Name+".write", nil)
	if c.out.cap <= 0 {
		return c.write(p)
	}
	// bounded socket buffer: block until there is space, the connection fails or this end is closed
	done := 0
	for done < len(p) {
		o := c.out
		vsched.Wait(false, c.Name+".write-space", func() bool { return c.closedLoc || o.broken || o.closed || len(o.buf) < o.cap })
		n := len(p) - done
		if free := o.cap - len(o.buf); free > 0 && n > free {
			n = free
		}
		m, err := c.write(p[done : done+n])
		done += m
		if err != nil {
			return done, err
		}
	}
	return done, nil
}

func (c *Conn) write(p []byte) (int, error) {
	if c.closedLoc {
		return 0, net.ErrClosed
	}
	if c.out.broken || c.out.closed {
		return 0, ErrReset
	}
	o := c.out
	n := len(p)
	if o.cutAfter >= 0 && o.total+int64(n) >= o.cutAfter {
		n = int(o.cutAfter - o.total)
		if n < 0 {
			n = 0
		}
		o.buf = append(o.buf, p[:n]...)
		if o.record {
			o.Log = append(o.Log, p[:n]...)
		}
		o.total += int64(n)
		o.cutAfter = -1
		o.onCut()
		if n < len(p) {
			return n, ErrReset
		}
		return n, nil
	}
	o.buf = append(o.buf, p...)
	if o.record {
		o.Log = append(o.Log, p...)
	}
	o.total += int64(n)
	return n, nil
}

// Close closes this end: local reads/writes fail with net.ErrClosed, the peer reads EOF after draining and its
// writes fail.
func (c *Conn) Close() error {
	vsched.Wait(c.Decisions, c.Name+".close", nil)
	if c.closedLoc {
		return nil
	}
	c.closedLoc = true
	c.out.closed = true
	c.in.closed = true
	return nil
}

// Pending returns the number of undelivered bytes towards this end.
func (c *Conn) Pending() int { return len(c.in.buf) }

// Inject appends raw bytes to this end's inbound stream (scripted peer without a thread).
func (c *Conn) Inject(p []byte) { c.in.buf = append(c.in.buf, p...) }

// Drain removes and returns everything this end has written that the peer has not read yet.
func (c *Conn) Drain() []byte {
	b := c.out.buf
	c.out.buf = nil
	return b
}

type addr string

func (a addr) Network() string { return "vnet" }
func (a addr) String() string  { return string(a) }

func (c *Conn) LocalAddr() net.Addr                { return addr(c.Name) }
func (c *Conn) RemoteAddr() net.Addr               { return addr(c.Name + "-peer") }
func (c *Conn) SetDeadline(t time.Time) error      { return nil }
func (c *Conn) SetReadDeadline(t time.Time) error  { return nil }
func (c *Conn) SetWriteDeadline(t time.Time) error { return nil }
