#!/bin/bash
# Re-runs every own mutant (mutants/cNN_*.diff vs its property) and every seeded change (seeded/<id>/patch.diff vs the
# property it breaks) and prints one line each; exit 1 if any is no longer detected.  Patches that no longer apply
# (the repaired tree moved on) are reported as SKIP.
cd /verif
bad=0
# mutants documented as equivalent / not valid (DESIGN.md section L)
EXPECT_MISS="c03_unlock_before_send c12_pushdata_nocheck"
run() { # patch prop
  out=$(SKIP_BASELINE=1 bin/mutant.sh "$1" "$2" 2>&1 | grep '^mutant:')
  case "$out" in
    *"exit 1"*) echo "DETECTED  $1 vs $2";;
    *"does not apply"*) echo "SKIP      $1 (does not apply)";;
    *) case " $EXPECT_MISS " in
         *" $(basename $1 .diff) "*) echo "EQUIVALENT $1 vs $2 (documented in DESIGN.md L as not observable)";;
         *) echo "MISSED    $1 vs $2 :: $out"; bad=1;;
       esac;;
  esac
}
for f in mutants/*.diff; do
  p=$(basename $f | cut -c1-3 | tr c C)
  run $f $p
done
for d in seeded/*/; do
  id=$(basename $d); p=${id%%-*}
  run $d/patch.diff $p
done
exit $bad
