#!/usr/bin/env python3
"""validate MANIFEST.json and evidence files against the schemas (uses the tooling venv's jsonschema)."""
import json, sys, glob, os
import jsonschema
V = os.path.dirname(os.path.dirname(os.path.abspath(__file__)))
ms = json.load(open('/root/.vp/MANIFEST.schema.json'))
es = json.load(open('/root/.vp/EVIDENCE.schema.json'))
ok = True
try:
    m = json.load(open(V + '/MANIFEST.json'))
    jsonschema.validate(m, ms)
    print('MANIFEST ok: %d checks, %d not_applicable' % (len(m['checks']), len(m.get('not_applicable', []))))
except Exception as e:
    ok = False
    print('MANIFEST INVALID', str(e)[:500])
for f in sorted(glob.glob(V + '/evidence/*.json')):
    try:
        jsonschema.validate(json.load(open(f)), es)
        print('ok', os.path.basename(f))
    except Exception as e:
        ok = False
        print('INVALID', f, str(e)[:500])
sys.exit(0 if ok else 1)
