#!/usr/bin/env python3
"""mkmutant.py <out.diff> <file> <old> <new> [<file> <old> <new> ...] — make a git diff for /repo from exact-text replacements."""
import subprocess, sys
out = sys.argv[1]
args = sys.argv[2:]
assert len(args) % 3 == 0
assert subprocess.run(['git', '-C', '/repo', 'status', '--porcelain'], capture_output=True, text=True).stdout == '', 'repo not clean'
try:
    for i in range(0, len(args), 3):
        f, old, new = args[i:i + 3]
        p = '/repo/' + f
        s = open(p).read()
        assert s.count(old) == 1, '%s: old text occurs %d times' % (f, s.count(old))
        open(p, 'w').write(s.replace(old, new))
    d = subprocess.run(['git', '-C', '/repo', 'diff'], capture_output=True, text=True).stdout
    open(out, 'w').write(d)
    print('wrote', out, len(d.splitlines()), 'lines')
finally:
    subprocess.run(['git', '-C', '/repo', 'checkout', '--', '.'])
