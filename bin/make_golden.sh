#!/bin/sh
# Captures the C08 golden corpus (sha256 prefix of the library's encoding of every quick-tier case) at the PINNED commit.
set -e
PIN=554461f
WT=/var/tmp/verif_golden_wt
rm -rf $WT; git -C /repo worktree add --detach $WT $PIN >/dev/null
trap 'git -C /repo worktree remove --force '$WT EXIT
export VERIF_REPO=$WT VERIF_GOLDEN=/var/tmp/verif_golden.json VERIF_GOLDEN_WRITE=1
rm -f /var/tmp/verif_golden.json.*
/verif/bin/vcheck C08 --tier quick >/dev/null 2>&1 || true
python3 - <<'PY'
import glob, json
m = {}
for f in glob.glob('/var/tmp/verif_golden.json.*'):
    m.update(json.load(open(f)))
json.dump(m, open('/verif/golden/c08_golden.json', 'w'), sort_keys=True, separators=(',', ':'))
print('golden cases:', len(m))
PY
rm -f /var/tmp/verif_golden.json.*
