#!/bin/sh
# usage: mutant.sh <patch.diff> <prop> [<prop>...]   (env TIER=quick|thorough, SKIP_BASELINE=1)
# Applies a property-breaking change to a SCRATCH worktree of /repo's HEAD (never to /repo itself, so that checks
# running elsewhere at the same time keep seeing the real tree), checks that the repository's own tests still pass,
# and runs the checks against that worktree (VERIF_REPO); each must exit 1 with a VIOLATION line.  Evidence and
# replays of these runs go to /var/tmp/verif_mut_<slot>/results (MUT_SLOT=a|b|..: runs of one slot are serialised, slots run in parallel), never to /verif/evidence.  The worktree is removed.
P=$(readlink -f "$1"); shift
# mutant runs share one scratch directory (warm build cache): serialise them
SLOT=${MUT_SLOT:-a}
exec 9>/var/tmp/verif_mut_$SLOT.lock; flock 9
WT=/var/tmp/mutant_wt_$$
git -C /repo worktree prune
git -C /repo worktree add --detach "$WT" HEAD >/dev/null 2>&1 || { echo "mutant: cannot create worktree"; exit 2; }
trap 'git -C /repo worktree remove --force '"$WT"' 2>/dev/null; rm -rf '"$WT" EXIT INT TERM
git -C "$WT" apply "$P" || { echo "mutant: patch does not apply"; exit 2; }
rc_all=0
if [ -z "$SKIP_BASELINE" ]; then
  /verif/bin/baseline.sh "$WT" | head -5 || { echo "mutant: BASELINE FAILS with this change (not a valid mutant)"; rc_all=3; }
fi
export VERIF_REPO="$WT" VERIF_SCRATCH=/var/tmp/verif_mut_$SLOT VERIF_RESULTS=/var/tmp/verif_mut_$SLOT/results
for prop in "$@"; do
  /verif/bin/vcheck "$prop" --tier "${TIER:-quick}" > /var/tmp/mutant_${SLOT}_$prop.log 2>&1
  rc=$?
  nviol=$(grep -c '^VIOLATION' /var/tmp/mutant_${SLOT}_$prop.log)
  echo "mutant: $(basename "$P") vs $prop -> exit $rc, $nviol VIOLATION line(s)"
  grep -A2 '^VIOLATION' /var/tmp/mutant_${SLOT}_$prop.log | head -6 | cut -c1-300
  [ $rc -eq 1 ] || rc_all=1
done
exit $rc_all
