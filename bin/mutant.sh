#!/bin/sh
# usage: mutant.sh <patch.diff> <prop> [<prop>...]   (env TIER=quick|thorough, SKIP_BASELINE=1)
# applies a property-breaking change to /repo, checks the repository's own tests still pass, runs the checks
# (each must exit 1 with a VIOLATION line), and ALWAYS restores /repo.
P=$(readlink -f "$1"); shift
cd /repo || exit 2
if [ -n "$(git status --porcelain)" ]; then echo "mutant: /repo not clean"; exit 2; fi
git apply "$P" || { echo "mutant: patch does not apply"; exit 2; }
trap 'git -C /repo checkout -- . ; git -C /repo clean -fdq' EXIT INT TERM
rc_all=0
if [ -z "$SKIP_BASELINE" ]; then
  /verif/bin/baseline.sh /repo | head -5 || { echo "mutant: BASELINE FAILS with this change (not a valid mutant)"; rc_all=3; }
fi
for prop in "$@"; do
  /verif/bin/vcheck "$prop" --tier "${TIER:-quick}" > /var/tmp/mutant_$prop.log 2>&1
  rc=$?
  nviol=$(grep -c '^VIOLATION' /var/tmp/mutant_$prop.log)
  echo "mutant: $(basename "$P") vs $prop -> exit $rc, $nviol VIOLATION line(s)"
  grep -A2 '^VIOLATION' /var/tmp/mutant_$prop.log | head -6 | cut -c1-300
  [ $rc -eq 1 ] || rc_all=1
done
exit $rc_all
