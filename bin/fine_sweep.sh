#!/bin/bash
# Fine-mode sweep outside the tiers: every Engine B scenario, quick bounds, baselibrary internals as scheduling points,
# BUDGET seconds per worker (default 120), 16 shards.  Prints one line per scenario; exit 1 if any violation was found.
# usage: bin/fine_sweep.sh [scenario-regex]
cd "$(dirname "$0")/.."
BUDGET=${BUDGET:-120}
NSH=${NSH:-16}
B=$(python3 -c "
import sys; sys.path.insert(0,'lib')
import vcheck as V
print(V.build_schedmc())" 2>/dev/null | tail -1)
OUT=${VERIF_SCRATCH:-/var/tmp/verif}/fine_sweep; rm -rf $OUT; mkdir -p $OUT
bad=0
for n in $(for p in C03 C04 C06 C07 C09 C11 C18 C19 C20; do $B list $p; done | sort -u | grep -E "${1:-.}"); do
  for i in $(seq 0 $((NSH-1))); do
    $B explore -fine -prop ${n:0:3} -scenario $n -tier quick -shard $i -nshards $NSH -budget $BUDGET -out $OUT/${n}_$i.json >/dev/null 2>$OUT/${n}_$i.err &
  done
  wait
  python3 - "$OUT" "$n" "$NSH" <<'PY' || bad=1
import json,sys,os
out,n,nsh=sys.argv[1],sys.argv[2],int(sys.argv[3])
ev=0; viol={}; layers=None; complete=True; missing=0
for i in range(nsh):
    p=os.path.join(out,"%s_%d.json"%(n,i))
    if not os.path.exists(p): missing+=1; continue
    d=json.load(open(p)); ev+=d["evaluations"]
    for v in d["violations"]: viol.setdefault(v["sig"],v)
    for b in d["bounds"].values():
        complete=complete and b["complete"]; layers=b["complete_layers"] if layers is None else min(layers,b["complete_layers"])
print("fine %-55s executions=%-9d complete=%-5s complete_layers=%s violations=%d missing=%d"%(n,ev,complete,layers,len(viol),missing))
for s,v in viol.items():
    print("   VIOLATION-SIG", s); print("     ", v["desc"][:300])
    json.dump({"replay":v["replay"]},open(os.path.join(out,"viol_%s_%d.json"%(n,abs(hash(s))%100000)),"w"))
sys.exit(1 if viol else 0)
PY
done
exit $bad
