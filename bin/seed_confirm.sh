#!/bin/bash
# usage: seed_confirm.sh <seed-id> <demo-pkg-dir-relative|-> <demo-test-regex> <prop> [<prop>...]
#   env SRC=<dir with patch.diff + demo> (default /tmp/seedout/<seed-id>), DEST=<name under /verif/seeded> (default <seed-id>)
# Confirms a sub-agent's seeded change in a fresh scratch worktree (demo passes without / fails with the patch,
# repository suite still passes with it), then runs our checks against it (bin/mutant.sh: scratch worktree, never /repo).
ID=$1; PKG=$2; RE=$3; shift 3
SRC=${SRC:-/tmp/seedout/$ID}; DEST=${DEST:-$ID}
[ "$PKG" = "-" ] && PKG=$(cat $SRC/pkg.txt | tr -d ' \n')
WT=/tmp/seedconf_$DEST
export GOFLAGS=-mod=mod GOPROXY=off
rm -rf $WT; git -C /repo worktree prune; git -C /repo worktree add --detach $WT HEAD >/dev/null 2>&1 || { echo "cannot create worktree"; exit 2; }
trap 'git -C /repo worktree remove --force '$WT' 2>/dev/null; rm -rf '$WT EXIT
for f in $SRC/*_test.go; do cp $f $WT/$PKG/; done
cd $WT
echo "== demo WITHOUT the change (must pass)"
go test -vet=off -count=1 -run "$RE" ./$PKG/ 2>&1 | tail -3; r0=${PIPESTATUS[0]}
git apply $SRC/patch.diff || { echo "patch does not apply"; exit 2; }
echo "== demo WITH the change (must fail)"
go test -vet=off -count=1 -run "$RE" ./$PKG/ 2>&1 | tail -6 | cut -c1-300; r1=${PIPESTATUS[0]}
for f in $SRC/*_test.go; do rm -f $WT/$PKG/$(basename $f); done
echo "== repository suite WITH the change (must pass)"
r2=1; for try in 1 2 3; do /verif/bin/baseline.sh $WT | head -4; r2=${PIPESTATUS[0]}; [ $r2 -eq 0 ] && break; echo "(suite retry $try: timing-dependent tests under load)"; done
echo "confirm: demo_without=$r0 demo_with=$r1 suite_with=$r2"
cd /verif
if [ $r0 -eq 0 ] && [ $r1 -ne 0 ] && [ $r2 -eq 0 ]; then
  echo "== our checks against the change"
  SKIP_BASELINE=1 /verif/bin/mutant.sh $SRC/patch.diff "$@" 2>&1 | grep 'mutant:\|sig:' | cut -c1-260
  mkdir -p /verif/seeded/$DEST; cp $SRC/patch.diff $SRC/*_test.go /verif/seeded/$DEST/ 2>/dev/null; cp $SRC/notes.md /verif/seeded/$DEST/ 2>/dev/null
else
  echo "NOT CONFIRMED"
fi
