#!/bin/sh
# Runs the repository's pinned test suite (guard off: no overlay, no tags) and compares the set of passing
# tests with /root/.vp/BASELINE.json. usage: baseline.sh [repo-dir]
REPO=${1:-/repo}
cd "$REPO" || exit 2
export GOFLAGS=-mod=mod GOPROXY=off
OUT=$(mktemp /var/tmp/baseline.XXXXXX)
go test -mod=mod -json -vet=off -count=1 -timeout 180s ./... > "$OUT" 2>/dev/null
python3 - "$OUT" <<'PY'
import json,sys
passed=set(); failed=set()
for l in open(sys.argv[1]):
    try: e=json.loads(l)
    except Exception: continue
    if e.get('Test') and '/' not in e['Test']:
        k=e['Package']+'::'+e['Test']
        if e['Action']=='pass': passed.add(k)
        elif e['Action']=='fail': failed.add(k)
base=set(json.load(open('/root/.vp/BASELINE.json'))['stable_pass'])
missing=sorted(base-passed)
print("baseline: %d/%d pinned tests pass; failed=%d extra_pass=%d"%(len(base&passed),len(base),len(failed),len(passed-base)))
for m in missing: print("  MISSING",m)
for m in sorted(failed): print("  FAILED",m)
sys.exit(1 if missing or (failed & base) else 0)
PY
rc=$?
rm -f "$OUT"
exit $rc
