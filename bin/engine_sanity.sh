#!/bin/bash
# Engine B sanity check (not a property check): for a few small scenarios the outcome histogram of a 4-shard exploration
# must equal that of a 1-shard exploration, outcome for outcome (sharding loses or duplicates no execution and no
# execution depends on which process ran it), in the scenario's own mode and in forced fine mode.
cd "$(dirname "$0")/.."
B=$(python3 -c "
import sys; sys.path.insert(0,'lib')
import vcheck as V
print(V.build_schedmc())" 2>/dev/null | tail -1)
T=$(mktemp -d /var/tmp/engsan.XXXXXX); trap 'rm -rf $T' EXIT
bad=0
for item in c20.L3.two-registrations-vs-close: c20.L5.old-listener-vs-late-registration-vs-close: c06.N7.sibling-delivery: c06.N7.sibling-delivery:-fine c19.S5.channels-reached-vs-close:; do
 sc=${item%%:*}; for fine in "${item#*:}"; do
  for sh in 0 1 2 3; do $B explore $fine -scenario $sc -tier quick -shard $sh -nshards 4 -out $T/s_$sh.json & done
  $B explore $fine -scenario $sc -tier quick -shard 0 -nshards 1 -out $T/s_all.json; wait
  python3 - $T "$sc$fine" <<'PY' || bad=1
import json,sys
t,name=sys.argv[1],sys.argv[2]
outs={}
for i in range(4):
    d=json.load(open('%s/s_%d.json'%(t,i)))
    for k,v in d['outcomes'].items(): outs[k]=outs.get(k,0)+v
a=json.load(open(t+'/s_all.json'))
ok=all(outs.get(k)==a['outcomes'].get(k) for k in set(outs)|set(a['outcomes']) if not k.startswith('~'))
print("engine-sanity %-60s executions=%d %s"%(name,a['evaluations'],"equal" if ok else "DIFFERENT"))
sys.exit(0 if ok else 1)
PY
 done
done
exit $bad
