-------------------------------- MODULE FlowControl --------------------------------
(* Flow control of one mpx channel at the granularity of the implementation-level harness
   (/verif/schedmc/inpkg/mpx/zz_vc07.go): one sender channel object, one receiver channel object, a FIFO data
   wire and a FIFO acknowledgement wire.  Every action corresponds to one harness event; the state variables
   are exactly the harness abstraction (VFlowAbs), so the TLC state graph can be compared edge by edge with the
   graph the real code produces.                                                                            *)
EXTENDS Integers, Sequences

CONSTANTS W,        \* negotiated window
          Sizes,    \* message sizes
          MaxMsgs   \* number of Send/SendAndClose calls

VARIABLES win,      \* sender: remaining send window (may be negative)
          opened,   \* sender: open frame sent
          blocked,  \* size of the Send that is parked on the window wait, 0 if none
          wake,     \* tokens in the one-slot wake-up channel
          dataWire, \* payload sizes in flight; a closing frame is size + CloseMark
          queue,    \* receiver: delivered, not yet consumed payload sizes
          recv,     \* receiver: bytes consumed since the last acknowledgement
          ackWire,  \* window deltas in flight
          closedS, closedR,
          returned, \* Send/SendAndClose calls that returned
          sent,     \* Send/SendAndClose calls started
          out,      \* history: bytes in open/data frames minus deltas delivered to the sender
          bad       \* history: an admission broke the rule

vars == <<win, opened, blocked, wake, dataWire, queue, recv, ackWire, closedS, closedR, returned, sent, out, bad>>

Half      == W \div 2
CloseMark == 1000000
Min(a, b) == IF a < b THEN a ELSE b
Max(a, b) == IF a > b THEN a ELSE b
Admit(w, s) == w >= s \/ w >= Half

\* history check performed at every admission of a (non-closing) payload of size s
Rule(s) == /\ W - out >= Min(s, Half)
           /\ out + s <= Max(W, W - Half + s)

Init == /\ win = W /\ opened = FALSE /\ blocked = 0 /\ wake = 0
        /\ dataWire = <<>> /\ queue = <<>> /\ recv = 0 /\ ackWire = <<>>
        /\ closedS = FALSE /\ closedR = FALSE /\ returned = 0 /\ sent = 0 /\ out = 0 /\ bad = FALSE

StartSend(s) ==
    /\ blocked = 0 /\ ~closedS /\ sent < MaxMsgs
    /\ sent' = sent + 1
    /\ IF ~opened \/ Admit(win, s)
         THEN /\ opened' = TRUE
              /\ win' = win - s
              /\ dataWire' = Append(dataWire, s)
              /\ returned' = returned + 1
              /\ out' = out + s
              /\ bad' = (bad \/ ~Rule(s))
              /\ UNCHANGED <<blocked, wake>>
         ELSE /\ blocked' = s
              /\ wake' = 0            \* a stale token is consumed by the first pass of the wait loop
              /\ UNCHANGED <<opened, win, dataWire, returned, out, bad>>
    /\ UNCHANGED <<queue, recv, ackWire, closedS, closedR>>

SendClose(s) ==
    /\ blocked = 0 /\ ~closedS /\ sent < MaxMsgs
    /\ sent' = sent + 1 /\ closedS' = TRUE /\ returned' = returned + 1
    /\ win' = win - s
    /\ IF opened
         THEN /\ dataWire' = Append(dataWire, s + CloseMark)   \* closing payload: exempt from the rule
              /\ UNCHANGED <<opened, out, bad>>
         ELSE /\ dataWire' = Append(Append(dataWire, s), CloseMark) \* open frame carries the payload, empty close
              /\ opened' = TRUE
              /\ out' = out + s
              /\ bad' = (bad \/ ~Rule(s))
    /\ UNCHANGED <<blocked, wake, queue, recv, ackWire, closedR>>

Deliver ==
    /\ dataWire # <<>>
    /\ LET f == Head(dataWire)
           isClose == f >= CloseMark
           s == IF isClose THEN f - CloseMark ELSE f
       IN /\ dataWire' = Tail(dataWire)
          /\ IF closedR
               THEN UNCHANGED <<queue, closedR>>
               ELSE /\ queue' = IF s > 0 THEN Append(queue, s) ELSE queue
                    /\ closedR' = isClose
    /\ UNCHANGED <<win, opened, blocked, wake, recv, ackWire, closedS, returned, sent, out, bad>>

Consume ==
    /\ queue # <<>>
    /\ LET r == recv + Head(queue)
       IN /\ queue' = Tail(queue)
          /\ IF r < Half
               THEN recv' = r /\ UNCHANGED ackWire
               ELSE /\ recv' = 0
                    /\ ackWire' = IF closedR THEN ackWire ELSE Append(ackWire, r)
    /\ UNCHANGED <<win, opened, blocked, wake, dataWire, closedS, closedR, returned, sent, out, bad>>

Ack ==
    /\ ackWire # <<>>
    /\ LET d == Head(ackWire)
           w2 == win + d
       IN /\ ackWire' = Tail(ackWire)
          /\ IF closedS
               THEN /\ out' = out - d       \* a closed channel ignores window frames
                    /\ UNCHANGED <<win, wake, blocked, dataWire, returned, bad>>
               ELSE IF blocked # 0
                 THEN IF Admit(w2, blocked)
                        THEN /\ win' = w2 - blocked
                             /\ dataWire' = Append(dataWire, blocked)
                             /\ blocked' = 0 /\ wake' = 0
                             /\ returned' = returned + 1
                             /\ out' = out - d + blocked
                             /\ bad' = (bad \/ ~(/\ W - (out - d) >= Min(blocked, Half)
                                                 /\ out - d + blocked <= Max(W, W - Half + blocked)))
                        ELSE /\ win' = w2 /\ wake' = 0 /\ out' = out - d
                             /\ UNCHANGED <<blocked, dataWire, returned, bad>>
                 ELSE /\ win' = w2 /\ wake' = 1 /\ out' = out - d
                      /\ UNCHANGED <<blocked, dataWire, returned, bad>>
    /\ UNCHANGED <<opened, queue, recv, closedS, closedR, sent>>

Next == \/ \E s \in Sizes : StartSend(s)
        \/ \E s \in Sizes : SendClose(s)
        \/ Deliver \/ Consume \/ Ack

Spec == Init /\ [][Next]_vars

\* ---- properties ----
NoBadAdmission == ~bad
\* liveness as safety: everything delivered, consumed and acknowledged => no Send is parked
NoStuckSender == (dataWire = <<>> /\ queue = <<>> /\ ackWire = <<>>) => blocked = 0
\* a parked sender is really below the admission threshold unless a wake-up is pending
ParkedIsJustified == (blocked # 0 /\ wake = 0) => ~Admit(win, blocked)
WindowAccounting == closedS \/ (win = W - out)
=====================================================================================
