// langmc: Engine C — bounded enumeration of schemas and schema sources for the language pipeline.
package main

import (
	"fmt"
	"os"

	"github.com/basecomplextech/spec/zzverif/seqmc/vlib"
)

var checks = map[string]func(a *vlib.Args){}

func main() {
	if len(os.Args) < 2 {
		fmt.Fprintln(os.Stderr, "usage: langmc <check> [flags]")
		os.Exit(2)
	}
	f, ok := checks[os.Args[1]]
	if !ok {
		fmt.Fprintln(os.Stderr, "langmc: unknown check", os.Args[1])
		os.Exit(2)
	}
	f(vlib.ParseArgs(os.Args[2:]))
}
