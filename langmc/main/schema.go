package main

import (
	"fmt"
	"os"
	"path/filepath"
	"strings"
)

// Schema description shared by C05/C14/C16: the SAME description renders the .spec text and the registry that
// the reflective checker (vgen) uses, so the expected tags/kinds never come from the generator under test.

type SField struct {
	Name string
	Tag  int
	Kind string // scalar kind | any | anymsg | enum | struct | msg | svc(ref to service: invalid)
	List bool
	Ref  *SDef
	Via  string // import alias/name used in the type reference ("" = local)
	Raw  string // raw type text override (mutants)
}

type SEnumVal struct {
	Name string
	Val  string // literal text
}

type SMethod struct {
	Name string
	Text string // full method text after the name
}

type SDef struct {
	Name    string
	Type    string // enum message struct service subservice
	Fields  []SField
	Values  []SEnumVal
	Methods []SMethod
	Pkg     *SPkg
	File    int
}

type SImport struct {
	Pkg   *SPkg
	Alias string
	ID    string // override (missing import etc.)
}

type SPkg struct {
	Key      string
	Imports  []SImport
	Defs     []*SDef
	Files    int
	RawTail  string // raw text appended to file 0 (mutants)
	RawFile  string // complete raw text of file 0 (token-level mutants)
	RegExtra string // extra registry statements (C16 pairs)
	NoOpt    bool
}

type Schema struct {
	ID      string
	Pkgs    []*SPkg // dependency order (imported first)
	Expect  string  // "ok" (must generate + compile) | "reject" (must be rejected with an error) | "either"
	Rule    string  // language rule exercised by a mutant
	Mention string  // the error must mention this element
}

func upperCamel(s string) string {
	parts := strings.Split(s, "_")
	for i, p := range parts {
		p = strings.ToLower(p)
		if p != "" {
			p = strings.ToUpper(p[:1]) + p[1:]
		}
		parts[i] = p
	}
	s1 := strings.Join(parts, "")
	if strings.HasPrefix(s, "_") {
		s1 = "_" + s1
	}
	if strings.HasSuffix(s, "_") {
		s1 += "_"
	}
	return s1
}

func (f SField) typeText() string {
	if f.Raw != "" {
		return f.Raw
	}
	t := f.Kind
	switch f.Kind {
	case "anymsg":
		t = "message"
	case "enum", "struct", "msg", "svc":
		t = f.Ref.Name
		if f.Via != "" {
			t = f.Via + "." + t
		}
	}
	if f.List {
		t = "[]" + t
	}
	return t
}

func (d *SDef) text() string {
	var sb strings.Builder
	switch d.Type {
	case "enum":
		fmt.Fprintf(&sb, "enum %s {\n", d.Name)
		for _, v := range d.Values {
			fmt.Fprintf(&sb, "    %s = %s;\n", v.Name, v.Val)
		}
	case "message":
		fmt.Fprintf(&sb, "message %s {\n", d.Name)
		for _, f := range d.Fields {
			fmt.Fprintf(&sb, "    %s %s %d;\n", f.Name, f.typeText(), f.Tag)
		}
	case "struct":
		fmt.Fprintf(&sb, "struct %s {\n", d.Name)
		for _, f := range d.Fields {
			fmt.Fprintf(&sb, "    %s %s;\n", f.Name, f.typeText())
		}
	case "rawheader":
		return "options (\n    go_package=\"x/y\"\n    go_package=\"x/z\"\n)\n"
	case "service", "subservice":
		fmt.Fprintf(&sb, "%s %s {\n", d.Type, d.Name)
		for _, m := range d.Methods {
			fmt.Fprintf(&sb, "    %s%s;\n", m.Name, m.Text)
		}
	}
	sb.WriteString("}\n")
	return sb.String()
}

// write renders the package's .spec files under srcRoot/<key>/.
func (p *SPkg) write(srcRoot, modPath string) error {
	dir := filepath.Join(srcRoot, p.Key)
	if err := os.MkdirAll(dir, 0o755); err != nil {
		return err
	}
	n := p.Files
	if n == 0 {
		n = 1
	}
	if p.RawFile != "" {
		return os.WriteFile(filepath.Join(dir, "f0.spec"), []byte(p.RawFile), 0o644)
	}
	for fi := 0; fi < n; fi++ {
		var sb strings.Builder
		if len(p.Imports) > 0 {
			sb.WriteString("import (\n")
			for _, im := range p.Imports {
				id := im.ID
				if id == "" {
					id = im.Pkg.Key
				}
				if im.Alias != "" {
					fmt.Fprintf(&sb, "    %s %q\n", im.Alias, id)
				} else {
					fmt.Fprintf(&sb, "    %q\n", id)
				}
			}
			sb.WriteString(")\n")
		}
		if !p.NoOpt && fi == 0 {
			fmt.Fprintf(&sb, "options (\n    go_package=%q\n)\n", modPath+"/out/"+p.Key)
		}
		for _, d := range p.Defs {
			if d.File == fi {
				sb.WriteString(d.text())
			}
		}
		if fi == 0 {
			sb.WriteString(p.RawTail)
		}
		if err := os.WriteFile(filepath.Join(dir, fmt.Sprintf("f%d.spec", fi)), []byte(sb.String()), 0o644); err != nil {
			return err
		}
	}
	return nil
}

func (p *SPkg) source() string {
	var sb strings.Builder
	if p.RawFile != "" {
		return strings.Join(strings.Fields(p.RawFile), " ")
	}
	for _, im := range p.Imports {
		id := im.ID
		if id == "" && im.Pkg != nil {
			id = im.Pkg.Key
		}
		fmt.Fprintf(&sb, "import %s %q; ", im.Alias, id)
	}
	for _, d := range p.Defs {
		sb.WriteString(strings.Join(strings.Fields(d.text()), " "))
		sb.WriteString(" ")
	}
	sb.WriteString(strings.Join(strings.Fields(p.RawTail), " "))
	return sb.String()
}

func refKey(d *SDef) string { return d.Pkg.Key + "." + d.Name }

func fieldLit(f SField) string {
	ref := ""
	if f.Ref != nil {
		ref = refKey(f.Ref)
	}
	return fmt.Sprintf("{Name: %q, Go: %q, Tag: %d, Kind: %q, List: %v, Ref: %q}", f.Name, upperCamel(f.Name), f.Tag, f.Kind, f.List, ref)
}

// registry emits zz_registry.go for a generated package.
func (p *SPkg) registry(modPath string) string {
	var sb strings.Builder
	fmt.Fprintf(&sb, "package %s\n\nimport (\n\t\"github.com/basecomplextech/baselibrary/buffer\"\n\t%q\n)\n\nvar _ buffer.Buffer\n\nfunc init() {\n", p.Key, modPath+"/vgen")
	for _, d := range p.Defs {
		switch d.Type {
		case "message":
			fmt.Fprintf(&sb, "\tvgen.RegisterMsg(&vgen.Msg{Key: %q, New: func() any { return New%sWriter() }, Open: func(b []byte) (any, error) { return Open%sErr(b) }, Fields: []vgen.Field{\n", refKey(d), d.Name, d.Name)
			for _, f := range d.Fields {
				fmt.Fprintf(&sb, "\t\t%s,\n", fieldLit(f))
			}
			sb.WriteString("\t}})\n")
		case "struct":
			fmt.Fprintf(&sb, "\tvgen.RegisterStruct(&vgen.Struct{Key: %q, Zero: func() any { return %s{} }, Encode: func(b buffer.Buffer, v any) (int, error) { return Encode%sTo(b, v.(%s)) }, Decode: func(b []byte) (any, int, error) { return Decode%s(b) }, Fields: []vgen.Field{\n", refKey(d), d.Name, d.Name, d.Name, d.Name)
			for i, f := range d.Fields {
				f.Tag = i + 1
				fmt.Fprintf(&sb, "\t\t%s,\n", fieldLit(f))
			}
			sb.WriteString("\t}})\n")
		case "enum":
			var vals []string
			for _, v := range d.Values {
				vals = append(vals, v.Val)
			}
			fmt.Fprintf(&sb, "\tvgen.RegisterEnum(&vgen.Enum{Key: %q, Values: []int32{%s}, Make: func(v int32) any { return %s(v) }})\n", refKey(d), strings.Join(vals, ", "), d.Name)
		}
	}
	sb.WriteString(p.RegExtra)
	sb.WriteString("}\n")
	return sb.String()
}
