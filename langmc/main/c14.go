package main

import (
	"fmt"
	"strings"
)

// C14 — compiler output always compiles; invalid schemas are rejected cleanly.
//
// The valid C05 schemas (must generate and build) plus one mutation operator per language rule.

type c14tmpl struct {
	b                       *builder
	e, s, m, req, resp, svc *SDef
	p                       *SPkg
}

// template builds a fresh valid package: enum E, struct S, messages M/Req/Resp, service Svc.
func (b *builder) template() *c14tmpl {
	t := &c14tmpl{b: b}
	t.e = &SDef{Name: "E", Type: "enum", Values: []SEnumVal{{"ZERO", "0"}, {"ONE", "1"}}}
	t.s = &SDef{Name: "S", Type: "struct", Fields: []SField{{Name: "x", Kind: "int32"}, {Name: "y", Kind: "string"}}}
	t.req = &SDef{Name: "Req", Type: "message", Fields: []SField{{Name: "q", Tag: 1, Kind: "string"}}}
	t.resp = &SDef{Name: "Resp", Type: "message", Fields: []SField{{Name: "r", Tag: 1, Kind: "string"}}}
	t.svc = &SDef{Name: "Svc", Type: "service", Methods: []SMethod{{"call", "(Req) Resp"}, {"ow", "(Req) oneway"}, {"ch", "(Req) (<-Req, Resp->) Resp"}}}
	fields := []SField{{Name: "a", Tag: 1, Kind: "int32"}, {Name: "b", Tag: 2, Kind: "string"}, {Name: "e", Tag: 3, Kind: "enum", Ref: t.e}, {Name: "s", Tag: 4, Kind: "struct", Ref: t.s}, {Name: "l", Tag: 5, Kind: "int64", List: true}}
	t.p = b.msgPkg(fields, t.e, t.s, t.req, t.resp, t.svc)
	t.m = t.p.Defs[len(t.p.Defs)-1]
	return t
}

func c14Schemas(thorough bool) (*SPkg, []*Schema) {
	base, valid := c05Schemas(thorough)
	b := &builder{base: base, n: 5000}
	// every operator is applied under three declaration layouts, because validation walks the declarations in
	// order and a verdict must not depend on it: as written; declarations reversed; and with referrers declared
	// FIRST (a struct containing S and a message using S, M and E placed before everything else).
	mut := func(rule, mention, expect string, f func(t *c14tmpl) []*SPkg) {
		for layout := 0; layout < 3; layout++ {
			t := b.template()
			pk := f(t)
			if pk == nil {
				pk = []*SPkg{t.p}
			}
			name := "mutant: " + rule
			if layout > 0 {
				raw := t.p.RawFile != "" || t.p.RawTail != "" || t.p.NoOpt
				for _, d := range t.p.Defs {
					raw = raw || d.Type == "rawheader"
				}
				if raw {
					break // token-level / raw-text operators have one layout
				}
			}
			switch layout {
			case 1:
				for i, j := 0, len(t.p.Defs)-1; i < j; i, j = i+1, j-1 {
					t.p.Defs[i], t.p.Defs[j] = t.p.Defs[j], t.p.Defs[i]
				}
				name += " [declarations reversed]"
			case 2:
				outer := &SDef{Name: "Outer0", Type: "struct", Pkg: t.p, Fields: []SField{{Name: "inner", Kind: "struct", Ref: t.s}, {Name: "n", Kind: "int64"}}}
				outerM := &SDef{Name: "OuterM", Type: "message", Pkg: t.p, Fields: []SField{{Name: "s", Tag: 1, Kind: "struct", Ref: t.s},
					{Name: "m", Tag: 2, Kind: "msg", Ref: t.m}, {Name: "e", Tag: 3, Kind: "enum", Ref: t.e}, {Name: "o", Tag: 4, Kind: "struct", Ref: outer}}}
				t.p.Defs = append([]*SDef{outer, outerM}, t.p.Defs...)
				name += " [referrers declared first]"
			}
			sc := b.add(name, expect, pk...)
			sc.Rule, sc.Mention = rule, mention
		}
	}
	// sanity: the unmutated template is valid
	mut("none (template itself)", "", "ok", func(t *c14tmpl) []*SPkg { return nil })

	mut("duplicate definition name", "M", "reject", func(t *c14tmpl) []*SPkg {
		d := &SDef{Name: "M", Type: "message", Pkg: t.p, Fields: []SField{{Name: "z", Tag: 1, Kind: "bool"}}}
		t.p.Defs = append(t.p.Defs, d)
		return nil
	})
	mut("duplicate definition name across kinds (enum vs struct)", "E", "reject", func(t *c14tmpl) []*SPkg {
		t.p.Defs = append(t.p.Defs, &SDef{Name: "E", Type: "struct", Pkg: t.p, Fields: []SField{{Name: "z", Kind: "bool"}}})
		return nil
	})
	mut("duplicate field name", "a", "reject", func(t *c14tmpl) []*SPkg {
		t.m.Fields = append(t.m.Fields, SField{Name: "a", Tag: 9, Kind: "bool"})
		return nil
	})
	mut("duplicate struct field name", "x", "reject", func(t *c14tmpl) []*SPkg {
		t.s.Fields = append(t.s.Fields, SField{Name: "x", Kind: "bool"})
		return nil
	})
	mut("duplicate tag", "2", "reject", func(t *c14tmpl) []*SPkg {
		t.m.Fields = append(t.m.Fields, SField{Name: "dup", Tag: 2, Kind: "bool"})
		return nil
	})
	mut("duplicate enum value name", "ONE", "reject", func(t *c14tmpl) []*SPkg {
		t.e.Values = append(t.e.Values, SEnumVal{"ONE", "7"})
		return nil
	})
	mut("duplicate enum number", "1", "reject", func(t *c14tmpl) []*SPkg {
		t.e.Values = append(t.e.Values, SEnumVal{"UNO", "1"})
		return nil
	})
	mut("duplicate import", "base0", "reject", func(t *c14tmpl) []*SPkg {
		t.p.Imports = []SImport{{Pkg: b.base}, {Pkg: b.base}}
		return []*SPkg{b.base, t.p}
	})
	mut("duplicate import alias", "q", "reject", func(t *c14tmpl) []*SPkg {
		other := &SPkg{Key: b.key("o")}
		other.Defs = []*SDef{{Name: "X", Type: "message", Pkg: other, Fields: []SField{{Name: "v", Tag: 1, Kind: "bool"}}}}
		t.p.Imports = []SImport{{Pkg: b.base, Alias: "q"}, {Pkg: other, Alias: "q"}}
		return []*SPkg{b.base, other, t.p}
	})
	mut("duplicate option", "go_package", "reject", func(t *c14tmpl) []*SPkg {
		t.p.NoOpt = true
		t.p.RawTail = ""
		t.p.Defs[0].File = 0
		t.p.Files = 1
		t.p.RawTail = ""
		// options block with the same option twice is rendered through a raw header definition
		t.p.Defs = append([]*SDef{{Name: "", Type: "rawheader"}}, t.p.Defs...)
		return nil
	})
	mut("zero tag", "a", "reject", func(t *c14tmpl) []*SPkg { t.m.Fields[0].Tag = 0; return nil })
	mut("tag 65536 (beyond uint16)", "b", "reject", func(t *c14tmpl) []*SPkg { t.m.Fields[1].Tag = 65536; return nil })
	mut("tag 2^31", "b", "reject", func(t *c14tmpl) []*SPkg { t.m.Fields[1].Tag = 1 << 31; return nil })
	mut("zero tag in method arguments", "q", "reject", func(t *c14tmpl) []*SPkg {
		t.svc.Methods = append(t.svc.Methods, SMethod{"args", "(q string 0) (r string 1)"})
		return nil
	})
	mut("duplicate tag in method results", "2", "reject", func(t *c14tmpl) []*SPkg {
		t.svc.Methods = append(t.svc.Methods, SMethod{"res", "(q string 1) (r string 2, r2 string 2)"})
		return nil
	})
	mut("enum value beyond int32", "HUGE", "reject", func(t *c14tmpl) []*SPkg {
		t.e.Values = append(t.e.Values, SEnumVal{"HUGE", "2147483648"})
		return nil
	})
	mut("enum value beyond int64", "99999999999999999999", "reject", func(t *c14tmpl) []*SPkg {
		t.e.Values = append(t.e.Values, SEnumVal{"HUGE", "99999999999999999999"})
		return nil
	})
	mut("missing zero enum value", "E", "reject", func(t *c14tmpl) []*SPkg { t.e.Values = t.e.Values[1:]; return nil })
	mut("negative enum value", "", "either", func(t *c14tmpl) []*SPkg {
		t.e.Values = append(t.e.Values, SEnumVal{"NEG", "-1"})
		return nil
	})
	mut("unknown field type", "Missing", "reject", func(t *c14tmpl) []*SPkg {
		t.m.Fields = append(t.m.Fields, SField{Name: "u", Tag: 9, Raw: "Missing"})
		return nil
	})
	mut("unknown list element type", "Missing", "reject", func(t *c14tmpl) []*SPkg {
		t.m.Fields = append(t.m.Fields, SField{Name: "u", Tag: 9, Raw: "[]Missing"})
		return nil
	})
	mut("unknown imported type", "Nope", "reject", func(t *c14tmpl) []*SPkg {
		t.p.Imports = []SImport{{Pkg: b.base}}
		t.m.Fields = append(t.m.Fields, SField{Name: "u", Tag: 9, Raw: "base0.Nope"})
		return []*SPkg{b.base, t.p}
	})
	mut("type of an unimported package", "nopkg", "reject", func(t *c14tmpl) []*SPkg {
		t.m.Fields = append(t.m.Fields, SField{Name: "u", Tag: 9, Raw: "nopkg.X"})
		return nil
	})
	mut("service-typed field", "svcf", "reject", func(t *c14tmpl) []*SPkg {
		t.m.Fields = append(t.m.Fields, SField{Name: "svcf", Tag: 9, Kind: "svc", Ref: t.svc})
		return nil
	})
	mut("list of services", "svcs", "reject", func(t *c14tmpl) []*SPkg {
		t.m.Fields = append(t.m.Fields, SField{Name: "svcs", Tag: 9, Kind: "svc", Ref: t.svc, List: true})
		return nil
	})
	// the field-type rules at every site where fields are declared: message fields (above), inline method
	// arguments and inline method results
	for _, site := range []string{"arguments", "results"} {
		site := site
		for _, ft := range []struct{ name, typ, expect string }{
			{"service-typed field", "Svc", "reject"}, {"list of services", "[]Svc", "reject"}, {"unknown field type", "Missing", "reject"},
			{"unknown list element type", "[]Missing", "reject"}, {"list of any", "[]any", "either"}, {"list of untyped message", "[]message", "either"},
			{"list of lists", "[][]int32", "either"},
		} {
			ft := ft
			mention := "f"
			if ft.expect == "either" {
				mention = ""
			}
			mut(ft.name+" in inline method "+site, mention, ft.expect, func(t *c14tmpl) []*SPkg {
				sig := "(q string 1) (f " + ft.typ + " 1)"
				if site == "arguments" {
					sig = "(f " + ft.typ + " 1) (r string 1)"
				}
				t.svc.Methods = append(t.svc.Methods, SMethod{"inl", sig})
				return nil
			})
		}
	}
	mut("list of any", "anys", "either", func(t *c14tmpl) []*SPkg {
		t.m.Fields = append(t.m.Fields, SField{Name: "anys", Tag: 9, Kind: "any", List: true})
		return nil
	})
	mut("list of untyped message", "msgs", "either", func(t *c14tmpl) []*SPkg {
		t.m.Fields = append(t.m.Fields, SField{Name: "msgs", Tag: 9, Kind: "anymsg", List: true})
		return nil
	})
	for _, k := range []string{"any", "message", "[]int32", "Req", "Svc"} {
		k := k
		mut("struct field of non-value type "+k, "bad", "reject", func(t *c14tmpl) []*SPkg {
			t.s.Fields = append(t.s.Fields, SField{Name: "bad", Raw: k})
			return nil
		})
	}
	mut("struct field of type bytes", "", "either", func(t *c14tmpl) []*SPkg {
		t.s.Fields = append(t.s.Fields, SField{Name: "raw", Kind: "bytes"})
		return nil
	})
	mut("self-containing struct", "S", "reject", func(t *c14tmpl) []*SPkg {
		t.s.Fields = append(t.s.Fields, SField{Name: "self", Kind: "struct", Ref: t.s})
		return nil
	})
	mut("mutually recursive structs", "S|S2", "reject", func(t *c14tmpl) []*SPkg {
		s2 := &SDef{Name: "S2", Type: "struct", Pkg: t.p, Fields: []SField{{Name: "back", Kind: "struct", Ref: t.s}}}
		t.s.Fields = append(t.s.Fields, SField{Name: "fwd", Kind: "struct", Ref: s2})
		t.p.Defs = append(t.p.Defs, s2)
		return nil
	})
	mut("channel of scalar type (in)", "badch", "reject", func(t *c14tmpl) []*SPkg {
		t.svc.Methods = append(t.svc.Methods, SMethod{"badch", "(Req) (<-string) Resp"})
		return nil
	})
	mut("channel of scalar type (out)", "badch", "reject", func(t *c14tmpl) []*SPkg {
		t.svc.Methods = append(t.svc.Methods, SMethod{"badch", "(Req) (int64->) Resp"})
		return nil
	})
	mut("channel of enum type", "badch", "reject", func(t *c14tmpl) []*SPkg {
		t.svc.Methods = append(t.svc.Methods, SMethod{"badch", "(Req) (<-E) Resp"})
		return nil
	})
	mut("channel of list type", "", "reject", func(t *c14tmpl) []*SPkg {
		t.svc.Methods = append(t.svc.Methods, SMethod{"badch", "(Req) (<-[]Req) Resp"})
		return nil
	})
	mut("oneway with output", "", "reject", func(t *c14tmpl) []*SPkg {
		t.svc.Methods = append(t.svc.Methods, SMethod{"bad", "(Req) oneway Resp"})
		return nil
	})
	mut("oneway with channel", "", "reject", func(t *c14tmpl) []*SPkg {
		t.svc.Methods = append(t.svc.Methods, SMethod{"bad", "(Req) (<-Req) oneway"})
		return nil
	})
	mut("method input of scalar type", "bad", "reject", func(t *c14tmpl) []*SPkg {
		t.svc.Methods = append(t.svc.Methods, SMethod{"bad", "(string) Resp"})
		return nil
	})
	mut("method output of enum type", "bad", "reject", func(t *c14tmpl) []*SPkg {
		t.svc.Methods = append(t.svc.Methods, SMethod{"bad", "(Req) E"})
		return nil
	})
	mut("duplicate method name", "call", "reject", func(t *c14tmpl) []*SPkg {
		t.svc.Methods = append(t.svc.Methods, SMethod{"call", "(Req) Resp"})
		return nil
	})
	mut("subservice with a oneway method returned from a service", "", "either", func(t *c14tmpl) []*SPkg {
		sub := &SDef{Name: "Sub", Type: "subservice", Pkg: t.p, Methods: []SMethod{{"fire", "(Req) oneway"}}}
		t.p.Defs = append(t.p.Defs, sub)
		t.svc.Methods = append(t.svc.Methods, SMethod{"sub", "() Sub"})
		return nil
	})
	mut("subservice with a channel method", "", "either", func(t *c14tmpl) []*SPkg {
		sub := &SDef{Name: "Sub", Type: "subservice", Pkg: t.p, Methods: []SMethod{{"stream", "(Req) (<-Req) Resp"}}}
		t.p.Defs = append(t.p.Defs, sub)
		t.svc.Methods = append(t.svc.Methods, SMethod{"sub", "() Sub"})
		return nil
	})
	mut("service method returning a (non-sub) service", "Svc", "reject", func(t *c14tmpl) []*SPkg {
		t.svc.Methods = append(t.svc.Methods, SMethod{"again", "() Svc"})
		return nil
	})
	mut("unused import", "", "either", func(t *c14tmpl) []*SPkg {
		t.p.Imports = []SImport{{Pkg: b.base}}
		return []*SPkg{b.base, t.p}
	})
	for _, alias := range []string{"c", "n", "s", "ec", "pc", "b", "ref", "spec", "bin", "rpc", "status", "client", "ch", "msg", "result", "w", "m"} {
		alias := alias
		mut("unused import under alias "+alias+" (substring of / equal to a fixed Go import of the generated file)", "", "either", func(t *c14tmpl) []*SPkg {
			t.p.Imports = []SImport{{Pkg: b.base, Alias: alias}}
			return []*SPkg{b.base, t.p}
		})
		mut("used import under alias "+alias, "", "either", func(t *c14tmpl) []*SPkg {
			t.p.Imports = []SImport{{Pkg: b.base, Alias: alias}}
			e, _, _, _ := b.baseDefs()
			t.m.Fields = append(t.m.Fields, SField{Name: "imp", Tag: 9, Kind: "enum", Ref: e, Via: alias})
			return []*SPkg{b.base, t.p}
		})
	}
	mut("empty struct", "", "either", func(t *c14tmpl) []*SPkg {
		t.p.Defs = append(t.p.Defs, &SDef{Name: "Empty", Type: "struct", Pkg: t.p})
		return nil
	})
	mut("empty message", "", "either", func(t *c14tmpl) []*SPkg {
		t.p.Defs = append(t.p.Defs, &SDef{Name: "Empty", Type: "message", Pkg: t.p})
		return nil
	})
	mut("empty service", "", "either", func(t *c14tmpl) []*SPkg {
		t.p.Defs = append(t.p.Defs, &SDef{Name: "Empty", Type: "service", Pkg: t.p})
		return nil
	})
	for _, typ := range []string{"service", "message", "struct", "enum"} {
		typ := typ
		mut("lower-case "+typ+" name", "", "either", func(t *c14tmpl) []*SPkg {
			d := &SDef{Name: "lower", Type: typ, Pkg: t.p}
			switch typ {
			case "service":
				d.Methods = []SMethod{{"call", "(Req) Resp"}, {"args", "(q string 1) (r string 1)"}}
			case "enum":
				d.Values = []SEnumVal{{"LZERO", "0"}, {"LONE", "1"}}
			case "struct":
				d.Fields = []SField{{Name: "x", Kind: "int32"}}
			default:
				d.Fields = []SField{{Name: "x", Tag: 1, Kind: "int32"}}
			}
			t.p.Defs = append(t.p.Defs, d)
			return nil
		})
	}
	mut("user message named like a generated request message", "", "either", func(t *c14tmpl) []*SPkg {
		t.svc.Methods = append(t.svc.Methods, SMethod{"args", "(q string 1) (r string 1)"})
		t.p.Defs = append(t.p.Defs, &SDef{Name: "SvcArgsRequest", Type: "message", Pkg: t.p, Fields: []SField{{Name: "z", Tag: 1, Kind: "bool"}}})
		return nil
	})
	mut("user message in ANOTHER FILE named like a generated request message", "SvcArgsRequest", "reject", func(t *c14tmpl) []*SPkg {
		t.svc.Methods = append(t.svc.Methods, SMethod{"args", "(q string 1) (r string 1)"})
		t.p.Defs = append(t.p.Defs, &SDef{Name: "SvcArgsRequest", Type: "message", Pkg: t.p, File: 1, Fields: []SField{{Name: "z", Tag: 1, Kind: "bool"}}})
		t.p.Files = 2
		return nil
	})
	mut("user message in ANOTHER FILE named like a generated response message", "SvcArgsResponse", "reject", func(t *c14tmpl) []*SPkg {
		t.svc.Methods = append(t.svc.Methods, SMethod{"args", "(q string 1) (r string 1)"})
		t.p.Defs = append(t.p.Defs, &SDef{Name: "SvcArgsResponse", Type: "message", Pkg: t.p, File: 1, Fields: []SField{{Name: "z", Tag: 1, Kind: "bool"}}})
		t.p.Files = 2
		return nil
	})
	for _, nm := range []string{"_", "init"} {
		nm := nm
		mut("definition named "+nm+" (an identifier that cannot be declared as a Go type)", "", "either", func(t *c14tmpl) []*SPkg {
			t.p.Defs = append(t.p.Defs, &SDef{Name: nm, Type: "message", Pkg: t.p, Fields: []SField{{Name: "z", Tag: 1, Kind: "bool"}}})
			return nil
		})
	}
	mut("user message named like a generated client type", "", "either", func(t *c14tmpl) []*SPkg {
		t.p.Defs = append(t.p.Defs, &SDef{Name: "SvcClient", Type: "message", Pkg: t.p, Fields: []SField{{Name: "z", Tag: 1, Kind: "bool"}}})
		return nil
	})
	mut("missing import", "nowhere", "reject", func(t *c14tmpl) []*SPkg {
		t.p.Imports = []SImport{{ID: "nowhere"}}
		return nil
	})
	mut("self import", "", "reject", func(t *c14tmpl) []*SPkg {
		t.p.Imports = []SImport{{ID: t.p.Key}}
		return nil
	})
	mut("circular import", "", "reject", func(t *c14tmpl) []*SPkg {
		other := &SPkg{Key: b.key("c")}
		other.Defs = []*SDef{{Name: "X", Type: "message", Pkg: other, Fields: []SField{{Name: "v", Tag: 1, Kind: "bool"}}}}
		other.Imports = []SImport{{ID: t.p.Key}}
		t.p.Imports = []SImport{{Pkg: other}}
		// the importing package is compiled first and pulls the other one in
		return []*SPkg{t.p, other}
	})
	mut("empty package (no definitions)", "", "either", func(t *c14tmpl) []*SPkg {
		t.p.Defs = nil
		return nil
	})
	mut("keyword as definition name", "", "reject", func(t *c14tmpl) []*SPkg {
		t.p.RawTail = "message import { a int32 1; }\n"
		return nil
	})
	mut("lexical error: unterminated string in options", "", "reject", func(t *c14tmpl) []*SPkg {
		t.p.RawTail = "options (\n  x=\"abc\n)\n"
		return nil
	})
	mut("lexical error: invalid character", "", "reject", func(t *c14tmpl) []*SPkg {
		t.p.RawTail = "message Z { a int32 1; } @\n"
		return nil
	})
	mut("field named like a generated method (clone)", "", "either", func(t *c14tmpl) []*SPkg {
		t.m.Fields = append(t.m.Fields, SField{Name: "clone", Tag: 9, Kind: "bool"})
		return nil
	})
	mut("two fields mapping to one Go identifier (a_b / aB)", "", "either", func(t *c14tmpl) []*SPkg {
		t.m.Fields = append(t.m.Fields, SField{Name: "x_y", Tag: 9, Kind: "bool"}, SField{Name: "X_Y", Tag: 10, Kind: "bool"})
		return nil
	})
	// token-level edits of the template source pushed through the whole pipeline: every accepted text must build
	{
		t := b.template()
		var sb strings.Builder
		fmt.Fprintf(&sb, "options (\n go_package=%q\n)\n", "lcmod/out/KEY")
		for _, d := range t.p.Defs {
			sb.WriteString(d.text())
		}
		lx, _ := lex(sb.String())
		toks := make([]string, len(lx))
		for i, l := range lx {
			toks[i] = l.text
		}
		repl := []string{"0", "65536", "0x10", "any", "message", "E", "S", "Svc", "string", "[", "]", ";", "oneway", "\"abc"}
		step := 4
		if thorough {
			step = 1
		}
		emit := func(ts []string, what string) {
			p := &SPkg{Key: b.key("t")}
			p.RawFile = strings.ReplaceAll(strings.Join(ts, "\n"), "lcmod/out/KEY", "lcmod/out/"+p.Key)
			sc := b.add("token edit: "+what, "either", p)
			sc.Rule = "token-level edit of a valid schema"
		}
		for i := 8; i < len(toks); i += step { // tokens after the options block
			emit(append(append([]string{}, toks[:i]...), toks[i+1:]...), fmt.Sprintf("token %d (%s) deleted", i, toks[i]))
			emit(append(append(append([]string{}, toks[:i+1]...), toks[i]), toks[i+1:]...), fmt.Sprintf("token %d (%s) duplicated", i, toks[i]))
			for ri, r := range repl {
				if !thorough && (i/step+ri)%3 != 0 {
					continue
				}
				rp := append([]string{}, toks...)
				rp[i] = r
				emit(rp, fmt.Sprintf("token %d (%s) replaced by %s", i, toks[i], r))
			}
		}
	}
	return base, append(valid, b.out...)
}
