package main

// placeholder until the mutation operators are written
func c14Schemas(thorough bool) (*SPkg, []*Schema) { return nil, nil }
func c16Schemas(thorough bool) (*SPkg, []*Schema) { return nil, nil }
