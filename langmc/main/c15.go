package main

import (
	"fmt"
	"os"
	"path/filepath"
	"strconv"
	"strings"
	"text/scanner"

	"github.com/basecomplextech/spec/internal/lang/syntax"
	vh "github.com/basecomplextech/spec/internal/lang/zz_vharness"
	"github.com/basecomplextech/spec/zzverif/seqmc/vlib"
)

// C15 — the schema parser records exactly what the source says, or errors.
func init() { checks["c15"] = c15 }

type c15replay struct {
	Kind string `json:"kind"`
	Src  string `json:"src"`
}

var c15ints = []int{0, 1, 255, 65535, 1<<31 - 1, 1<<63 - 1}
var c15names = []string{"a", "snake_case", "any", "import", "message", "options", "struct", "service", "subservice", "enum", "oneway"}

func ty(name string) *syntax.Type { return &syntax.Type{Kind: syntax.GetKind(name), Name: name} }
func tyAny() *syntax.Type         { return &syntax.Type{Kind: syntax.KindAny, Name: "any"} }
func tyMsg() *syntax.Type         { return &syntax.Type{Kind: syntax.KindAnyMessage, Name: "message"} }
func tyImp(pkg, name string) *syntax.Type {
	return &syntax.Type{Kind: syntax.KindReference, Name: name, Import: pkg}
}
func tyList(e *syntax.Type) *syntax.Type { return &syntax.Type{Kind: syntax.KindList, Element: e} }

func c15types() []*syntax.Type {
	return []*syntax.Type{ty("bool"), ty("int32"), ty("string"), ty("bytes"), ty("bin128"), tyAny(), tyMsg(), ty("Ref"), tyImp("pkg", "Ref"),
		tyList(ty("int64")), tyList(ty("Ref")), tyList(tyImp("pkg", "Ref")), tyList(tyAny()), tyList(tyMsg()),
		// qualified references whose name is spelled like a builtin type (keywords are contextual for field and
		// method names only, not for type names, so none of those here)
		tyImp("pkg", "string"), tyImp("pkg", "int64"), tyList(tyImp("pkg", "bytes")), tyImp("pkg", "bin128")}
}

// c15defs enumerates definition shapes (<=2 fields/values/methods each).
func c15defs() []*syntax.Definition {
	var out []*syntax.Definition
	types := c15types()
	// enums
	out = append(out, &syntax.Definition{Type: syntax.DefinitionEnum, Name: "E0", Enum: &syntax.Enum{}})
	for i, n := range c15names {
		v1 := &syntax.EnumValue{Name: strings.ToUpper(n[:1]) + n[1:], Value: c15ints[i%len(c15ints)]}
		out = append(out, &syntax.Definition{Type: syntax.DefinitionEnum, Name: "E1", Enum: &syntax.Enum{Values: []*syntax.EnumValue{v1}}})
		v2 := &syntax.EnumValue{Name: n, Value: c15ints[(i+3)%len(c15ints)]}
		out = append(out, &syntax.Definition{Type: syntax.DefinitionEnum, Name: "E2", Enum: &syntax.Enum{Values: []*syntax.EnumValue{v2, v1}}})
	}
	// messages
	out = append(out, &syntax.Definition{Type: syntax.DefinitionMessage, Name: "M0", Message: &syntax.Message{}})
	for i, t := range types {
		f1 := &syntax.Field{Name: c15names[i%len(c15names)], Type: t, Tag: c15ints[1+i%(len(c15ints)-1)]}
		out = append(out, &syntax.Definition{Type: syntax.DefinitionMessage, Name: "M1", Message: &syntax.Message{Fields: []*syntax.Field{f1}}})
		for j, t2 := range types {
			if (i+j)%3 != 0 {
				continue
			}
			f2 := &syntax.Field{Name: c15names[(i+j+1)%len(c15names)], Type: t2, Tag: c15ints[1+(i+j)%(len(c15ints)-1)]}
			out = append(out, &syntax.Definition{Type: syntax.DefinitionMessage, Name: "M2", Message: &syntax.Message{Fields: []*syntax.Field{f1, f2}}})
		}
	}
	// structs
	out = append(out, &syntax.Definition{Type: syntax.DefinitionStruct, Name: "S0", Struct: &syntax.Struct{}})
	for i, t := range types {
		f1 := &syntax.StructField{Name: c15names[i%len(c15names)], Type: t}
		f2 := &syntax.StructField{Name: c15names[(i+4)%len(c15names)], Type: types[(i+5)%len(types)]}
		out = append(out, &syntax.Definition{Type: syntax.DefinitionStruct, Name: "S1", Struct: &syntax.Struct{Fields: []*syntax.StructField{f1}}},
			&syntax.Definition{Type: syntax.DefinitionStruct, Name: "S2", Struct: &syntax.Struct{Fields: []*syntax.StructField{f1, f2}}})
	}
	// services: every method shape
	fl := func(n int) syntax.Fields {
		var fs syntax.Fields
		for i := 0; i < n; i++ {
			fs = append(fs, &syntax.Field{Name: c15names[(i*2+1)%len(c15names)], Type: types[(i*3+2)%len(types)], Tag: c15ints[1+i]})
		}
		return fs
	}
	var methods []*syntax.Method
	inputs := []any{syntax.Fields(nil), ty("Req"), tyImp("pkg", "Req"), fl(1), fl(2), tyImp("pkg", "string")}
	outputs := []any{nil, ty("Resp"), tyImp("pkg", "Resp"), fl(1), fl(2), tyImp("pkg", "bytes")}
	chans := []*syntax.MethodChannel{nil, {In: ty("In")}, {Out: ty("Out")}, {In: tyList(ty("In")), Out: tyImp("pkg", "Out")}, {In: tyImp("pkg", "int32"), Out: tyImp("pkg", "bool")}}
	k := 0
	for _, in := range inputs {
		for _, o := range outputs {
			for _, ch := range chans {
				k++
				methods = append(methods, &syntax.Method{Name: c15names[k%len(c15names)], Input: in, Output: o, Channel: ch})
			}
		}
		methods = append(methods, &syntax.Method{Name: "ow", Input: in, Oneway: true})
	}
	for i, m := range methods {
		for _, sub := range []bool{false, true} {
			out = append(out, &syntax.Definition{Type: syntax.DefinitionService, Name: "Svc", Service: &syntax.Service{Sub: sub, Methods: []*syntax.Method{m}}})
			if i%4 == 0 {
				out = append(out, &syntax.Definition{Type: syntax.DefinitionService, Name: "Svc2", Service: &syntax.Service{Sub: sub, Methods: []*syntax.Method{m, methods[(i+7)%len(methods)]}}})
			}
		}
	}
	out = append(out, &syntax.Definition{Type: syntax.DefinitionService, Name: "Svc0", Service: &syntax.Service{}})
	return out
}

func c15headers() (imps [][]*syntax.Import, opts [][]*syntax.Option) {
	i1 := &syntax.Import{ID: "m1"}
	i2 := &syntax.Import{ID: "github.com/x/m2", Alias: "pkg"}
	imps = [][]*syntax.Import{nil, {i1}, {i2}, {i1, i2}, {i2, i1}}
	o1 := &syntax.Option{Name: "go_package", Value: "x/y"}
	o2 := &syntax.Option{Name: "other", Value: ""}
	opts = [][]*syntax.Option{nil, {o1}, {o1, o2}}
	return
}

type c15s struct {
	r          *vlib.Result
	a          *vlib.Args
	idx        int64
	nontrivial int64
	accepted   int64
}

func (c *c15s) next() bool { c.idx++; return c.a.Mine(c.idx) }

// roundTrip: render(tree) under a layout must parse back to exactly the tree.
func (c *c15s) roundTrip(f *syntax.File, l vh.Layout, what string) {
	src, _ := vh.Render(f, l)
	c.r.Evaluations++
	got, err, pan := vh.Parse(src)
	want := vh.Dump(f)
	switch {
	case pan != "":
		c.r.Violate("parser panics on a grammatical source", fmt.Sprintf("%s\nsource:\n%s\npanic: %s", what, src, clipS(pan, 1200)), c15replay{"roundtrip", src})
	case err != nil:
		c.r.Violate("grammatical source rejected: "+sigOfS(err.Error()), fmt.Sprintf("%s\nsource:\n%s\nerror: %v", what, src, err), c15replay{"roundtrip", src})
	default:
		if d := vh.Dump(got); d != want {
			c.r.Violate("parsed tree differs from the source ("+firstDiff(d, want)+")", fmt.Sprintf("%s\nsource:\n%s\n--- parsed:\n%s--- written:\n%s", what, src, d, want), c15replay{"roundtrip", src})
		}
	}
}

func firstDiff(a, b string) string {
	la, lb := strings.Split(a, "\n"), strings.Split(b, "\n")
	for i := 0; i < len(la) && i < len(lb); i++ {
		if la[i] != lb[i] {
			w := strings.Fields(lb[i])
			if len(w) > 0 {
				return "first difference in a '" + w[0] + "' line"
			}
		}
	}
	return "different number of records"
}

func sigOfS(s string) string { return sigOf(fmt.Errorf("%s", s)) }

func sigOf(err error) string {
	s := err.Error()
	out := make([]byte, 0, len(s))
	last := false
	for i := 0; i < len(s); i++ {
		ch := s[i]
		if ch >= '0' && ch <= '9' {
			if !last {
				out = append(out, '#')
			}
			last = true
			continue
		}
		last = false
		out = append(out, ch)
	}
	if len(out) > 140 {
		out = out[:140]
	}
	return string(out)
}

func clipS(s string, n int) string {
	if len(s) > n {
		return s[:n]
	}
	return s
}

// lexemes of a text (same scanner configuration as the lexer), used for the value oracle of accepted texts.
type lexeme struct {
	tok  rune
	text string
}

func lex(src string) (out []lexeme, errs int) {
	var s scanner.Scanner
	s.Init(strings.NewReader(src))
	s.Error = func(*scanner.Scanner, string) {}
	for {
		t := s.Scan()
		if t == scanner.EOF {
			break
		}
		if t == scanner.Comment {
			continue
		}
		out = append(out, lexeme{t, s.TokenText()})
	}
	return out, s.ErrorCount
}

// significant: the token texts that a tree must account for (literals normalised to their values).
func significant(lx []lexeme) []string {
	var out []string
	for _, l := range lx {
		switch {
		case l.text == ";" || l.text == ",":
			continue
		case l.tok == scanner.Int:
			if v, err := strconv.ParseInt(strings.ReplaceAll(l.text, "_", ""), 0, 64); err == nil {
				out = append(out, fmt.Sprintf("int:%d", v))
				continue
			}
		case l.tok == scanner.String:
			if u, err := strconv.Unquote(l.text); err == nil {
				out = append(out, "str:"+u)
				continue
			}
		}
		out = append(out, l.text)
	}
	// an empty `import ( )` / `options ( )` block declares nothing and has no tree node: the printer omits it
	var res []string
	for i := 0; i < len(out); i++ {
		if (out[i] == "import" || out[i] == "options") && i+2 < len(out) && out[i+1] == "(" && out[i+2] == ")" {
			i += 2
			continue
		}
		res = append(res, out[i])
	}
	return res
}

func equalStrings(a, b []string) bool {
	if len(a) != len(b) {
		return false
	}
	for i := range a {
		if a[i] != b[i] {
			return false
		}
	}
	return true
}

// arbitrary: any text must give an error or a tree that re-prints to a fixed point and whose integers and
// strings are the values of the source lexemes.
func (c *c15s) arbitrary(src, what string) {
	c.r.Evaluations++
	f, err, pan := vh.Parse(src)
	if pan != "" {
		c.r.Violate("parser panics: "+sigOfS(firstLine(pan)), fmt.Sprintf("%s\nsource: %q\npanic: %s", what, src, clipS(pan, 1500)), c15replay{"arbitrary", src})
		return
	}
	if err != nil {
		return
	}
	c.accepted++
	if f == nil {
		c.r.Violate("no error and no tree", fmt.Sprintf("%s\nsource: %q", what, src), c15replay{"arbitrary", src})
		return
	}
	lx, nerr := lex(src)
	if nerr > 0 {
		c.r.Violate("text with a lexical error is accepted", fmt.Sprintf("%s\nsource: %q\nthe scanner reported %d error(s) (e.g. unterminated literal) but Parse returned a tree:\n%s", what, src, nerr, vh.Dump(f)), c15replay{"arbitrary", src})
		return
	}
	// values: every INTEGER lexeme in order == every integer of the tree in order; same for strings
	var wantInts []string
	var wantStrs []string
	for _, l := range lx {
		switch l.tok {
		case scanner.Int:
			wantInts = append(wantInts, l.text)
		case scanner.String, scanner.RawString:
			wantStrs = append(wantStrs, l.text)
		}
	}
	gotInts := vh.Ints(f)
	if len(gotInts) == len(wantInts) {
		for i, w := range wantInts {
			v, perr := strconv.ParseInt(strings.ReplaceAll(w, "_", ""), 0, 64)
			if perr != nil || int64(gotInts[i]) != v {
				c.r.Violate("integer literal recorded with a different value", fmt.Sprintf("%s\nsource: %q\nliteral %s is recorded as %d", what, src, w, gotInts[i]), c15replay{"arbitrary", src})
				return
			}
		}
	}
	gotStrs := vh.Strings(f)
	if len(gotStrs) == len(wantStrs) {
		for i, w := range wantStrs {
			u, uerr := strconv.Unquote(w)
			raw := w
			if len(w) >= 2 {
				raw = w[1 : len(w)-1]
			}
			if uerr != nil || (gotStrs[i] != u && gotStrs[i] != raw) {
				c.r.Violate("string literal recorded with a different value", fmt.Sprintf("%s\nsource: %q\nliteral %s is recorded as %q", what, src, w, gotStrs[i]), c15replay{"arbitrary", src})
				return
			}
		}
	}
	// fixed point
	src2, _ := vh.Render(f, vh.Layout{Sep: " ", Comment: -1})
	// token conservation: the tree re-prints to the token sequence of the source (comments and the optional
	// separators ';' and ',' aside; integers and strings by value): no source token is silently dropped
	if a, b := significant(lx), significant(func() []lexeme { l, _ := lex(src2); return l }()); !equalStrings(a, b) {
		i := 0
		for i < len(a) && i < len(b) && a[i] == b[i] {
			i++
		}
		ta, tb := "<end>", "<end>"
		if i < len(a) {
			ta = a[i]
		}
		if i < len(b) {
			tb = b[i]
		}
		c.r.Violate("accepted text and its tree differ in their token sequence (a source token is dropped or changed): source "+sigOfS(ta)+" tree "+sigOfS(tb),
			fmt.Sprintf("%s\nsource: %q\nre-printed tree: %q\nfirst difference at significant token %d: source has %s, tree has %s", what, src, src2, i, ta, tb), c15replay{"arbitrary", src})
		return
	}
	f2, err2, pan2 := vh.Parse(src2)
	if pan2 != "" || err2 != nil || vh.Dump(f2) != vh.Dump(f) {
		c.r.Violate("accepted text does not re-print to a fixed point", fmt.Sprintf("%s\nsource: %q\nre-printed: %q\nerr=%v", what, src, src2, err2), c15replay{"arbitrary", src})
	}
}

func firstLine(s string) string {
	if i := strings.IndexByte(s, '\n'); i >= 0 {
		return s[:i]
	}
	return s
}

var c15tokens = []string{
	"import", "options", "enum", "message", "struct", "service", "subservice", "oneway", "any",
	"A", "b", "int32", "string", "pkg",
	"(", ")", "{", "}", "[", "]", ";", ",", ".", "=", "<", "-", ">",
	"1", "0", "0x10", "010", "0b11", "1_000", "99999999999999999999", "1.5", "'c'",
	`"s"`, "`raw`", `"abc`, "é", "/*c*/", "@",
	// private-use runes in the range of goyacc's token numbers (57344+), a string ending in an escaped quote
	"\ue002", "\ue00b", "\ue00c", `"ab\""`, `"`,
}

func c15(a *vlib.Args) {
	r := vlib.NewResult("C15", a)
	c := &c15s{r: r, a: a}
	if a.Replay != "" {
		var rp c15replay
		vlib.LoadReplay(a.Replay, &rp)
		f, err, pan := vh.Parse(rp.Src)
		fmt.Printf("replay: source %q\nerr=%v panic=%q\n%s", rp.Src, err, firstLine(pan), vh.Dump(f))
		c.arbitrary(rp.Src, "replay")
		for _, v := range r.Violations {
			fmt.Println("replay:", v.Sig)
		}
		return
	}
	defs := c15defs()
	imps, opts := c15headers()
	plain := []vh.Layout{{Sep: " ", Comment: -1}, {Sep: "\n", Comment: -1}, {Sep: " \t\n ", Comment: -1, TrailSep: true}, {Sep: "min", Comment: -1}}
	// (a1) single-definition files: every header combination x every layout incl. a comment in EVERY token gap
	for di, d := range defs {
		for ii, im := range imps {
			for oi, op := range opts {
				if !c.next() {
					continue
				}
				f := &syntax.File{Imports: im, Options: op, Definitions: []*syntax.Definition{d}}
				c.nontrivial++
				what := fmt.Sprintf("tree: def#%d imports#%d options#%d", di, ii, oi)
				for _, l := range plain {
					c.roundTrip(f, l, what)
				}
				if (ii+oi)%4 == 0 || a.Thorough() {
					_, gaps := vh.Render(f, plain[0])
					for g := 0; g < gaps; g++ {
						c.roundTrip(f, vh.Layout{Sep: " ", Comment: g, CommentS: "// c ; } ) \"\n"}, what+fmt.Sprintf(" line comment in gap %d", g))
						c.roundTrip(f, vh.Layout{Sep: "min", Comment: g, CommentS: "/* c ; } */"}, what+fmt.Sprintf(" block comment in gap %d, minimal separators", g))
					}
				}
				if c.idx%997 == 1 {
					s, _ := vh.Render(f, plain[0])
					r.Sample(8, map[string]string{"kind": "tree round trip", "source": clipS(s, 300)})
				}
			}
		}
	}
	// (a2) two-definition files (order matters), plain layouts
	step := 1
	if !a.Thorough() {
		step = 7 // quick: every 7th second definition per first definition, offset rotating => every pair of KINDS still occurs
	}
	for i, d1 := range defs {
		for j := i % step; j < len(defs); j += step {
			if !c.next() {
				continue
			}
			f := &syntax.File{Imports: imps[(i+j)%len(imps)], Options: opts[(i+j)%len(opts)], Definitions: []*syntax.Definition{d1, defs[j]}}
			c.nontrivial++
			c.roundTrip(f, plain[(i+j)%len(plain)], fmt.Sprintf("tree: defs #%d,#%d", i, j))
		}
	}
	treeEvals := r.Evaluations
	// (b) all token strings of length <=3 (quick) / <=4 (thorough)
	maxTok := 3
	if a.Thorough() {
		maxTok = 4
	}
	var rec func(prefix []string)
	rec = func(prefix []string) {
		if c.next() {
			c.arbitrary(strings.Join(prefix, "\n"), "token string")
		}
		if len(prefix) == maxTok {
			return
		}
		for _, t := range c15tokens {
			rec(append(prefix, t))
		}
	}
	rec(nil)
	// (c) every single-token deletion / duplication / replacement / adjacent swap of the checked-in schema files
	repo := os.Getenv("VERIF_REPO_DIR")
	if repo == "" {
		repo = "/repo"
	}
	files, _ := filepath.Glob(filepath.Join(repo, "internal/lang/parser/*.spec"))
	more, _ := filepath.Glob(filepath.Join(repo, "proto/*/*.spec"))
	files = append(files, more...)
	for _, path := range files {
		b, err := os.ReadFile(path)
		if err != nil {
			r.Note("cannot read %s: %v", path, err)
			continue
		}
		lx, _ := lex(string(b))
		toks := make([]string, len(lx))
		for i, l := range lx {
			toks[i] = l.text
		}
		join := func(t []string) string { return strings.Join(t, "\n") } // one token per line: an unterminated literal ends at its line
		if c.next() {
			c.arbitrary(join(toks), "re-tokenised "+filepath.Base(path))
		}
		for i := range toks {
			if !c.next() {
				continue
			}
			base := filepath.Base(path)
			del := append(append([]string{}, toks[:i]...), toks[i+1:]...)
			c.arbitrary(join(del), fmt.Sprintf("%s: token %d deleted", base, i))
			dup := append(append(append([]string{}, toks[:i+1]...), toks[i]), toks[i+1:]...)
			c.arbitrary(join(dup), fmt.Sprintf("%s: token %d duplicated", base, i))
			if i+1 < len(toks) {
				sw := append([]string{}, toks...)
				sw[i], sw[i+1] = sw[i+1], sw[i]
				c.arbitrary(join(sw), fmt.Sprintf("%s: tokens %d,%d swapped", base, i, i+1))
			}
			for _, t := range c15tokens {
				rp := append([]string{}, toks...)
				rp[i] = t
				c.arbitrary(join(rp), fmt.Sprintf("%s: token %d (%s) replaced by %s", base, i, toks[i], t))
			}
		}
	}
	r.Distinct = c.nontrivial + c.accepted
	r.Outcomes["tree round trips"] = treeEvals
	r.Outcomes["arbitrary texts"] = r.Evaluations - treeEvals
	r.Outcomes["arbitrary texts accepted by the parser"] = c.accepted
	r.Bounds["definition_shapes"] = len(defs)
	r.Bounds["token_alphabet"] = len(c15tokens)
	r.Bounds["max_token_string"] = maxTok
	r.Bounds["edited_files"] = len(files)
	r.Rule = fmt.Sprintf("(a) every syntax tree with one definition from %d shapes (enums, messages, structs with <=2 members over every type form and every contextual keyword as name, integers from {0,1,255,65535,2^31-1,2^63-1}; services/subservices with every method shape: 5 inputs x 5 outputs x 4 channel forms + oneway) x 5 import x 3 option headers, rendered with 3 plain layouts and with a line/block comment in EVERY token gap; two-definition files; print->parse must reproduce the canonical dump. (b) ALL token strings of length <=%d over a %d-token alphabet incl. lexical edge tokens (hex/octal/binary/underscore/overflowing integers, float, char, raw and unterminated strings, non-ASCII identifier). (c) every single-token deletion, duplication, adjacent swap and replacement by each alphabet token of the %d checked-in .spec files. For (b,c): no panic; an accepted text must be free of lexical errors, record its integer and string literals with their source values, and re-print to a fixed point", len(defs), maxTok, len(c15tokens), len(files))
	r.Write(a)
}
