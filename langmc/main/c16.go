package main

func c16Schemas(thorough bool) (*SPkg, []*Schema) { return nil, nil }
