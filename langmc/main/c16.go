package main

import (
	"fmt"
	"strings"
)

// C16 — messages stay readable across schema evolution.
//
// Base messages A and every A' derived by an edit sequence of length <=2 from {add a field of each kind with a
// fresh tag (before: small tag / after: tag > 255 congruent mod 256 to an existing tag), remove field i, rename field i, reorder declarations, change nothing}. Both
// versions are generated and compiled; the reflective checker writes with one version and reads with the other.

type c16kind struct {
	name string
	mk   func(b *builder, name string, tag int) SField
}

func c16kinds(b *builder) []c16kind {
	e, s, _, sub := b.baseDefs()
	sc := func(k string) c16kind {
		return c16kind{k, func(b *builder, n string, t int) SField { return SField{Name: n, Tag: t, Kind: k} }}
	}
	return []c16kind{sc("int32"), sc("string"), sc("bytes"), sc("bool"), sc("float64"), sc("bin128"), sc("uint64"),
		{"enum", func(b *builder, n string, t int) SField {
			return SField{Name: n, Tag: t, Kind: "enum", Ref: e, Via: "base0"}
		}},
		{"struct", func(b *builder, n string, t int) SField {
			return SField{Name: n, Tag: t, Kind: "struct", Ref: s, Via: "base0"}
		}},
		{"msg", func(b *builder, n string, t int) SField {
			return SField{Name: n, Tag: t, Kind: "msg", Ref: sub, Via: "base0"}
		}},
		{"[]int64", func(b *builder, n string, t int) SField { return SField{Name: n, Tag: t, Kind: "int64", List: true} }},
		{"[]string", func(b *builder, n string, t int) SField { return SField{Name: n, Tag: t, Kind: "string", List: true} }},
		{"[]msg", func(b *builder, n string, t int) SField {
			return SField{Name: n, Tag: t, Kind: "msg", Ref: sub, Via: "base0", List: true}
		}},
		sc("any"),
	}
}

type c16edit struct {
	name  string
	apply func(fs []SField) []SField
}

func c16edits(b *builder, kinds []c16kind) []c16edit {
	var out []c16edit
	out = append(out, c16edit{"nothing", func(fs []SField) []SField { return fs }})
	for ki, k := range kinds {
		k, ki := k, ki
		out = append(out, c16edit{"add " + k.name + " after", func(fs []SField) []SField {
			// the new tag is congruent mod 256 to the tag of an existing field (a tag compared after narrowing to
			// one byte would alias them) and lies beyond the small-table tag range
			alias := 300 + ki
			if len(fs) > 0 {
				alias = 256 + fs[ki%len(fs)].Tag
			}
			return append(append([]SField{}, fs...), k.mk(b, fmt.Sprintf("added_%d_%d", ki, len(fs)), freshTag(fs, alias)))
		}})
		out = append(out, c16edit{"add " + k.name + " before (small tag)", func(fs []SField) []SField {
			return append([]SField{k.mk(b, fmt.Sprintf("first_%d_%d", ki, len(fs)), freshTag(fs, 1))}, fs...)
		}})
	}
	for i := 0; i < 3; i++ {
		i := i
		out = append(out, c16edit{fmt.Sprintf("remove field %d", i), func(fs []SField) []SField {
			if i >= len(fs) {
				return fs
			}
			return append(append([]SField{}, fs[:i]...), fs[i+1:]...)
		}})
		out = append(out, c16edit{fmt.Sprintf("rename field %d", i), func(fs []SField) []SField {
			if i >= len(fs) {
				return fs
			}
			c := append([]SField{}, fs...)
			c[i].Name = c[i].Name + "_renamed"
			return c
		}})
	}
	out = append(out, c16edit{"reverse declarations", func(fs []SField) []SField {
		c := append([]SField{}, fs...)
		for i, j := 0, len(c)-1; i < j; i, j = i+1, j-1 {
			c[i], c[j] = c[j], c[i]
		}
		return c
	}})
	out = append(out, c16edit{"rotate declarations", func(fs []SField) []SField {
		if len(fs) < 2 {
			return fs
		}
		return append(append([]SField{}, fs[1:]...), fs[0])
	}})
	return out
}

func freshTag(fs []SField, start int) int {
	t := start
	for {
		used := false
		for _, f := range fs {
			if f.Tag == t {
				used = true
			}
		}
		if !used {
			return t
		}
		t++
	}
}

func fieldsKey(fs []SField) string {
	var p []string
	for _, f := range fs {
		p = append(p, fmt.Sprintf("%s:%d:%s", f.Name, f.Tag, f.typeText()))
	}
	return strings.Join(p, ";")
}

func c16Schemas(thorough bool) (*SPkg, []*Schema) {
	b := &builder{base: basePkg(), n: 7000}
	kinds := c16kinds(b)
	edits := c16edits(b, kinds)
	nb := 6
	if thorough {
		nb = len(kinds)
	}
	for bi := 0; bi < nb; bi++ {
		// tags across the 255/256 boundary (big table as soon as the third field is written), or all small (small table)
		tags := []int{2, 255, 256}
		if bi%2 == 1 {
			tags = []int{2, 44, 200}
		}
		// base A: three fields of rotating kinds across the tag 255/256 boundary
		var fa []SField
		for j := 0; j < 3; j++ {
			k := kinds[(bi+j*5)%len(kinds)]
			fa = append(fa, k.mk(b, fmt.Sprintf("f%d", j), tags[j]))
		}
		pa := b.msgPkg(fa)
		seen := map[string]bool{}
		addPair := func(name string, fb []SField) {
			key := fieldsKey(fb)
			if seen[key] {
				return
			}
			seen[key] = true
			pb := b.msgPkg(fb)
			pb.RegExtra = fmt.Sprintf("\tvgen.RegisterPair(%q, %q)\n", pa.Key+".M", pb.Key+".M")
			sc := b.add(fmt.Sprintf("evolution base#%d [%s]: %s", bi, fieldsKey(fa), name), "ok", b.base, pa, pb)
			sc.Rule = name
		}
		for ei, e1 := range edits {
			addPair(e1.name, e1.apply(fa))
			for ej, e2 := range edits {
				if !thorough && (ei*7+ej+bi)%83 != 0 {
					continue
				}
				if thorough && (ei+ej+bi)%3 != 0 {
					continue
				}
				addPair(e1.name+" + "+e2.name, e2.apply(e1.apply(fa)))
			}
		}
	}
	return b.base, b.out
}
