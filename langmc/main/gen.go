package main

import (
	"bytes"
	"encoding/json"
	"fmt"
	"os"
	"path/filepath"
	"sort"
	"strings"

	vh "github.com/basecomplextech/spec/internal/lang/zz_vharness"
	"github.com/basecomplextech/spec/zzverif/seqmc/vlib"
)

// gen: writes a scratch Go module with schemas, runs the real compiler+generator in-process, emits registries.
func init() { checks["gen"] = gen }

const modPath = "lcmod"

var scalarKinds = []string{"bool", "byte", "int16", "int32", "int64", "uint16", "uint32", "uint64", "float32", "float64", "bin64", "bin128", "bin256", "string", "bytes"}
var tagClasses = []int{1, 2, 255, 256, 65535}

type builder struct {
	n    int
	base *SPkg
	out  []*Schema
}

func (b *builder) key(sfx string) string {
	b.n++
	return fmt.Sprintf("p%04d%s", b.n, sfx)
}

func basePkg() *SPkg {
	p := &SPkg{Key: "base0"}
	e := &SDef{Name: "E", Type: "enum", Values: []SEnumVal{{"ZERO", "0"}, {"ONE", "1"}, {"BIG", "2147483647"}, {"NEG", "-0"}}, Pkg: p}
	e.Values = e.Values[:3]
	s := &SDef{Name: "S", Type: "struct", Fields: []SField{{Name: "a", Kind: "int32"}, {Name: "b", Kind: "string"}}, Pkg: p}
	s2 := &SDef{Name: "S2", Type: "struct", Fields: []SField{{Name: "s", Kind: "struct", Ref: s}, {Name: "e", Kind: "enum", Ref: e}, {Name: "x", Kind: "bin128"}, {Name: "f", Kind: "float64"}, {Name: "by", Kind: "bytes"}}, Pkg: p}
	sub := &SDef{Name: "Sub", Type: "message", Fields: []SField{{Name: "value", Tag: 1, Kind: "string"}, {Name: "n", Tag: 300, Kind: "int64"}}, Pkg: p}
	p.Defs = []*SDef{e, s, s2, sub}
	return p
}

func (b *builder) baseDefs() (e, s, s2, sub *SDef) {
	return b.base.Defs[0], b.base.Defs[1], b.base.Defs[2], b.base.Defs[3]
}

func (b *builder) add(id string, expect string, pkgs ...*SPkg) *Schema {
	sc := &Schema{ID: id, Pkgs: pkgs, Expect: expect}
	b.out = append(b.out, sc)
	return sc
}

// msgPkg builds a package with one message M over the given fields (+ local defs).
func (b *builder) msgPkg(fields []SField, locals ...*SDef) *SPkg {
	p := &SPkg{Key: b.key("")}
	usesBase := false
	for _, f := range fields {
		if f.Ref != nil && f.Ref.Pkg == b.base {
			usesBase = true
		}
	}
	for _, l := range locals {
		l.Pkg = p
		for _, f := range l.Fields {
			if f.Ref != nil && f.Ref.Pkg == b.base {
				usesBase = true
			}
		}
	}
	if usesBase {
		p.Imports = []SImport{{Pkg: b.base}}
	}
	m := &SDef{Name: "M", Type: "message", Fields: fields, Pkg: p}
	p.Defs = append(append([]*SDef{}, locals...), m)
	return p
}

// c05Schemas: the bounded schema grammar for "generated code is a faithful translation".
func c05Schemas(thorough bool) (*SPkg, []*Schema) {
	b := &builder{base: basePkg()}
	e, s, s2, sub := b.baseDefs()
	// every scalar kind, scalar + list, across tag classes
	for _, k := range scalarKinds {
		for ti, t := range tagClasses {
			t2 := tagClasses[(ti+1)%len(tagClasses)]
			p := b.msgPkg([]SField{{Name: "v", Tag: t, Kind: k}, {Name: "vs", Tag: t2, Kind: k, List: true}})
			b.add(fmt.Sprintf("kind %s scalar tag %d, list tag %d", k, t, t2), "ok", p)
		}
	}
	// any / untyped message fields (scalar position)
	b.add("any and message fields", "ok", b.msgPkg([]SField{{Name: "a", Tag: 1, Kind: "any"}, {Name: "m", Tag: 256, Kind: "anymsg"}, {Name: "x", Tag: 2, Kind: "int32"}}))
	// references: imported enum/struct/message, scalar and list, plain import
	b.add("imported enum/struct/message", "ok", b.base, b.msgPkg([]SField{
		{Name: "e", Tag: 1, Kind: "enum", Ref: e, Via: "base0"}, {Name: "s", Tag: 2, Kind: "struct", Ref: s, Via: "base0"}, {Name: "s2", Tag: 255, Kind: "struct", Ref: s2, Via: "base0"},
		{Name: "sub", Tag: 256, Kind: "msg", Ref: sub, Via: "base0"}}))
	b.add("lists of imported enum/struct/message", "ok", b.base, b.msgPkg([]SField{
		{Name: "es", Tag: 1, Kind: "enum", Ref: e, Via: "base0", List: true}, {Name: "ss", Tag: 65535, Kind: "struct", Ref: s, Via: "base0", List: true},
		{Name: "subs", Tag: 3, Kind: "msg", Ref: sub, Via: "base0", List: true}}))
	// aliased import
	{
		p := b.msgPkg([]SField{{Name: "sub", Tag: 1, Kind: "msg", Ref: sub, Via: "q"}, {Name: "e", Tag: 2, Kind: "enum", Ref: e, Via: "q"}, {Name: "ss", Tag: 3, Kind: "struct", Ref: s, Via: "q", List: true}})
		p.Imports = []SImport{{Pkg: b.base, Alias: "q"}}
		b.add("aliased import", "ok", b.base, p)
	}
	// local definitions incl. nested struct, enum in struct, recursive message
	{
		le := &SDef{Name: "Color", Type: "enum", Values: []SEnumVal{{"UNDEFINED", "0"}, {"RED", "1"}, {"deep_blue", "70000"}}}
		ls := &SDef{Name: "Point", Type: "struct", Fields: []SField{{Name: "x", Kind: "int64"}, {Name: "y", Kind: "float32"}, {Name: "c", Kind: "enum", Ref: le}}}
		ls2 := &SDef{Name: "Line", Type: "struct", Fields: []SField{{Name: "from", Kind: "struct", Ref: ls}, {Name: "to", Kind: "struct", Ref: ls}, {Name: "ok", Kind: "bool"}, {Name: "id", Kind: "bin256"}}}
		node := &SDef{Name: "Node", Type: "message", Fields: []SField{{Name: "value", Tag: 1, Kind: "string"}}}
		node.Fields = append(node.Fields, SField{Name: "next", Tag: 2, Kind: "msg", Ref: node}, SField{Name: "kids", Tag: 3, Kind: "msg", Ref: node, List: true})
		p := b.msgPkg([]SField{{Name: "color", Tag: 1, Kind: "enum", Ref: le}, {Name: "line", Tag: 2, Kind: "struct", Ref: ls2}, {Name: "points", Tag: 300, Kind: "struct", Ref: ls, List: true},
			{Name: "root", Tag: 4, Kind: "msg", Ref: node}, {Name: "colors", Tag: 5, Kind: "enum", Ref: le, List: true}}, le, ls, ls2, node)
		b.add("local enum/structs (nested)/recursive message", "ok", p)
	}
	// name classes
	names := [][]string{{"snake_case_name", "with_2_digits", "x"}, {"any", "import", "message"}, {"options", "struct", "service"}, {"subservice", "type", "func"},
		{"var", "range", "select"}, {"go", "map", "chan"}, {"interface", "package", "return"}, {"default", "case", "mixedCase"}, {"string", "int32", "bool"}, {"UPPER", "Title_Case", "a_b_c"}}
	for ni, ns := range names {
		var fs []SField
		for i, n := range ns {
			fs = append(fs, SField{Name: n, Tag: tagClasses[(ni+i)%len(tagClasses)], Kind: scalarKinds[(ni*3+i)%len(scalarKinds)]})
		}
		b.add("field names "+strings.Join(ns, ","), "ok", b.msgPkg(fs))
		// the same names as struct members and enum values
		st := &SDef{Name: "St", Type: "struct"}
		for i, n := range ns {
			st.Fields = append(st.Fields, SField{Name: n, Kind: scalarKinds[(ni+i*2)%len(scalarKinds)]})
		}
		b.add("struct member names "+strings.Join(ns, ","), "ok", b.msgPkg([]SField{{Name: "st", Tag: 1, Kind: "struct", Ref: st}}, st))
	}
	// multi-file package: definitions split over two files referencing each other
	{
		le := &SDef{Name: "Kind", Type: "enum", Values: []SEnumVal{{"NONE", "0"}, {"SOME", "5"}}, File: 1}
		other := &SDef{Name: "Other", Type: "message", Fields: []SField{{Name: "k", Tag: 1, Kind: "enum", Ref: le}}, File: 1}
		p := b.msgPkg([]SField{{Name: "o", Tag: 1, Kind: "msg", Ref: other}, {Name: "k", Tag: 2, Kind: "enum", Ref: le}}, le, other)
		p.Files = 2
		b.add("two files in one package", "ok", p)
	}
	// many fields: big table
	{
		var fs []SField
		for i := 0; i < 40; i++ {
			fs = append(fs, SField{Name: fmt.Sprintf("f%d", i), Tag: 250 + i, Kind: scalarKinds[i%len(scalarKinds)]})
		}
		b.add("40 fields across the tag 255/256 boundary", "ok", b.msgPkg(fs))
	}
	// services: every method shape (compile only)
	{
		req := &SDef{Name: "Req", Type: "message", Fields: []SField{{Name: "q", Tag: 1, Kind: "string"}}}
		resp := &SDef{Name: "Resp", Type: "message", Fields: []SField{{Name: "r", Tag: 1, Kind: "string"}}}
		subsvc := &SDef{Name: "Sub", Type: "subservice", Methods: []SMethod{{"hello", "(msg string 1) (msg string 1)"}, {"nested", "() Sub2"}}}
		subsvc2 := &SDef{Name: "Sub2", Type: "subservice", Methods: []SMethod{{"leaf", "(Req) Resp"}}}
		svc := &SDef{Name: "Svc", Type: "service", Methods: []SMethod{
			{"m0", "()"}, {"m1", "(a int32 1, b string 2, c bool 3) (a int32 1, b string 2)"}, {"m2", "(Req) Resp"}, {"m3", "(Req) oneway"}, {"m4", "(x bin128 1) oneway"},
			{"m11", "(Req) (<-Req) Resp"}, {"m12", "(Req) (Resp->) Resp"}, {"m13", "(Req) (<-Req, Resp->) Resp"}, {"m14", "(Req) (<-Req, Resp->)"}, {"m15", "() (Resp->) (n int64 1)"},
			{"sub", "(id bin128 1) Sub"}, {"type", "(func string 1) (range int32 1)"}, {"list_args", "(xs []int64 1, ms []Req 2) (ys []string 1)"}}}
		p := b.msgPkg([]SField{{Name: "x", Tag: 1, Kind: "int32"}}, req, resp, subsvc2, subsvc, svc)
		b.add("service with every method shape", "ok", p)
		svci := &SDef{Name: "SvcI", Type: "service", Methods: []SMethod{{"get", "(base0.Sub) base0.Sub"}, {"stream", "(id int64 1) (<-base0.Sub, base0.Sub->) (ok bool 1)"}, {"e", "(e base0.E 1, s base0.S 2) (es []base0.E 1)"}}}
		p2 := b.msgPkg([]SField{{Name: "x", Tag: 1, Kind: "int32"}}, svci)
		p2.Imports = []SImport{{Pkg: b.base}}
		b.add("service over imported types", "ok", b.base, p2)
		// the import is referenced by service definitions only (by reference, no inline arguments): in the generator's
		// skip-rpc mode it is an unused import, in the full mode a used one
		svcr := &SDef{Name: "SvcR", Type: "service", Methods: []SMethod{{"get", "(base0.Sub) base0.Sub"}, {"stream", "(base0.Sub) (<-base0.Sub, base0.Sub->) base0.Sub"}, {"fire", "(base0.Sub) oneway"}}}
		p3 := b.msgPkg([]SField{{Name: "x", Tag: 1, Kind: "int32"}}, svcr)
		p3.Imports = []SImport{{Pkg: b.base}}
		b.add("import referenced by services only", "ok", b.base, p3)
	}
	return b.base, b.out
}

// ---- driver ----

type genEntry struct {
	ID        string   `json:"id"`
	Pkgs      []string `json:"pkgs"`
	Expect    string   `json:"expect"`
	Rule      string   `json:"rule,omitempty"`
	Mention   string   `json:"mention,omitempty"`
	Generated bool     `json:"generated"`
	Error     string   `json:"error,omitempty"`
	Panic     string   `json:"panic,omitempty"`
	Regen     string   `json:"regen,omitempty"`
	Source    string   `json:"source"`
	Registry  bool     `json:"registry"`
}

func gen(a *vlib.Args) {
	dir := os.Getenv("VERIF_GEN_DIR")
	mode := a.Part
	if dir == "" || mode == "" {
		fmt.Fprintln(os.Stderr, "gen: VERIF_GEN_DIR and -part <c05|c14|c16> required")
		os.Exit(2)
	}
	var base *SPkg
	var schemas []*Schema
	switch mode {
	case "c05":
		base, schemas = c05Schemas(a.Thorough())
	case "c14":
		base, schemas = c14Schemas(a.Thorough())
	case "c16":
		base, schemas = c16Schemas(a.Thorough())
	default:
		fmt.Fprintln(os.Stderr, "gen: unknown mode", mode)
		os.Exit(2)
	}
	src, out, out2 := filepath.Join(dir, "src"), filepath.Join(dir, "out"), filepath.Join(dir, "out2")
	must(os.MkdirAll(src, 0o755))
	must(os.MkdirAll(out, 0o755))
	// the shared base package is generated by every shard (each shard has its own module directory)
	generated := map[string]bool{}
	genPkg := func(p *SPkg, dst string) (error, string) {
		return vh.Generate([]string{src}, filepath.Join(src, p.Key), filepath.Join(dst, p.Key), false)
	}
	writeReg := func(p *SPkg) {
		must(os.WriteFile(filepath.Join(out, p.Key, "zz_registry.go"), []byte(p.registry(modPath)), 0o644))
	}
	if base != nil {
		must(base.write(src, modPath))
		if err, pan := genPkg(base, out); err != nil || pan != "" {
			fmt.Fprintln(os.Stderr, "gen: base package failed:", err, pan)
			os.Exit(2)
		}
		writeReg(base)
		generated[base.Key] = true
	}
	var entries []genEntry
	for i, sc := range schemas {
		if !a.Mine(int64(i)) {
			continue
		}
		en := genEntry{ID: sc.ID, Expect: sc.Expect, Rule: sc.Rule, Mention: sc.Mention, Generated: true, Registry: mode != "c14"}
		var srcs []string
		for _, p := range sc.Pkgs {
			en.Pkgs = append(en.Pkgs, p.Key)
			if generated[p.Key] {
				continue
			}
			must(p.write(src, modPath))
			srcs = append(srcs, p.Key+": "+p.source())
			err, pan := genPkg(p, out)
			if pan != "" {
				en.Generated, en.Panic = false, clipS(pan, 2500)
				break
			}
			if err != nil {
				en.Generated, en.Error = false, err.Error()
				break
			}
			generated[p.Key] = true
			if mode == "c14" && sc.Expect == "ok" {
				// the generator's other mode: without service / client code (--skip-rpc). The output goes to a package
				// directory of its own and must be accepted by the Go compiler like the full output.
				norpc := p.Key + "_norpc"
				err, pan := vh.Generate([]string{src}, filepath.Join(src, p.Key), filepath.Join(out, norpc), true)
				if pan != "" {
					en.Generated, en.Panic = false, "skip-rpc mode: "+clipS(pan, 2500)
					break
				}
				if err != nil {
					en.Generated, en.Error = false, "skip-rpc mode: "+err.Error()
					break
				}
				en.Pkgs = append(en.Pkgs, norpc)
			}
			if mode != "c14" {
				writeReg(p)
				// regeneration must be byte-identical
				if err2, pan2 := genPkg(p, out2); err2 == nil && pan2 == "" {
					a1, _ := filepath.Glob(filepath.Join(out, p.Key, "*_generated.go"))
					for _, f := range a1 {
						b1, _ := os.ReadFile(f)
						b2, _ := os.ReadFile(filepath.Join(out2, p.Key, filepath.Base(f)))
						if !bytes.Equal(b1, b2) {
							en.Regen = "regenerating " + filepath.Base(f) + " from the same sources gives different bytes"
						}
					}
				} else {
					en.Regen = fmt.Sprintf("second generation fails: %v %s", err2, firstLine(pan2))
				}
			}
		}
		en.Source = strings.Join(srcs, " || ")
		if !en.Generated {
			// remove partial output so that the module still builds
			for _, p := range sc.Pkgs {
				if !generated[p.Key] {
					os.RemoveAll(filepath.Join(out, p.Key))
				}
			}
		}
		entries = append(entries, en)
	}
	os.RemoveAll(out2)
	sort.Slice(entries, func(i, j int) bool { return entries[i].ID < entries[j].ID })
	b, _ := json.MarshalIndent(map[string]any{"mode": mode, "total_schemas": len(schemas), "entries": entries}, "", " ")
	must(os.WriteFile(filepath.Join(dir, "manifest.json"), b, 0o644))
	fmt.Printf("gen: %d of %d schemas in this shard, %d generated\n", len(entries), len(schemas), func() int {
		n := 0
		for _, e := range entries {
			if e.Generated {
				n++
			}
		}
		return n
	}())
}

func must(err error) {
	if err != nil {
		fmt.Fprintln(os.Stderr, "langmc:", err)
		os.Exit(2)
	}
}
