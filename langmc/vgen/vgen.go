// Package vgen: generic, reflection-based checker of generated spec code. Every generated package of a scratch
// module registers a descriptor of its schema (emitted by the harness from the SAME description that produced
// the .spec text); Check drives the generated writers/readers with boundary values and compares with the
// dynamic tag-based API.
package vgen

import (
	"bytes"
	"fmt"
	"math"
	"reflect"
	"sort"
	"strings"

	"github.com/basecomplextech/baselibrary/bin"
	"github.com/basecomplextech/baselibrary/buffer"
	"github.com/basecomplextech/spec"
)

type Field struct {
	Name string // schema name
	Go   string // Go method name
	Tag  uint16
	Kind string // bool byte int16 int32 int64 uint16 uint32 uint64 float32 float64 bin64 bin128 bin256 string bytes any anymsg enum struct msg
	List bool
	Ref  string // "<pkgkey>.<Name>" for enum/struct/msg
}

type Msg struct {
	Key    string // "<pkgkey>.<Name>"
	New    func() any
	Open   func(b []byte) (any, error)
	Fields []Field
}

type Struct struct {
	Key    string
	Zero   func() any // zero value
	Fields []Field    // Go = field name
	Encode func(b buffer.Buffer, v any) (int, error)
	Decode func(b []byte) (any, int, error)
}

type Enum struct {
	Key    string
	Values []int32
	Make   func(v int32) any
}

var Msgs = map[string]*Msg{}
var Structs = map[string]*Struct{}
var Enums = map[string]*Enum{}

func RegisterMsg(m *Msg)       { Msgs[m.Key] = m }
func RegisterStruct(s *Struct) { Structs[s.Key] = s }
func RegisterEnum(e *Enum)     { Enums[e.Key] = e }

// ---- values ----

// val returns the variant-th boundary value of a scalar kind as a Go value of the accessor's/writer's parameter type.
func scalar(kind string, variant int, tag uint16) any {
	seed := int64(tag)*7 + 3
	switch kind {
	case "bool":
		return variant != 0
	case "byte":
		return []byte{0, 0xff, byte(seed)}[variant]
	case "int16":
		return []int16{0, math.MinInt16, int16(seed)}[variant]
	case "int32":
		return []int32{0, math.MinInt32, int32(seed * 1000)}[variant]
	case "int64":
		return []int64{0, math.MinInt64, seed << 33}[variant]
	case "uint16":
		return []uint16{0, math.MaxUint16, uint16(seed)}[variant]
	case "uint32":
		return []uint32{0, math.MaxUint32, uint32(seed * 70000)}[variant]
	case "uint64":
		return []uint64{0, math.MaxUint64, uint64(seed) << 40}[variant]
	case "float32":
		return []float32{0, float32(math.Inf(-1)), float32(seed) + 0.5}[variant]
	case "float64":
		return []float64{0, math.MaxFloat64, float64(seed) + 0.25}[variant]
	case "bin64":
		var a [8]byte
		fill(a[:], variant, byte(seed))
		return bin.Bin64(a)
	case "bin128":
		var a [16]byte
		fill(a[:], variant, byte(seed))
		return bin.New128(a)
	case "bin256":
		var a [32]byte
		fill(a[:], variant, byte(seed))
		return bin.New256(a)
	case "string":
		return []string{"", strings.Repeat("\xfd", 253), fmt.Sprintf("s%d", seed)}[variant]
	case "bytes":
		return [][]byte{nil, bytes.Repeat([]byte{0}, 253), []byte(fmt.Sprintf("b%d", seed))}[variant]
	}
	panic("vgen: no scalar kind " + kind)
}

func fill(p []byte, variant int, b byte) {
	for i := range p {
		switch variant {
		case 1:
			p[i] = 0xff
		case 2:
			p[i] = b + byte(i)
		}
	}
}

func isScalar(kind string) bool {
	switch kind {
	case "any", "anymsg", "enum", "struct", "msg":
		return false
	}
	return true
}

// structValue builds a value of a generated struct type with every member set to the variant.
func structValue(key string, variant int, depth int) any {
	s := Structs[key]
	if s == nil {
		panic("vgen: unknown struct " + key)
	}
	v := reflect.New(reflect.TypeOf(s.Zero())).Elem()
	for _, f := range s.Fields {
		fv := v.FieldByName(f.Go)
		if !fv.IsValid() {
			panic(fmt.Sprintf("vgen: struct %s has no Go field %s (schema field %q)", key, f.Go, f.Name))
		}
		var x any
		switch f.Kind {
		case "struct":
			x = structValue(f.Ref, variant, depth+1)
		case "enum":
			x = enumValue(f.Ref, variant)
		default:
			x = scalar(f.Kind, variant, f.Tag)
		}
		fv.Set(reflect.ValueOf(x).Convert(fv.Type()))
	}
	return v.Interface()
}

func enumValue(key string, variant int) any {
	e := Enums[key]
	if e == nil {
		panic("vgen: unknown enum " + key)
	}
	vals := append([]int32{}, e.Values...)
	sort.Slice(vals, func(i, j int) bool { return vals[i] < vals[j] })
	v := vals[0]
	switch variant {
	case 0:
		v = 0
	case 1:
		v = vals[len(vals)-1]
	case 2:
		v = vals[len(vals)/2]
	}
	return e.Make(v)
}

// ---- writing through the generated writer ----

func call(v reflect.Value, method string, args ...any) []reflect.Value {
	m := v.MethodByName(method)
	if !m.IsValid() {
		panic(fmt.Sprintf("vgen: %s has no method %s", v.Type(), method))
	}
	in := make([]reflect.Value, len(args))
	for i, a := range args {
		av := reflect.ValueOf(a)
		pt := m.Type().In(i)
		if a == nil {
			av = reflect.Zero(pt)
		} else if av.Type() != pt && av.Type().ConvertibleTo(pt) {
			av = av.Convert(pt)
		}
		in[i] = av
	}
	return m.Call(in)
}

func errOf(rv []reflect.Value) error {
	if len(rv) == 0 {
		return nil
	}
	last := rv[len(rv)-1]
	if last.Type().Implements(reflect.TypeOf((*error)(nil)).Elem()) && !last.IsNil() {
		return last.Interface().(error)
	}
	return nil
}

// setField writes one field (variant) through the generated writer w.
func setField(w reflect.Value, f Field, variant int, depth int) error {
	switch {
	case f.List:
		lw := call(w, f.Go)[0] // ValueListWriter[T] or MessageListWriter[TWriter]
		n := 1 + variant       // 1, 2 or 3 elements
		for i := 0; i < n; i++ {
			switch f.Kind {
			case "msg":
				ew := call(lw, "Add")[0]
				if err := fillMsg(ew, Msgs[f.Ref], (variant+i)%3, depth+1); err != nil {
					return err
				}
				if err := errOf(call(ew, "End")); err != nil {
					return err
				}
			case "struct":
				if err := errOf(call(lw, "Add", structValue(f.Ref, (variant+i)%3, 0))); err != nil {
					return err
				}
			case "enum":
				if err := errOf(call(lw, "Add", enumValue(f.Ref, (variant+i)%3))); err != nil {
					return err
				}
			default:
				if err := errOf(call(lw, "Add", scalar(f.Kind, (variant+i)%3, f.Tag))); err != nil {
					return err
				}
			}
		}
		return errOf(call(lw, "End"))
	case f.Kind == "msg":
		sw := call(w, f.Go)[0]
		if err := fillMsg(sw, Msgs[f.Ref], variant, depth+1); err != nil {
			return err
		}
		return errOf(call(sw, "End"))
	case f.Kind == "struct":
		call(w, f.Go, structValue(f.Ref, variant, 0))
	case f.Kind == "enum":
		call(w, f.Go, enumValue(f.Ref, variant))
	case f.Kind == "any":
		fw := call(w, f.Go)[0].Interface().(spec.FieldWriter)
		return fw.Int64(int64(f.Tag) + int64(variant))
	case f.Kind == "anymsg":
		mw := call(w, f.Go)[0].Interface().(spec.MessageWriter)
		mw.Field(7).Int32(int32(f.Tag) + int32(variant))
		return mw.End()
	default:
		call(w, f.Go, scalar(f.Kind, variant, f.Tag))
	}
	return nil
}

// fillMsg sets every field of the message (nested messages only to depth 2: recursion in schemas).
func fillMsg(w reflect.Value, m *Msg, variant int, depth int) error {
	if m == nil {
		panic("vgen: unknown message")
	}
	for _, f := range m.Fields {
		if depth >= 2 && (f.Kind == "msg") {
			continue
		}
		if err := setField(w, f, variant, depth); err != nil {
			return fmt.Errorf("%s.%s: %w", m.Key, f.Name, err)
		}
	}
	return nil
}

// ---- expected values (reference model): the same walk produces a plain description ----

func expectField(f Field, variant int, depth int) string {
	switch {
	case f.List:
		var parts []string
		for i := 0; i < 1+variant; i++ {
			g := f
			g.List = false
			parts = append(parts, expectField(g, (variant+i)%3, depth))
		}
		return "[" + strings.Join(parts, ",") + "]"
	case f.Kind == "msg":
		return expectMsg(Msgs[f.Ref], variant, depth+1)
	case f.Kind == "struct":
		return fmt.Sprintf("%v", structValue(f.Ref, variant, 0))
	case f.Kind == "enum":
		return fmt.Sprintf("%d", reflect.ValueOf(enumValue(f.Ref, variant)).Int())
	case f.Kind == "any":
		return fmt.Sprintf("any:%d", int64(f.Tag)+int64(variant))
	case f.Kind == "anymsg":
		return fmt.Sprintf("anymsg:%d", int32(f.Tag)+int32(variant))
	}
	return show(scalar(f.Kind, variant, f.Tag))
}

func expectMsg(m *Msg, variant int, depth int) string {
	var parts []string
	for _, f := range m.Fields {
		if depth >= 2 && f.Kind == "msg" {
			continue
		}
		parts = append(parts, fmt.Sprintf("%d=%s", f.Tag, expectField(f, variant, depth)))
	}
	return "{" + strings.Join(parts, " ") + "}"
}

func show(v any) string {
	switch x := v.(type) {
	case float32:
		return fmt.Sprintf("f32:%08x", math.Float32bits(x))
	case float64:
		return fmt.Sprintf("f64:%016x", math.Float64bits(x))
	case []byte:
		return fmt.Sprintf("%x", x)
	case string:
		return fmt.Sprintf("%q", x)
	case spec.String:
		return fmt.Sprintf("%q", string(x))
	case spec.Bytes:
		return fmt.Sprintf("%x", []byte(x))
	}
	return fmt.Sprintf("%v", v)
}

// ---- reading through the generated accessors ----

func readField(m reflect.Value, f Field, depth int) string {
	v := call(m, f.Go)[0]
	switch {
	case f.List:
		n := int(call(v, "Len")[0].Int())
		var parts []string
		for i := 0; i < n; i++ {
			e := call(v, "Get", i)[0]
			switch f.Kind {
			case "msg":
				parts = append(parts, readMsg(e, Msgs[f.Ref], depth+1))
			case "enum":
				parts = append(parts, fmt.Sprintf("%d", e.Int()))
			default:
				parts = append(parts, show(e.Interface()))
			}
		}
		return "[" + strings.Join(parts, ",") + "]"
	case f.Kind == "msg":
		return readMsg(v, Msgs[f.Ref], depth+1)
	case f.Kind == "struct":
		return fmt.Sprintf("%v", v.Interface())
	case f.Kind == "enum":
		return fmt.Sprintf("%d", v.Int())
	case f.Kind == "any":
		return fmt.Sprintf("any:%d", v.Interface().(spec.Value).Int64())
	case f.Kind == "anymsg":
		return fmt.Sprintf("anymsg:%d", v.Interface().(spec.Message).Int32(7))
	}
	return show(v.Interface())
}

func readMsg(m reflect.Value, d *Msg, depth int) string {
	var parts []string
	for _, f := range d.Fields {
		if depth >= 2 && f.Kind == "msg" {
			continue
		}
		parts = append(parts, fmt.Sprintf("%d=%s", f.Tag, readField(m, f, depth)))
	}
	return "{" + strings.Join(parts, " ") + "}"
}

// ---- dynamic (tag-based) API ----

var wireType = map[string][]spec.Type{
	"bool": {spec.TypeTrue, spec.TypeFalse}, "byte": {spec.TypeByte}, "int16": {spec.TypeInt16}, "int32": {spec.TypeInt32}, "int64": {spec.TypeInt64},
	"uint16": {spec.TypeUint16}, "uint32": {spec.TypeUint32}, "uint64": {spec.TypeUint64}, "float32": {spec.TypeFloat32}, "float64": {spec.TypeFloat64},
	"bin64": {spec.TypeBin64}, "bin128": {spec.TypeBin128}, "bin256": {spec.TypeBin256}, "string": {spec.TypeString}, "bytes": {spec.TypeBytes},
	"enum": {spec.TypeInt32}, "struct": {spec.TypeStruct}, "msg": {spec.TypeMessage, spec.TypeBigMessage}, "anymsg": {spec.TypeMessage, spec.TypeBigMessage},
}

// dynField reads the field by declared tag and wire type through the dynamic API.
func dynField(m spec.Message, f Field, depth int) (string, error) {
	v := m.Field(f.Tag)
	if f.List {
		t := v.Type()
		if t != spec.TypeList && t != spec.TypeBigList {
			return "", fmt.Errorf("tag %d: wire type %v, declared list", f.Tag, t)
		}
		l := v.List()
		var parts []string
		for i := 0; i < l.Len(); i++ {
			s, err := dynValue(l.Get(i), f, depth)
			if err != nil {
				return "", err
			}
			parts = append(parts, s)
		}
		return "[" + strings.Join(parts, ",") + "]", nil
	}
	return dynValue(v, f, depth)
}

func dynValue(v spec.Value, f Field, depth int) (string, error) {
	if want, ok := wireType[f.Kind]; ok {
		okT := false
		for _, w := range want {
			if v.Type() == w {
				okT = true
			}
		}
		if !okT {
			return "", fmt.Errorf("tag %d (%s): wire type %v, declared %s", f.Tag, f.Name, v.Type(), f.Kind)
		}
	}
	switch f.Kind {
	case "bool":
		return show(v.Bool()), nil
	case "byte":
		return show(v.Byte()), nil
	case "int16":
		return show(v.Int16()), nil
	case "int32":
		return show(v.Int32()), nil
	case "int64":
		return show(v.Int64()), nil
	case "uint16":
		return show(v.Uint16()), nil
	case "uint32":
		return show(v.Uint32()), nil
	case "uint64":
		return show(v.Uint64()), nil
	case "float32":
		return show(v.Float32()), nil
	case "float64":
		return show(v.Float64()), nil
	case "bin64":
		return show(v.Bin64()), nil
	case "bin128":
		return show(v.Bin128()), nil
	case "bin256":
		return show(v.Bin256()), nil
	case "string":
		return show(v.String()), nil
	case "bytes":
		return show(v.Bytes()), nil
	case "enum":
		return fmt.Sprintf("%d", v.Int32()), nil
	case "any":
		return fmt.Sprintf("any:%d", v.Int64()), nil
	case "anymsg":
		return fmt.Sprintf("anymsg:%d", v.Message().Int32(7)), nil
	case "struct":
		s := Structs[f.Ref]
		x, _, err := s.Decode(v)
		if err != nil {
			return "", err
		}
		return fmt.Sprintf("%v", x), nil
	case "msg":
		d := Msgs[f.Ref]
		var parts []string
		mm := v.Message()
		for _, g := range d.Fields {
			if depth+1 >= 2 && g.Kind == "msg" {
				continue
			}
			s, err := dynField(mm, g, depth+1)
			if err != nil {
				return "", err
			}
			parts = append(parts, fmt.Sprintf("%d=%s", g.Tag, s))
		}
		return "{" + strings.Join(parts, " ") + "}", nil
	}
	return "", fmt.Errorf("unknown kind %s", f.Kind)
}

// CheckMsg runs every value set through writer -> reader and the dynamic API; returns the problems found.
func CheckMsg(d *Msg) (problems []string) {
	defer func() {
		if e := recover(); e != nil {
			problems = append(problems, fmt.Sprintf("%s: panic: %v", d.Key, e))
		}
	}()
	type set struct {
		name    string
		variant int
		only    int // field index, -1: all
	}
	sets := []set{{"all-zero", 0, -1}, {"all-boundary", 1, -1}, {"all-distinct", 2, -1}}
	for i := range d.Fields {
		sets = append(sets, set{"one-hot " + d.Fields[i].Name, 2, i})
	}
	for _, s := range sets {
		w := reflect.ValueOf(d.New())
		var want []string
		for i, f := range d.Fields {
			if s.only >= 0 && s.only != i {
				continue
			}
			if err := setField(w, f, s.variant, 0); err != nil {
				problems = append(problems, fmt.Sprintf("%s [%s] writing %s: %v", d.Key, s.name, f.Name, err))
				return
			}
			want = append(want, fmt.Sprintf("%d=%s", f.Tag, expectField(f, s.variant, 0)))
		}
		rv := call(w, "Build")
		if err := errOf(rv); err != nil {
			problems = append(problems, fmt.Sprintf("%s [%s] Build: %v", d.Key, s.name, err))
			continue
		}
		m := rv[0]
		raw := call(m, "Unwrap")[0].Interface().(spec.Message).Raw()
		dyn, _, perr := spec.ParseMessage(raw)
		if perr != nil {
			problems = append(problems, fmt.Sprintf("%s [%s] generated bytes do not parse: %v", d.Key, s.name, perr))
			continue
		}
		for i, f := range d.Fields {
			isSet := s.only < 0 || s.only == i
			has := call(m, "Has"+f.Go)[0].Bool()
			if has != isSet {
				problems = append(problems, fmt.Sprintf("%s [%s] Has%s=%v want %v", d.Key, s.name, f.Go, has, isSet))
			}
			if dyn.HasField(f.Tag) != isSet {
				problems = append(problems, fmt.Sprintf("%s [%s] field %s: dynamic HasField(%d)=%v want %v (accessor uses another tag?)", d.Key, s.name, f.Name, f.Tag, dyn.HasField(f.Tag), isSet))
			}
			if !isSet {
				continue
			}
			exp := expectField(f, s.variant, 0)
			if got := readField(m, f, 0); got != exp {
				problems = append(problems, fmt.Sprintf("%s [%s] field %s: generated reader returns %s, written %s", d.Key, s.name, f.Name, clip(got), clip(exp)))
			}
			got, err := dynField(dyn, f, 0)
			if err != nil {
				problems = append(problems, fmt.Sprintf("%s [%s] field %s: dynamic API: %v", d.Key, s.name, f.Name, err))
			} else if got != exp {
				problems = append(problems, fmt.Sprintf("%s [%s] field %s: dynamic API by tag %d returns %s, written %s", d.Key, s.name, f.Name, f.Tag, clip(got), clip(exp)))
			}
		}
		// tags present = exactly the declared tags that were set
		if dyn.Fields() != len(want) {
			problems = append(problems, fmt.Sprintf("%s [%s] %d tags on the wire, %d fields written", d.Key, s.name, dyn.Fields(), len(want)))
		}
		// interchangeability: re-open the same bytes with the generated Open and compare again
		m2any, err := d.Open(raw)
		if err != nil {
			problems = append(problems, fmt.Sprintf("%s [%s] Open: %v", d.Key, s.name, err))
			continue
		}
		m2 := reflect.ValueOf(m2any)
		for i, f := range d.Fields {
			if s.only >= 0 && s.only != i {
				continue
			}
			if got, exp := readField(m2, f, 0), expectField(f, s.variant, 0); got != exp {
				problems = append(problems, fmt.Sprintf("%s [%s] field %s after re-open: %s want %s", d.Key, s.name, f.Name, clip(got), clip(exp)))
			}
		}
		if len(problems) > 6 {
			return
		}
	}
	return
}

// CheckStruct: generated struct encode/decode are inverse.
func CheckStruct(s *Struct) (problems []string) {
	defer func() {
		if e := recover(); e != nil {
			problems = append(problems, fmt.Sprintf("%s: panic: %v", s.Key, e))
		}
	}()
	for variant := 0; variant < 3; variant++ {
		v := structValue(s.Key, variant, 0)
		buf := buffer.New()
		n, err := s.Encode(buf, v)
		if err != nil || n != buf.Len() {
			problems = append(problems, fmt.Sprintf("%s: encode n=%d len=%d err=%v", s.Key, n, buf.Len(), err))
			continue
		}
		got, m, err := s.Decode(buf.Bytes())
		if err != nil || m != n || fmt.Sprintf("%v", got) != fmt.Sprintf("%v", v) {
			problems = append(problems, fmt.Sprintf("%s: decode(encode(v)) = %v (size %d, err %v), want %v (size %d)", s.Key, got, m, err, v, n))
		}
	}
	return
}

// CheckEnum: enum <-> int32.
func CheckEnum(e *Enum) (problems []string) {
	for _, v := range e.Values {
		x := e.Make(v)
		if got := int32(reflect.ValueOf(x).Int()); got != v {
			problems = append(problems, fmt.Sprintf("%s: value %d maps to %d", e.Key, v, got))
		}
	}
	return
}

func clip(s string) string {
	if len(s) > 120 {
		return s[:120] + "…"
	}
	return s
}

// CheckAll checks everything registered; returns problems keyed by registry key prefix (package).
func CheckAll() map[string][]string {
	out := map[string][]string{}
	add := func(key string, ps []string) {
		if len(ps) > 0 {
			pkg := key[:strings.Index(key, ".")]
			out[pkg] = append(out[pkg], ps...)
		}
	}
	var keys []string
	for k := range Msgs {
		keys = append(keys, k)
	}
	sort.Strings(keys)
	for _, k := range keys {
		add(k, CheckMsg(Msgs[k]))
	}
	for k, s := range Structs {
		add(k, CheckStruct(s))
	}
	for k, e := range Enums {
		add(k, CheckEnum(e))
	}
	return out
}

// ---- schema evolution (C16) ----

var Pairs [][2]string

func RegisterPair(a, b string) { Pairs = append(Pairs, [2]string{a, b}) }

func zeroField(f Field, depth int) string {
	switch {
	case f.List:
		return "[]"
	case f.Kind == "msg":
		d := Msgs[f.Ref]
		var parts []string
		for _, g := range d.Fields {
			if depth+1 >= 2 && g.Kind == "msg" {
				continue
			}
			parts = append(parts, fmt.Sprintf("%d=%s", g.Tag, zeroField(g, depth+1)))
		}
		return "{" + strings.Join(parts, " ") + "}"
	case f.Kind == "struct":
		return fmt.Sprintf("%v", Structs[f.Ref].Zero())
	case f.Kind == "enum":
		return "0"
	case f.Kind == "any":
		return "any:0"
	case f.Kind == "anymsg":
		return "anymsg:0"
	}
	return show(scalar(f.Kind, 0, f.Tag))
}

func sameWire(a, b Field) bool {
	return a.Tag == b.Tag && a.Kind == b.Kind && a.List == b.List && a.Ref == b.Ref
}

// crossRead: write `from` (value set), read with `to`.
func crossRead(from, to *Msg, variant, only int, dir string) (problems []string) {
	w := reflect.ValueOf(from.New())
	written := map[uint16]Field{}
	for i, f := range from.Fields {
		if only >= 0 && only != i {
			continue
		}
		if err := setField(w, f, variant, 0); err != nil {
			return []string{fmt.Sprintf("%s writing %s.%s: %v", dir, from.Key, f.Name, err)}
		}
		written[f.Tag] = f
	}
	rv := call(w, "Build")
	if err := errOf(rv); err != nil {
		return []string{fmt.Sprintf("%s Build: %v", dir, err)}
	}
	raw := call(rv[0], "Unwrap")[0].Interface().(spec.Message).Raw()
	many, err := to.Open(raw)
	if err != nil {
		return []string{fmt.Sprintf("%s: the other schema version cannot open the message: %v", dir, err)}
	}
	m := reflect.ValueOf(many)
	for _, g := range to.Fields {
		wf, was := written[g.Tag]
		has := call(m, "Has"+g.Go)[0].Bool()
		switch {
		case was && sameWire(wf, g):
			exp := expectField(wf, variant, 0)
			if got := readField(m, g, 0); got != exp || !has {
				problems = append(problems, fmt.Sprintf("%s: common field tag %d (%s -> %s) reads %s (has=%v), written %s", dir, g.Tag, wf.Name, g.Name, clip(got), has, clip(exp)))
			}
		case !was:
			if has {
				problems = append(problems, fmt.Sprintf("%s: field %s (tag %d) absent from the data but Has%s is true", dir, g.Name, g.Tag, g.Go))
			}
			if got, z := readField(m, g, 0), zeroField(g, 0); got != z {
				problems = append(problems, fmt.Sprintf("%s: field %s (tag %d) absent from the data reads %s, want the zero value %s", dir, g.Name, g.Tag, clip(got), clip(z)))
			}
		}
	}
	// Copy/Merge through the other version's writer preserves fields it does not know
	wb := reflect.ValueOf(to.New())
	if err := errOf(call(wb, "Merge", many)); err != nil {
		return append(problems, fmt.Sprintf("%s: Merge: %v", dir, err))
	}
	rv2 := call(wb, "Build")
	if err := errOf(rv2); err != nil {
		return append(problems, fmt.Sprintf("%s: Build after Merge: %v", dir, err))
	}
	raw2 := call(rv2[0], "Unwrap")[0].Interface().(spec.Message).Raw()
	back, err := from.Open(raw2)
	if err != nil {
		return append(problems, fmt.Sprintf("%s: original version cannot open the merged message: %v", dir, err))
	}
	mb := reflect.ValueOf(back)
	for i, f := range from.Fields {
		if only >= 0 && only != i {
			continue
		}
		if got, exp := readField(mb, f, 0), expectField(f, variant, 0); got != exp {
			problems = append(problems, fmt.Sprintf("%s: after Merge through the other version field %s (tag %d) reads %s, written %s (unknown fields must be preserved)", dir, f.Name, f.Tag, clip(got), clip(exp)))
		}
	}
	// the same upgrade on a NESTED message: an envelope (dynamic API) has already written fields of its own, the
	// upgrader opens a nested message, writes one field it knows and merges the old message into it
	src := call(m, "Unwrap")[0].Interface().(spec.Message)
	var tags []uint16
	for i := 0; i < src.Fields(); i++ {
		if t, ok := src.TagAt(i); ok {
			tags = append(tags, t)
		}
	}
	for layout := 0; layout < 2 && len(tags) > 0; layout++ {
		env := []uint16{60001, 60002}
		if layout == 1 {
			env = append([]uint16{}, tags...)
			if len(env) > 2 {
				env = env[len(env)-2:]
			}
		}
		ew := spec.NewMessageWriter()
		for i, t := range env {
			if err := ew.Field(t).Int32(int32(100 + i)); err != nil {
				return append(problems, fmt.Sprintf("%s: envelope: %v", dir, err))
			}
		}
		sub := ew.Field(50).Message()
		if err := sub.Field(tags[0]).Any(src.Field(tags[0])); err != nil {
			return append(problems, fmt.Sprintf("%s: nested known field: %v", dir, err))
		}
		if err := sub.Merge(src); err != nil {
			return append(problems, fmt.Sprintf("%s: nested Merge: %v", dir, err))
		}
		if err := sub.End(); err != nil {
			return append(problems, fmt.Sprintf("%s: nested End: %v", dir, err))
		}
		if err := ew.Field(61000).Bool(true); err != nil {
			return append(problems, fmt.Sprintf("%s: envelope tail: %v", dir, err))
		}
		eb, err := ew.Build()
		if err != nil {
			return append(problems, fmt.Sprintf("%s: envelope Build: %v", dir, err))
		}
		em, err := spec.OpenMessageErr(eb)
		if err != nil {
			return append(problems, fmt.Sprintf("%s: envelope does not open: %v", dir, err))
		}
		nested := em.Message(50)
		if nested.Fields() != len(tags) {
			problems = append(problems, fmt.Sprintf("%s: nested Merge (envelope layout %d): the merged message has %d fields, the source has %d (a field was duplicated or dropped)", dir, layout, nested.Fields(), len(tags)))
		}
		nb, err := from.Open(nested.Raw())
		if err != nil {
			return append(problems, fmt.Sprintf("%s: original version cannot open the nested merged message: %v", dir, err))
		}
		mn := reflect.ValueOf(nb)
		for i, f := range from.Fields {
			if only >= 0 && only != i {
				continue
			}
			if got, exp := readField(mn, f, 0), expectField(f, variant, 0); got != exp {
				problems = append(problems, fmt.Sprintf("%s: after a nested Merge (envelope layout %d) field %s (tag %d) reads %s, written %s (unknown fields must be preserved)", dir, layout, f.Name, f.Tag, clip(got), clip(exp)))
			}
		}
		for i, t := range env {
			if got := em.Int32(t); got != int32(100+i) {
				problems = append(problems, fmt.Sprintf("%s: envelope field %d reads %d after a nested Merge, written %d", dir, t, got, 100+i))
			}
		}
	}
	// copying fields that are ABSENT from the source (what the generated CopyX(old.X()) does for an unset message /
	// any field): the copy must not create a field
	if len(tags) > 0 {
		var absent []uint16
		for t := uint16(1); t < 400 && len(absent) < 2; t++ {
			if !src.HasField(t) {
				absent = append(absent, t)
			}
		}
		cw := spec.NewMessageWriter()
		if err := cw.Field(tags[0]).Any(src.Field(tags[0])); err != nil {
			return append(problems, fmt.Sprintf("%s: copy of a present field: %v", dir, err))
		}
		e1 := cw.Field(absent[0]).Any(src.Field(absent[0]))         // nil value of an absent field
		e2 := cw.Field(absent[1]).Any(src.Message(absent[1]).Raw()) // empty nested message of an absent field
		cb, err := cw.Build()
		if e1 != nil || e2 != nil || err != nil {
			// refusing the copy is a legitimate answer as well
		} else {
			cm, err := spec.OpenMessageErr(cb)
			if err != nil {
				return append(problems, fmt.Sprintf("%s: message with copied absent fields does not open: %v", dir, err))
			}
			for _, t := range absent {
				if cm.HasField(t) {
					problems = append(problems, fmt.Sprintf("%s: copying a field that is absent from the source created field %d (it reads as %d bytes of another field)", dir, t, len(cm.FieldRaw(t))))
				}
			}
			if cm.Fields() != 1 || !bytes.Equal(cm.Field(tags[0]), src.Field(tags[0])) {
				problems = append(problems, fmt.Sprintf("%s: copying absent fields disturbed the message: %d fields, want 1", dir, cm.Fields()))
			}
		}
	}
	// the same with a LARGE unknown field: the old message carries a 70000-byte field under a small unused tag; the
	// upgrader writes the field with the highest tag first and merges the rest, so the large field is appended after
	// it (offsets beyond 64K in an entry that is not the last of the tag-sorted table)
	if len(tags) > 0 {
		unknown := uint16(0)
		for t := uint16(1); t < 250 && unknown == 0; t++ {
			if !src.HasField(t) {
				unknown = t
			}
		}
		big := bytes.Repeat([]byte{0xa5}, 70000)
		big[0], big[len(big)-1] = 0x11, 0x77
		ow := spec.NewMessageWriter()
		for _, t := range tags {
			if err := ow.Field(t).Any(src.Field(t)); err != nil {
				return append(problems, fmt.Sprintf("%s: old message: %v", dir, err))
			}
		}
		if err := ow.Field(unknown).Bytes(big); err != nil {
			return append(problems, fmt.Sprintf("%s: old message: %v", dir, err))
		}
		ob, err := ow.Build()
		if err != nil {
			return append(problems, fmt.Sprintf("%s: old message Build: %v", dir, err))
		}
		old, err := spec.OpenMessageErr(append([]byte{}, ob...))
		if err != nil {
			return append(problems, fmt.Sprintf("%s: old message does not open: %v", dir, err))
		}
		last := tags[len(tags)-1]
		uw := spec.NewMessageWriter()
		if err := uw.Field(last).Any(src.Field(last)); err != nil {
			return append(problems, fmt.Sprintf("%s: upgrade known field: %v", dir, err))
		}
		if err := uw.Merge(old); err != nil {
			return append(problems, fmt.Sprintf("%s: upgrade Merge: %v", dir, err))
		}
		ub, err := uw.Build()
		if err != nil {
			return append(problems, fmt.Sprintf("%s: upgrade Build: %v", dir, err))
		}
		um, err := spec.OpenMessageErr(ub)
		if err != nil {
			return append(problems, fmt.Sprintf("%s: upgraded message does not open: %v", dir, err))
		}
		if got := um.Bytes(unknown); !bytes.Equal(got, big) {
			problems = append(problems, fmt.Sprintf("%s: a 70000-byte unknown field (tag %d) merged in after the known field with the highest tag %d is not preserved: got %d bytes", dir, unknown, last, len(got)))
		}
		if um.Fields() != len(tags)+1 {
			problems = append(problems, fmt.Sprintf("%s: upgrade with a large unknown field: %d fields, want %d", dir, um.Fields(), len(tags)+1))
		}
		ub2, err := from.Open(um.Raw())
		if err != nil {
			problems = append(problems, fmt.Sprintf("%s: original version cannot open the upgraded message with a large unknown field: %v", dir, err))
		} else {
			mu := reflect.ValueOf(ub2)
			for i, f := range from.Fields {
				if only >= 0 && only != i {
					continue
				}
				if got, exp := readField(mu, f, 0), expectField(f, variant, 0); got != exp {
					problems = append(problems, fmt.Sprintf("%s: after merging a large unknown field, field %s (tag %d) reads %s, written %s", dir, f.Name, f.Tag, clip(got), clip(exp)))
				}
			}
		}
	}
	return
}

func CheckPair(a, b *Msg) (problems []string) {
	defer func() {
		if e := recover(); e != nil {
			problems = append(problems, fmt.Sprintf("%s <-> %s: panic: %v", a.Key, b.Key, e))
		}
	}()
	for _, dir := range []struct {
		from, to *Msg
		name     string
	}{{a, b, "A->A'"}, {b, a, "A'->A"}} {
		for _, variant := range []int{0, 1, 2} {
			problems = append(problems, crossRead(dir.from, dir.to, variant, -1, dir.name)...)
		}
		for i := range dir.from.Fields {
			problems = append(problems, crossRead(dir.from, dir.to, 2, i, dir.name+" one-hot")...)
		}
		if len(problems) > 4 {
			break
		}
	}
	return
}

// CheckEverything: CheckAll plus the registered evolution pairs (problems are attributed to the A' package).
func CheckEverything() map[string][]string {
	out := CheckAll()
	for _, p := range Pairs {
		a, b := Msgs[p[0]], Msgs[p[1]]
		if a == nil || b == nil {
			continue
		}
		if ps := CheckPair(a, b); len(ps) > 0 {
			pkg := p[1][:strings.Index(p[1], ".")]
			out[pkg] = append(out[pkg], ps...)
		}
	}
	return out
}
