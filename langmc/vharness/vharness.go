// Package zz_vharness: in-module entry points for the language pipeline (parser, compiler, generator) with
// panics recovered, plus an independent printer and canonical dump of syntax trees.
package zz_vharness

import (
	"fmt"
	"runtime/debug"
	"strings"

	"github.com/basecomplextech/spec/internal/lang"
	"github.com/basecomplextech/spec/internal/lang/parser"
	"github.com/basecomplextech/spec/internal/lang/syntax"
)

// Parse parses src; a panic is returned as pan (with stack), never propagated.
func Parse(src string) (f *syntax.File, err error, pan string) {
	defer func() {
		if e := recover(); e != nil {
			pan = fmt.Sprintf("%v\n%s", e, debug.Stack())
		}
	}()
	f, err = parser.New().Parse(src)
	return
}

// Generate runs compile+generate like `spec generate -i imports src dst`.
func Generate(imports []string, src, dst string, skipRPC bool) (err error, pan string) {
	defer func() {
		if e := recover(); e != nil {
			pan = fmt.Sprintf("%v\n%s", e, debug.Stack())
		}
	}()
	err = lang.New(imports, skipRPC).Generate(src, dst)
	return
}

// Dump is a canonical, layout-independent rendering of everything the tree records, in source order.
func Dump(f *syntax.File) string {
	if f == nil {
		return "<nil file>"
	}
	var sb strings.Builder
	for _, im := range f.Imports {
		fmt.Fprintf(&sb, "import alias=%q id=%q\n", im.Alias, im.ID)
	}
	for _, o := range f.Options {
		fmt.Fprintf(&sb, "option %q=%q\n", o.Name, o.Value)
	}
	for _, d := range f.Definitions {
		switch d.Type {
		case syntax.DefinitionEnum:
			fmt.Fprintf(&sb, "enum %q\n", d.Name)
			for _, v := range d.Enum.Values {
				fmt.Fprintf(&sb, "  value %q=%d\n", v.Name, v.Value)
			}
		case syntax.DefinitionMessage:
			fmt.Fprintf(&sb, "message %q\n", d.Name)
			for _, fd := range d.Message.Fields {
				fmt.Fprintf(&sb, "  field %q %s tag=%d\n", fd.Name, dumpType(fd.Type), fd.Tag)
			}
		case syntax.DefinitionStruct:
			fmt.Fprintf(&sb, "struct %q\n", d.Name)
			for _, fd := range d.Struct.Fields {
				fmt.Fprintf(&sb, "  field %q %s\n", fd.Name, dumpType(fd.Type))
			}
		case syntax.DefinitionService:
			fmt.Fprintf(&sb, "service %q sub=%v\n", d.Name, d.Service.Sub)
			for _, m := range d.Service.Methods {
				in := dumpIO(m.Input)
				if in == "<none>" {
					in = "fields[]" // `name()` : an empty argument list
				}
				fmt.Fprintf(&sb, "  method %q oneway=%v\n    in=%s\n    out=%s\n", m.Name, m.Oneway, in, dumpIO(m.Output))
				if m.Channel != nil {
					fmt.Fprintf(&sb, "    channel in=%s out=%s\n", dumpType(m.Channel.In), dumpType(m.Channel.Out))
				}
			}
		default:
			fmt.Fprintf(&sb, "definition type=%d %q\n", d.Type, d.Name)
		}
	}
	return sb.String()
}

func dumpType(t *syntax.Type) string {
	if t == nil {
		return "<none>"
	}
	if t.Kind == syntax.KindList {
		return "list(" + dumpType(t.Element) + ")"
	}
	return fmt.Sprintf("%s:%s.%s", t.Kind, t.Import, t.Name)
}

func dumpIO(v any) string {
	switch x := v.(type) {
	case nil:
		return "<none>"
	case *syntax.Type:
		if x == nil {
			return "<none>"
		}
		return "type " + dumpType(x)
	case syntax.Fields:
		if x == nil {
			return "<none>"
		}
		var p []string
		for _, f := range x {
			p = append(p, fmt.Sprintf("%q %s %d", f.Name, dumpType(f.Type), f.Tag))
		}
		return "fields[" + strings.Join(p, "; ") + "]"
	case []*syntax.Field:
		return dumpIO(syntax.Fields(x))
	}
	return fmt.Sprintf("<%T>", v)
}

// Layout controls how Render separates tokens.
type Layout struct {
	Sep      string // between tokens
	Comment  int    // index of the token gap that gets a comment (-1: none)
	CommentS string // the comment text, e.g. "// c\n" or "/* c */"
	TrailSep bool   // optional trailing ';' in messages and ',' in method field lists
}

type printer struct {
	sb  strings.Builder
	l   Layout
	gap int
}

func wordByte(b byte) bool {
	return b == '_' || b >= '0' && b <= '9' || b >= 'a' && b <= 'z' || b >= 'A' && b <= 'Z' || b >= 0x80
}

func (p *printer) tok(s string) {
	if p.sb.Len() > 0 {
		sep := p.l.Sep
		if sep == "min" { // minimal separators: a blank only where two word tokens would merge
			sep = ""
			cur := p.sb.String()
			if wordByte(cur[len(cur)-1]) && wordByte(s[0]) {
				sep = " "
			}
		}
		p.sb.WriteString(sep)
		if p.gap == p.l.Comment {
			p.sb.WriteString(p.l.CommentS)
			if p.l.Sep != "min" {
				p.sb.WriteString(p.l.Sep)
			}
		}
		p.gap++
	}
	p.sb.WriteString(s)
}

func (p *printer) typ(t *syntax.Type) {
	if t.Kind == syntax.KindList {
		p.tok("[")
		p.tok("]")
		p.typ(t.Element)
		return
	}
	if t.Import != "" {
		p.tok(t.Import)
		p.tok(".")
		p.tok(t.Name)
		return
	}
	p.tok(t.Name)
}

func (p *printer) fields(fs []*syntax.Field, sep string) {
	for i, f := range fs {
		if i > 0 {
			p.tok(sep)
		}
		p.tok(f.Name)
		p.typ(f.Type)
		p.tok(fmt.Sprint(f.Tag))
	}
	if p.l.TrailSep && len(fs) > 0 {
		p.tok(sep)
	}
}

func (p *printer) io(v any) {
	switch x := v.(type) {
	case *syntax.Type:
		p.tok("(")
		p.typ(x)
		p.tok(")")
	case syntax.Fields:
		p.tok("(")
		p.fields(x, ",")
		p.tok(")")
	case []*syntax.Field:
		p.io(syntax.Fields(x))
	}
}

// Render prints a syntax tree as schema text. It returns the text and the number of token gaps.
func Render(f *syntax.File, l Layout) (string, int) {
	p := &printer{l: l}
	if len(f.Imports) > 0 {
		p.tok("import")
		p.tok("(")
		for _, im := range f.Imports {
			if im.Alias != "" {
				p.tok(im.Alias)
			}
			p.tok(`"` + im.ID + `"`)
		}
		p.tok(")")
	}
	if len(f.Options) > 0 {
		p.tok("options")
		p.tok("(")
		for _, o := range f.Options {
			p.tok(o.Name)
			p.tok("=")
			p.tok(`"` + o.Value + `"`)
		}
		p.tok(")")
	}
	for _, d := range f.Definitions {
		switch d.Type {
		case syntax.DefinitionEnum:
			p.tok("enum")
			p.tok(d.Name)
			p.tok("{")
			for _, v := range d.Enum.Values {
				p.tok(v.Name)
				p.tok("=")
				p.tok(fmt.Sprint(v.Value))
				p.tok(";")
			}
			p.tok("}")
		case syntax.DefinitionMessage:
			p.tok("message")
			p.tok(d.Name)
			p.tok("{")
			p.fields(d.Message.Fields, ";")
			p.tok("}")
		case syntax.DefinitionStruct:
			p.tok("struct")
			p.tok(d.Name)
			p.tok("{")
			for _, fd := range d.Struct.Fields {
				p.tok(fd.Name)
				p.typ(fd.Type)
				p.tok(";")
			}
			p.tok("}")
		case syntax.DefinitionService:
			if d.Service.Sub {
				p.tok("subservice")
			} else {
				p.tok("service")
			}
			p.tok(d.Name)
			p.tok("{")
			for _, m := range d.Service.Methods {
				p.tok(m.Name)
				if m.Input == nil {
					p.tok("(")
					p.tok(")")
				} else {
					p.io(m.Input)
				}
				if m.Channel != nil {
					p.tok("(")
					if m.Channel.In != nil {
						p.tok("<")
						p.tok("-")
						p.typ(m.Channel.In)
					}
					if m.Channel.In != nil && m.Channel.Out != nil {
						p.tok(",")
					}
					if m.Channel.Out != nil {
						p.typ(m.Channel.Out)
						p.tok("-")
						p.tok(">")
					}
					p.tok(")")
				}
				if m.Oneway {
					p.tok("oneway")
				}
				switch o := m.Output.(type) {
				case *syntax.Type:
					p.typ(o)
				case syntax.Fields:
					p.io(o)
				case []*syntax.Field:
					p.io(syntax.Fields(o))
				}
				p.tok(";")
			}
			p.tok("}")
		}
	}
	return p.sb.String(), p.gap
}

// Ints returns every integer the tree records, in source order; Strings likewise (import ids, option values).
func Ints(f *syntax.File) (out []int) {
	fields := func(fs []*syntax.Field) {
		for _, fd := range fs {
			out = append(out, fd.Tag)
		}
	}
	io := func(v any) {
		switch x := v.(type) {
		case syntax.Fields:
			fields(x)
		case []*syntax.Field:
			fields(x)
		}
	}
	for _, d := range f.Definitions {
		switch d.Type {
		case syntax.DefinitionEnum:
			for _, v := range d.Enum.Values {
				out = append(out, v.Value)
			}
		case syntax.DefinitionMessage:
			fields(d.Message.Fields)
		case syntax.DefinitionService:
			for _, m := range d.Service.Methods {
				io(m.Input)
				io(m.Output)
			}
		}
	}
	return
}

func Strings(f *syntax.File) (out []string) {
	for _, im := range f.Imports {
		out = append(out, im.ID)
	}
	for _, o := range f.Options {
		out = append(out, o.Value)
	}
	return
}
