// racecheck: free-running companion of the schedule explorer (C18, auxiliary, sampled): the cooperative
// scheduler's hand-offs are happens-before edges and would blind the race detector, so the same kinds of
// bodies (writers, mpx channels, rpc calls, server start/stop) run here on real goroutines over loopback TCP,
// built with -race. Output: one line "iterations=N"; race reports go to stderr (parsed by the orchestrator).
package main

import (
	"fmt"
	"github.com/basecomplextech/baselibrary/buffer"
	"os"
	"strconv"
	"sync"
	"time"

	"github.com/basecomplextech/baselibrary/alloc"
	"github.com/basecomplextech/baselibrary/async"
	"github.com/basecomplextech/baselibrary/logging"
	"github.com/basecomplextech/baselibrary/ref"
	"github.com/basecomplextech/baselibrary/status"
	"github.com/basecomplextech/spec"
	"github.com/basecomplextech/spec/mpx"
	"github.com/basecomplextech/spec/proto/prpc"
	"github.com/basecomplextech/spec/rpc"
)

func req(msg string) prpc.Request {
	w := prpc.NewRequestWriter()
	calls := w.Calls()
	call := calls.Add()
	call.Method("echo")
	in := call.Input()
	in.Field(1).String(msg)
	in.End()
	call.End()
	calls.End()
	r, err := w.Build()
	if err != nil {
		panic(err)
	}
	return r
}

func main() {
	secs := 5.0
	if len(os.Args) > 1 {
		secs, _ = strconv.ParseFloat(os.Args[1], 64)
	}
	deadline := time.Now().Add(time.Duration(secs * float64(time.Second)))
	logger := logging.Null
	writerPhase()
	iter := 0
	for time.Now().Before(deadline) {
		iter++
		round(logger)
	}
	fmt.Printf("iterations=%d\n", iter)
}

// writerPhase: goroutines that give up or fail midway on pooled writers and release them with Free, next to
// goroutines that build complete messages (about one second).
func writerPhase() {
	var wg sync.WaitGroup
	stop := time.Now().Add(2 * time.Second)
	// programs that give up (or fail) midway and release their pooled writers with Free: two writers per round, so
	// that released writers pile up in the pool and become visible to the other processors
	for g := 0; g < 2; g++ {
		g := g
		wg.Add(1)
		go func() {
			defer wg.Done()
			buf1, buf2 := buffer.New(), buffer.New()
			for i := 0; time.Now().Before(stop); i++ {
				for k := 0; k < 200; k++ {
					buf1.Reset()
					buf2.Reset()
					m1 := spec.NewMessageWriterBuffer(buf1)
					m2 := spec.NewMessageWriterBuffer(buf2)
					w1, w2 := m1.Unwrap(), m2.Unwrap()
					m1.Field(1).Int32(int32(k))
					m2.Field(1).Int32(int32(k))
					if g == 1 {
						m1.Field(2).Message() // abandoned open
						w2.Value().Bool(true) // error: a root value while the message is open
					}
					w1.Free()
					w2.Free()
				}
			}
		}()
	}
	// programs that acquire writers and build complete messages; every other one is dropped without a release (the
	// writer is garbage collected), so these goroutines keep taking writers out of the pool
	for g := 0; g < 4; g++ {
		wg.Add(1)
		go func() {
			defer wg.Done()
			buf := buffer.New()
			for i := 0; time.Now().Before(stop); i++ {
				for k := 0; k < 200; k++ {
					buf.Reset()
					m := spec.NewMessageWriterBuffer(buf)
					m.Field(1).Int32(int32(k))
					if k%2 == 0 {
						continue
					}
					m.Field(2).String("x")
					if b, err := m.Build(); err != nil {
						fmt.Fprintf(os.Stderr, "RACECHECK-MISMATCH writer build %v\n", err)
					} else if mm, _, err := spec.ParseMessage(b); err != nil || mm.Int32(1) != int32(k) {
						fmt.Fprintf(os.Stderr, "RACECHECK-MISMATCH writer result %v\n", err)
					}
				}
			}
		}()
	}
	wg.Wait()
}

func round(logger logging.Logger) {
	opts := mpx.Default()
	opts.Compression = false
	// start/stop of an idle server (listener shutdown vs accept loop)
	{
		idle := mpx.NewServer("localhost:0", mpx.HandleFunc(func(ctx mpx.Context, ch mpx.Channel) status.Status { return status.OK }), logger, opts)
		if st := idle.Start(); st.OK() {
			select {
			case <-idle.Listening().Wait():
			case <-time.After(2 * time.Second):
			}
			select {
			case <-idle.Stop():
			case <-time.After(3 * time.Second):
			}
		}
	}
	// rpc server
	handler := rpc.HandleFunc(func(ctx rpc.Context, ch rpc.ServerChannel) (ref.R[[]byte], status.Status) {
		r, st := ch.Request(ctx)
		if !st.OK() {
			return nil, st
		}
		msg := r.Calls().Get(0).Input().String(1).Unwrap()
		buf := alloc.AcquireBuffer()
		w := spec.NewValueWriterBuffer(buf)
		w.String(msg)
		b, err := w.Build()
		if err != nil {
			buf.Free()
			return nil, status.WrapError(err)
		}
		return ref.NewFreer(b, buf), status.OK
	})
	srv := rpc.NewServer("localhost:0", handler, logger, opts)
	if st := srv.Start(); !st.OK() {
		panic(st.String())
	}
	select {
	case <-srv.Listening().Wait():
	case <-time.After(2 * time.Second):
		panic("server not listening")
	}
	addr := srv.Address()
	cl := rpc.NewClient(addr, rpc.ClientMode_OnDemand, logger, opts)
	var wg sync.WaitGroup
	for g := 0; g < 4; g++ {
		g := g
		wg.Add(1)
		go func() {
			defer wg.Done()
			ctx := async.NoContext()
			for i := 0; i < 5; i++ {
				msg := fmt.Sprintf("m-%d-%d", g, i)
				res, st := cl.Request(ctx, req(msg))
				if st.OK() {
					if got := res.Unwrap().String().Unwrap(); got != msg {
						fmt.Fprintf(os.Stderr, "RACECHECK-MISMATCH got %q want %q\n", got, msg)
					}
					res.Release()
				}
				// writers in parallel (pooled + explicit)
				// programs that give up or fail midway on a pooled writer and release it with Free
				for k := 0; k < 20; k++ {
					m1 := spec.NewMessageWriter()
					wr1 := m1.Unwrap()
					m1.Field(1).Bool(true)
					m1.Field(2).Message() // abandoned open
					wr1.Free()
					m2 := spec.NewMessageWriter()
					wr2 := m2.Unwrap()
					m2.Field(1).Bool(true)
					wr2.Value().Bool(true)
					wr2.Value().Bool(false) // second value without consuming the first: error
					wr2.Free()
				}
				w := spec.NewMessageWriter()
				w.Field(1).String(msg)
				w.Field(2).Int32(int32(i))
				if b, err := w.Build(); err == nil {
					if m, _, err := spec.ParseMessage(b); err != nil || string(m.String(1)) != msg {
						fmt.Fprintf(os.Stderr, "RACECHECK-MISMATCH writer %v\n", err)
					}
				}
			}
		}()
	}
	// raw mpx channel traffic with window updates on the same server is covered by the rpc calls (each call is
	// a channel); additionally stop the server while calls may still be in flight on later rounds
	wg.Wait()
	cl.Close()
	select {
	case <-srv.Stop():
	case <-time.After(3 * time.Second):
		fmt.Fprintln(os.Stderr, "RACECHECK-NOTE server did not stop in 3s")
	}
}
